"""Two-way test of the rules on variants of the CURRENT tree, built in memory (the patched files are overlaid on the
parsed model of /repo's working tree; nothing is written anywhere).

positive controls  every stored breaking change of a property (independent seeded defects under /verif/seeded/<ID>_k and
                   the reverse of each `fix:` commit under /verif/controls) is applied to a copy of /repo's current
                   working tree; the property's check must report at least one violation that is not a known finding.
                   A control that no longer fires means the rule has gone blind: ANALYSIS-ERROR (exit 2).
twins (thorough)   behaviour-preserving refactorings under /verif/twins/*: the check must stay silent (no violation).

A control/twin whose patch does not apply to the current tree (the code it touches was edited) is skipped and listed.
Nothing is executed or imported from the variant trees; they are only parsed.
"""

from __future__ import annotations

import glob
import json
import os

from . import model, refmodels, report
from .model import AnalysisError

VERIF = report.VERIF


def _variants(prop: str):
    out = []
    for d in sorted(glob.glob(os.path.join(VERIF, "seeded", f"{prop}_*"))):
        p = os.path.join(d, "patch.diff")
        if os.path.exists(p):
            out.append({"name": os.path.basename(d), "patch": p, "reverse": False, "kind": "control"})
    idx = os.path.join(VERIF, "controls", "index.json")
    if os.path.exists(idx):
        for c in json.load(open(idx))["controls"]:
            if prop in c["properties"]:
                out.append({"name": os.path.basename(c["file"])[:-5], "patch": os.path.join(VERIF, c["file"]), "reverse": c.get("reverse", False), "kind": "control"})
    return out


def _twins(prop: str):
    out = []
    for d in sorted(glob.glob(os.path.join(VERIF, "twins", "*"))):
        p = os.path.join(d, "patch.diff")
        meta = os.path.join(d, "meta.json")
        if os.path.exists(p):
            props = json.load(open(meta)).get("properties") if os.path.exists(meta) else None
            if props is None or prop in props:
                out.append({"name": "twin " + os.path.basename(d), "patch": p, "reverse": False, "kind": "twin"})
    return out


def run(prop: str, tier: str, mod, seed: int) -> dict:
    """Returns coverage facts; raises AnalysisError when a control does not fire or a twin raises an alarm."""
    if os.environ.get("SA_NO_SELFTEST"):
        return {"skipped": "SA_NO_SELFTEST"}
    variants = _variants(prop)
    if tier == "thorough":
        variants += _twins(prop)
    if not variants:
        return {"controls": 0}
    from . import udiff

    facts = {"controls_applied": 0, "controls_fired": [], "controls_skipped": [], "twins_silent": [], "twins_skipped": []}
    known = [e for e in report.load_known(prop) if e.get("status") == "known"]
    base_repo = model.load_repo(model.REPO_ROOT)
    for v in variants:
        with open(v["patch"], encoding="utf-8") as handle:
            text = handle.read()
        overrides = udiff.apply(text, base_repo.read_text, reverse=v["reverse"])
        if overrides is None:
            facts["controls_skipped" if v["kind"] == "control" else "twins_skipped"].append(v["name"])
            continue
        try:
            repo = model.Repo(model.REPO_ROOT, overrides=overrides, share=base_repo)
            ctx = report.Ctx(prop, tier, seed, repo)
            report.run_rules(ctx, mod)
            failing = [o for o in ctx.obligations if not o["ok"] and not any(report.matches(e, o) for e in known)]
            err = None
        except AnalysisError as exc:
            failing, err = [], str(exc)
        if v["kind"] == "control":
            facts["controls_applied"] += 1
            if failing:
                facts["controls_fired"].append({"control": v["name"], "first": f"{failing[0]['rule']} {failing[0]['construct']}"})
            elif err is not None:
                # the variant left the idiom table: not a pass, but the rule did not go blind silently either
                facts["controls_fired"].append({"control": v["name"], "first": "ANALYSIS-ERROR " + err[:120]})
            else:
                raise AnalysisError(f"positive control {v['name']} does not fire for {prop}: the rule has gone blind")
        else:
            if failing:
                raise AnalysisError(f"behaviour-preserving twin {v['name']} raises an alarm for {prop}: {failing[0]['rule']} {failing[0]['construct']}: {failing[0]['what'][:160]}")
            facts["twins_silent"].append(v["name"] + (" (analysis-error: " + err[:80] + ")" if err else ""))
    return facts
