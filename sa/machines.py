"""Extraction of the declared state machines (states, parents, initial state, transitions, forwarding handlers)
from the __init__ of every StateMachine subclass - table extraction only, nothing is executed."""

from __future__ import annotations

import ast

from .model import AnalysisError, call_name, calls_in, dotted, norm
from . import rules


class MachineDecl:
    def __init__(self, cls):
        self.cls = cls
        self.states: dict[str, dict] = {}  # attr name -> {enum, name, parent(attr) , initial}
        self.transitions: list[dict] = []  # {name, sources:[attr], dest: attr}
        self.initial_current: str | None = None
        self.methods: dict[str, str] = {}  # public method -> transition name it performs
        self.registrations: list[dict] = []  # {state/transition attr, event, handler}

    def by_name(self, name):
        for t in self.transitions:
            if t["name"] == name:
                return t
        return None

    def ancestors(self, st: str) -> list[str]:
        out = []
        cur = self.states[st]["parent"]
        seen = set()
        while cur is not None:
            if cur in seen:
                raise AnalysisError(f"parent cycle at {cur}")
            seen.add(cur)
            out.append(cur)
            cur = self.states[cur]["parent"]
        return out

    def leaves(self):
        parents = {s["parent"] for s in self.states.values() if s["parent"]}
        return [a for a in self.states if a not in parents]


def _self_attr(expr):
    d = dotted(expr)
    if d and d.startswith("self.") and d.count(".") == 1:
        return d.split(".", 1)[1]
    return None


def _source_attrs(expr, init_node, cls_name, depth=0):
    """State attributes named by a transition's source expression: one state, a display of states, a display with a
    starred local list, `list(<local list>)`, a sum of such lists, or a local bound once to one of these."""
    if depth > 4:
        raise AnalysisError(f"{cls_name}: transition sources too deeply nested")
    if isinstance(expr, (ast.List, ast.Tuple)):
        out = []
        for e in expr.elts:
            if isinstance(e, ast.Starred):
                out.extend(_source_attrs(e.value, init_node, cls_name, depth + 1))
            else:
                out.extend(_source_attrs(e, init_node, cls_name, depth + 1) if not _self_attr(e) else [_self_attr(e)])
        return out
    if _self_attr(expr):
        return [_self_attr(expr)]
    if isinstance(expr, ast.Call) and isinstance(expr.func, ast.Name) and expr.func.id in ("list", "tuple") and len(expr.args) == 1 and not expr.keywords:
        return _source_attrs(expr.args[0], init_node, cls_name, depth + 1)
    if isinstance(expr, ast.BinOp) and isinstance(expr.op, ast.Add):
        return _source_attrs(expr.left, init_node, cls_name, depth + 1) + _source_attrs(expr.right, init_node, cls_name, depth + 1)
    if isinstance(expr, ast.Name):
        defs = rules.single_assignments(init_node)
        if expr.id in defs:
            return _source_attrs(defs[expr.id], init_node, cls_name, depth + 1)
    raise AnalysisError(f"{cls_name}: transition sources `{norm(expr)}` are not a list of the machine's states")


def extract(repo, cls_name: str) -> MachineDecl:
    cls = repo.cls(cls_name)
    init = cls.methods.get("__init__")
    if init is None:
        raise AnalysisError(f"{cls_name} has no __init__")
    m = MachineDecl(cls)
    # a local bound once to a class (`new_transition = secsgem.common.Transition`) is that class
    counts: dict = {}
    for st in rules.func_stmts(init.node):
        if isinstance(st, ast.Assign):
            for t in st.targets:
                if isinstance(t, ast.Name):
                    counts.setdefault(t.id, []).append(st.value)
    alias = {n: dotted(v[0]) for n, v in counts.items() if len(v) == 1 and isinstance(v[0], (ast.Name, ast.Attribute)) and dotted(v[0])}

    def callee(c):
        n = call_name(c) or ""
        return alias.get(n, n)

    for st in rules.func_stmts(init.node):
        if not isinstance(st, (ast.Assign, ast.AnnAssign)):
            continue
        targets = rules.assigned_targets(st)
        value = st.value
        if value is None or len(targets) != 1:
            continue
        attr = _self_attr(targets[0])
        if attr is None:
            continue
        if isinstance(value, ast.Call) and callee(value).split(".")[-1] == "State":
            args = list(value.args)
            kw = {k.arg: k.value for k in value.keywords}
            enum = norm(args[0]) if args else None
            name = args[1].value if len(args) > 1 and isinstance(args[1], ast.Constant) else None
            parent = args[2] if len(args) > 2 else kw.get("parent")
            initial = args[3] if len(args) > 3 else kw.get("initial")
            m.states[attr] = {
                "enum": enum,
                "name": name,
                "parent": _self_attr(parent) if parent is not None and not (isinstance(parent, ast.Constant) and parent.value is None) else None,
                "initial": bool(isinstance(initial, ast.Constant) and initial.value),
            }
        elif attr == "_current_state":
            m.initial_current = _self_attr(value)
        elif attr == "_transitions" and isinstance(value, ast.List):
            for elt in value.elts:
                if not (isinstance(elt, ast.Call) and callee(elt).split(".")[-1] == "Transition"):
                    raise AnalysisError(f"{cls_name}._transitions contains a non-Transition element: {norm(elt)}")
                a = list(elt.args)
                kw = {k.arg: k.value for k in elt.keywords}
                tname = a[0] if a else kw.get("name")
                src = a[1] if len(a) > 1 else kw.get("sources")
                dst = a[2] if len(a) > 2 else kw.get("destination")
                if not isinstance(tname, ast.Constant):
                    raise AnalysisError(f"{cls_name}: transition name is not a literal: {norm(elt)}")
                srcs = _source_attrs(src, init.node, cls_name)
                m.transitions.append({"name": tname.value, "sources": srcs, "dest": _self_attr(dst), "where": elt.lineno})
    # handler registrations:  self.<state>.events.<ev>.register(self.<handler>)
    for call in calls_in(init.node):
        f = call.func
        if isinstance(f, ast.Attribute) and f.attr == "register" and call.args:
            recv = dotted(f.value) or ""
            parts = recv.split(".")
            if len(parts) == 4 and parts[0] == "self" and parts[2] == "events":
                m.registrations.append({"on": parts[1], "event": parts[3], "handler": _self_attr(call.args[0]) or norm(call.args[0])})
    # public transition methods
    from . import inline

    for name, meth in cls.methods.items():
        if name == "__init__":
            continue
        body = inline.expand(repo, meth, keep={"_perform_transition"})[0]
        for call in calls_in(body):
            if (call_name(call) or "") == "self._perform_transition" and call.args:
                known, value = rules.literal(body, call.args[0])
                if known and isinstance(value, str):
                    m.methods.setdefault(name, [])
                    m.methods[name].append(value)
    if not m.states or not m.transitions:
        raise AnalysisError(f"{cls_name}: no states/transitions extracted")
    for st_attr, st in m.states.items():
        if st["parent"] is not None and st["parent"] not in m.states:
            raise AnalysisError(f"{cls_name}: parent {st['parent']} of {st_attr} is not a declared state")
    return m


def lockstep_sets(m: MachineDecl, src: str, dst: str):
    """States left / entered by the engine's lock-step parent walk for src -> dst (model of the canonical
    propagation condition `parent is not None and (other is None or other.parent != parent)`)."""
    left = []
    cur, other = src, dst
    while True:
        left.append(cur)
        par = m.states[cur]["parent"]
        if par is not None and (other is None or m.states[other]["parent"] != par):
            cur, other = par, (m.states[other]["parent"] if other is not None else None)
        else:
            break
    entered = []
    cur, other = dst, src
    while True:
        entered.append(cur)
        par = m.states[cur]["parent"]
        if par is not None and (other is None or m.states[other]["parent"] != par):
            cur, other = par, (m.states[other]["parent"] if other is not None else None)
        else:
            break
    return left, entered


def lca_sets(m: MachineDecl, src: str, dst: str):
    """States that must be left / entered: ancestors-or-self of src not shared with dst and vice versa."""
    a = [src] + m.ancestors(src)
    b = [dst] + m.ancestors(dst)
    left = [s for s in a if s not in b]
    entered = [s for s in b if s not in a]
    if src == dst:
        left, entered = [src], [dst]
    return left, entered
