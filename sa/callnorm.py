"""One spelling for the arguments of a call: positional as far as the callee's signature allows.

`f(a, b)`, `f(a, y=b)` and `f(x=a, y=b)` are the same call; rules and summaries compare texts of calls, so every call
whose callee is known is rewritten (in the parsed tree, at load time) to the positional form: keyword arguments that name
the next positional parameters become positional, in signature order; what cannot be placed positionally (a gap, a
keyword-only parameter, **kwargs) stays a keyword.  Known callees: methods called on self / cls / super() (resolved
through the MRO of the enclosing class), classes of the repository (their __init__ through the MRO), module-level
functions of the repository, methods whose name is defined exactly once in the whole repository (receiver type unknown
but unambiguous), and a few standard-library calls the code uses (threading.Timer, Queue.get/put).
A literal `**{...}` with constant string keys is treated as keywords first.
"""

from __future__ import annotations

import ast

STDLIB = {
    "threading.Timer": ["interval", "function", "args", "kwargs"],
}
# calls written with keywords by convention: canonical form = all keywords in signature order, arguments that state the
# default dropped (threading.Thread(None, f, "n") == threading.Thread(target=f, name="n"))
STDLIB_KEYWORD_FORM = {
    "threading.Thread": (["group", "target", "name", "args", "kwargs"], {"group": "None", "args": "()", "kwargs": "None", "daemon": "None"}),
}
STDLIB_METHODS = {
    # (attribute name, frozenset of keyword names seen) -> parameter order
    "get": ["block", "timeout"],
    "put": ["item", "block", "timeout"],
}


def _params(fn: ast.FunctionDef, drop_first: bool):
    a = fn.args
    if a.vararg is not None:
        return None  # positional spill: the position of a keyword matters less clearly - leave such calls alone
    params = a.posonlyargs + a.args
    names = _Sig(x.arg for x in params)
    dflt = dict(zip([x.arg for x in params][len(params) - len(a.defaults):], a.defaults)) if a.defaults else {}
    names.defaults = {k: v for k, v in dflt.items() if isinstance(v, ast.Constant)}
    if drop_first and names:
        d = names.defaults
        names = _Sig(names[1:])
        names.defaults = d
    return names


class _Sig(list):
    """Parameter names in order; .defaults: {name: constant default}."""

    defaults: dict = {}


def canonicalise(repo, modules):
    by_method: dict[str, list] = {}
    for cls in repo.classes.values():
        for name, m in cls.methods.items():
            if "@" not in name:
                by_method.setdefault(name, []).append(m)

    def signature_of(call: ast.Call, mod, cls):
        f = call.func
        if isinstance(f, ast.Attribute):
            recv = f.value
            static = lambda m: "staticmethod" in m.decorators  # noqa: E731
            if isinstance(recv, ast.Name) and recv.id in ("self", "cls") and cls is not None:
                m = cls.find_method(f.attr)
                if m is not None:
                    return _params(m.node, not static(m))
            if isinstance(recv, ast.Call) and isinstance(recv.func, ast.Name) and recv.func.id == "super" and cls is not None:
                for c in cls.mro[1:]:
                    if f.attr in c.methods:
                        return _params(c.methods[f.attr].node, not static(c.methods[f.attr]))
            from .model import dotted

            d = dotted(f)
            if d in STDLIB:
                return STDLIB[d]
            if d:
                target = repo.resolve(mod, d)
                sig = _sig_of_target(target)
                if sig is not None:
                    return sig
            cands = by_method.get(f.attr, [])
            sigs = {("<var>",) if pr is None else tuple(pr) for pr in (_params(m.node, "staticmethod" not in m.decorators) for m in cands)}
            if len(sigs) == 1 and ("<var>",) not in sigs:
                return list(next(iter(sigs)))
            # several methods of that name: the keyword names used may fit only one of the signatures
            used = {k.arg for k in call.keywords if k.arg}
            fitting = {sg for sg in sigs if sg != ("<var>",) and used and used <= set(sg) and len(call.args) <= len(sg)}
            if len(fitting) == 1 and ("<var>",) not in sigs:
                return list(next(iter(fitting)))
            if fitting and ("<var>",) not in sigs:
                # ... or several that agree on everything up to the last keyword used
                cut = {sg[:max(sg.index(u) for u in used) + 1] for sg in fitting}
                if len(cut) == 1:
                    return list(next(iter(cut)))
            if f.attr in STDLIB_METHODS and call.keywords and all(k.arg in STDLIB_METHODS[f.attr] for k in call.keywords if k.arg):
                return STDLIB_METHODS[f.attr]
            return None
        if isinstance(f, ast.Name):
            if f.id == "cls" and cls is not None:
                init = cls.find_method("__init__")
                return _params(init.node, True) if init is not None else None
            target = repo.resolve(mod, f.id)
            return _sig_of_target(target)
        return None

    def _sig_of_target(target):
        from .model import ClassInfo, FuncInfo

        if isinstance(target, ClassInfo):
            init = target.find_method("__init__")
            return _params(init.node, True) if init is not None else None
        if isinstance(target, FuncInfo) and target.cls is None:
            return _params(target.node, False)
        return None

    def is_dict(e, fn, cls, depth=0) -> bool:
        """The expression is recognisably a dict: a literal, dict(...), a property annotated `-> dict[...]`, or a local name
        only ever bound to such expressions."""
        if depth > 3:
            return False
        if isinstance(e, (ast.Dict, ast.DictComp)):
            return True
        if isinstance(e, ast.Call) and isinstance(e.func, ast.Name) and e.func.id == "dict":
            return True
        if isinstance(e, ast.Attribute) and isinstance(e.value, ast.Name) and e.value.id == "self" and cls is not None:
            m = cls.find_method(e.attr)
            if m is not None and "property" in m.decorators and m.node.returns is not None:
                return ast.unparse(m.node.returns).startswith(("dict", "typing.Dict", "Dict"))
            return False
        if isinstance(e, ast.Name) and fn is not None:
            values = []
            for n in ast.walk(fn):
                if isinstance(n, ast.Assign) and any(isinstance(t, ast.Name) and t.id == e.id for t in n.targets):
                    values.append(n.value)
                elif isinstance(n, (ast.AnnAssign, ast.AugAssign, ast.NamedExpr)) and isinstance(n.target, ast.Name) and n.target.id == e.id:
                    values.append(n.value)
                elif isinstance(n, (ast.For, ast.comprehension)) and any(isinstance(t, ast.Name) and t.id == e.id for t in ast.walk(n.target)):
                    return False
            params = {a.arg for a in fn.args.args + fn.args.kwonlyargs + fn.args.posonlyargs}
            if e.id in params or not values:
                return False
            return all(v is not None and is_dict(v, fn, cls, depth + 1) for v in values)
        return False

    def keyword_form(call: ast.Call) -> bool:
        from .model import dotted

        d = dotted(call.func)
        if d not in STDLIB_KEYWORD_FORM or any(isinstance(a, ast.Starred) for a in call.args) or any(k.arg is None for k in call.keywords):
            return False
        names, defaults = STDLIB_KEYWORD_FORM[d]
        if len(call.args) > len(names):
            return False
        kws = [ast.keyword(arg=n, value=a) for n, a in zip(names, call.args)] + list(call.keywords)
        kws = [k for k in kws if not (k.arg in defaults and ast.unparse(k.value) in (defaults[k.arg], "{}" if k.arg == "kwargs" else defaults[k.arg]))]
        kws = [k for k in kws if k.arg != "name"]  # a thread's name is a label for logs and debuggers, no rule or model depends on it
        order = {n: i for i, n in enumerate(names)}
        call.args = []
        call.keywords = sorted(kws, key=lambda k: (order.get(k.arg, len(names)), k.arg))
        return True

    def rewrite(call: ast.Call, mod, cls, fn=None):
        # d.update(**kwargs) -> d.update(kwargs): the keys of a function's own **kwargs are strings
        f = call.func
        if (isinstance(f, ast.Attribute) and f.attr == "update" and not call.args and len(call.keywords) == 1 and call.keywords[0].arg is None
                and fn is not None and fn.args.kwarg is not None and isinstance(call.keywords[0].value, ast.Name) and call.keywords[0].value.id == fn.args.kwarg.arg
                and is_dict(f.value, fn, cls)):
            call.args = [call.keywords[0].value]
            call.keywords = []
            return
        # **name, name bound once in this function to a dict display and used nowhere else: the display itself
        import copy as _copy

        for k in call.keywords:
            if k.arg is None and isinstance(k.value, ast.Name) and fn is not None:
                uses = [n for n in ast.walk(fn) if isinstance(n, ast.Name) and n.id == k.value.id]
                defs = [n for n in ast.walk(fn) if isinstance(n, ast.Assign) and len(n.targets) == 1 and isinstance(n.targets[0], ast.Name) and n.targets[0].id == k.value.id]
                if len(uses) == 2 and len(defs) == 1 and isinstance(defs[0].value, ast.Dict) and fn.args.kwarg is None or (fn is not None and len(uses) == 2 and len(defs) == 1 and isinstance(defs[0].value, ast.Dict) and fn.args.kwarg.arg != k.value.id):
                    k.value = _copy.deepcopy(defs[0].value)
        # **{'a': x} -> a=x
        kws = []
        for k in call.keywords:
            if k.arg is None and isinstance(k.value, ast.Dict) and k.value.keys and all(isinstance(x, ast.Constant) and isinstance(x.value, str) and x.value.isidentifier() for x in k.value.keys):
                kws.extend(ast.keyword(arg=x.value, value=v) for x, v in zip(k.value.keys, k.value.values))
            else:
                kws.append(k)
        call.keywords = kws
        if keyword_form(call):
            return
        if any(isinstance(a, ast.Starred) for a in call.args) or any(k.arg is None for k in call.keywords):
            return
        if not call.keywords and not (call.args and isinstance(call.args[-1], ast.Constant)):
            return
        sig = signature_of(call, mod, cls)
        if not sig:
            return
        by_name = {k.arg: k for k in call.keywords}
        pos = list(call.args)
        defaults = getattr(sig, "defaults", {}) or {}
        while len(pos) < len(sig):
            name = sig[len(pos)]
            if name in by_name:
                pos.append(by_name.pop(name).value)
            elif name in defaults and any(n in by_name for n in sig[len(pos) + 1:]):
                # a later parameter is given by keyword: the skipped one takes its constant default (f(a, c=1) == f(a, None, 1))
                pos.append(ast.copy_location(ast.Constant(value=defaults[name].value), call))
            else:
                break
        # trailing arguments that spell out a constant default are the call without them (f(a, None, False) == f(a))
        if not by_name:
            while pos and len(pos) <= len(sig) and sig[len(pos) - 1] in defaults and isinstance(pos[-1], ast.Constant) \
                    and type(pos[-1].value) is type(defaults[sig[len(pos) - 1]].value) and pos[-1].value == defaults[sig[len(pos) - 1]].value:
                pos.pop()
        call.args = pos
        order = {n: i for i, n in enumerate(sig)}
        call.keywords = sorted(by_name.values(), key=lambda k: (order.get(k.arg, len(sig)), k.arg))

    class DictCalls(ast.NodeTransformer):
        """dict(a=x, b=y) is the display {'a': x, 'b': y} (unless `dict` is rebound in the module, which the package does not do)."""

        def visit_Call(self, node):
            self.generic_visit(node)
            if isinstance(node.func, ast.Name) and node.func.id == "dict" and not node.args and node.keywords and all(k.arg is not None for k in node.keywords):
                return ast.copy_location(ast.Dict(keys=[ast.Constant(value=k.arg) for k in node.keywords], values=[k.value for k in node.keywords]), node)
            return node

    if isinstance(modules, tuple) and modules and modules[0] == "function":
        DictCalls().visit(modules[1])
        ast.fix_missing_locations(modules[1])
        # canonicalise one detached function (a reference model) as if it stood in class `cls` of module `mod`
        _, fn_node, mod, cls = modules
        for node in ast.walk(fn_node):
            if isinstance(node, ast.Call):
                rewrite(node, mod, cls, fn_node)
        return
    for mod in modules:
        DictCalls().visit(mod.tree)
        ast.fix_missing_locations(mod.tree)

        def walk(node, cls, fn):
            for ch in ast.iter_child_nodes(node):
                inner, infn = cls, fn
                if isinstance(ch, ast.ClassDef):
                    inner = repo.classes.get(f"{mod.name}.{ch.name}") if cls is None else repo.classes.get(f"{mod.name}.{cls.name}.{ch.name}")
                if isinstance(ch, (ast.FunctionDef, ast.AsyncFunctionDef)):
                    infn = ch
                walk(ch, inner, infn)
            if isinstance(node, ast.Call):
                rewrite(node, mod, cls, fn)

        walk(mod.tree, None, None)
