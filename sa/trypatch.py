"""Developer tool: run property checks against a scratch copy of /repo with a patch applied.

    /venv/bin/python -m sa.trypatch [-R] <patch.diff|commit-sha> <ID> [<ID> ...]

The copy (secsgem/ and docs/) lives in a temporary directory outside /repo and /verif and is removed afterwards.
Evidence and replay files of the real tree are not touched (the run uses a private VERIF output directory).
"""

from __future__ import annotations

import os
import shutil
import subprocess
import sys
import tempfile


def make_scratch(patch: str | None, reverse: bool, repo="/repo") -> str:
    tmp = tempfile.mkdtemp(prefix="sa_scratch_", dir=os.environ.get("SA_SCRATCH_BASE", "/tmp"))
    shutil.copytree(os.path.join(repo, "secsgem"), os.path.join(tmp, "secsgem"), ignore=shutil.ignore_patterns("__pycache__"))
    os.makedirs(os.path.join(tmp, "docs"), exist_ok=True)
    if os.path.isdir(os.path.join(repo, "docs", "firststeps")):
        shutil.copytree(os.path.join(repo, "docs", "firststeps"), os.path.join(tmp, "docs", "firststeps"))
    if patch:
        if not os.path.exists(patch):
            data = subprocess.run(["git", "-C", repo, "show", "--format=", patch], capture_output=True, text=True, check=True).stdout
            pfile = os.path.join(tmp, "_commit.diff")
            with open(pfile, "w") as handle:
                handle.write(data)
            patch = pfile
        cmd = ["patch", "-p1", "-s", "-d", tmp, "-i", os.path.abspath(patch)]
        if reverse:
            cmd.insert(1, "-R")
        res = subprocess.run(cmd, capture_output=True, text=True)
        if res.returncode != 0:
            shutil.rmtree(tmp, ignore_errors=True)
            raise SystemExit(f"patch failed: {res.stdout}{res.stderr}")
    return tmp


def main() -> int:
    args = sys.argv[1:]
    reverse = False
    if args and args[0] == "-R":
        reverse = True
        args = args[1:]
    patch, props = args[0], args[1:]
    tmp = make_scratch(None if patch == "-" else patch, reverse)
    out = tempfile.mkdtemp(prefix="sa_out_")
    rc = 0
    try:
        for p in props:
            env = dict(os.environ, SECSGEM_REPO=tmp, SA_OUT_DIR=out)
            res = subprocess.run([sys.executable, "-m", "sa.check", p, "--repo", tmp], env=env, capture_output=True, text=True, cwd=os.path.dirname(os.path.dirname(os.path.abspath(__file__))))
            print(res.stdout.replace(tmp + "/", ""), end="")
            if res.stderr.strip():
                print(res.stderr[-2000:])
            print(f"--> {p} exit={res.returncode}")
            rc = max(rc, res.returncode)
    finally:
        shutil.rmtree(tmp, ignore_errors=True)
        shutil.rmtree(out, ignore_errors=True)
    return rc


if __name__ == "__main__":
    sys.exit(main())
