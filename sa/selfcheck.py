"""Positive controls: every rule of a property is run on small fixture sources under sa/fixtures that contain one
seeded violation and one conforming twin; the rule must fire on the first and stay silent on the second.  A rule that
can no longer fire is an analysis error (exit 2), so zero-expected rules never pass vacuously.

Fixtures register themselves through `register(prop, name, fn)`; fn() returns None or raises AnalysisError.
Run as a module (`python -m sa.selfcheck`) it is MANIFEST.setup_cmd: parse the tree, run all fixtures.
"""

from __future__ import annotations

import importlib
import pkgutil
import sys

from .model import AnalysisError

_REGISTRY: dict[str, list] = {}


def register(prop: str, name: str):
    def deco(fn):
        _REGISTRY.setdefault(prop, []).append((name, fn))
        return fn

    return deco


def _load_all():
    from . import fixtures

    for m in pkgutil.iter_modules(fixtures.__path__):
        importlib.import_module(f"sa.fixtures.{m.name}")


def run_fixtures(prop: str | None = None) -> int:
    _load_all()
    n = 0
    for p, items in sorted(_REGISTRY.items()):
        if prop is not None and p != prop:
            continue
        for name, fn in items:
            try:
                fn()
            except AnalysisError:
                raise
            except Exception as exc:
                raise AnalysisError(f"fixture {p}/{name} crashed: {type(exc).__name__}: {exc}") from exc
            n += 1
    return n


def expect(cond: bool, msg: str):
    if not cond:
        raise AnalysisError(f"positive control failed: {msg}")


def main() -> int:
    from . import model

    try:
        repo = model.load_repo()
        n = run_fixtures()
    except AnalysisError as exc:
        print(f"ANALYSIS-ERROR selfcheck {exc}")
        return 2
    print(f"selfcheck ok: {len(repo.modules)} modules, {len(repo.functions)} functions, {len(repo.classes)} classes parsed; "
          f"{n} rule fixtures fired/stayed silent as required")
    return 0


if __name__ == "__main__":
    sys.exit(main())
