"""Finite-domain evaluation of small handler functions: constant propagation over the structured AST with a given
valuation of the state they read (e.g. the current control state), recording the calls made and the value returned.

It decides, for every value of a finite enum, which branch a handler takes - without running the handler."""

from __future__ import annotations

import ast

from .model import AnalysisError, ClassInfo, call_name, dotted, norm


class Enum:
    __slots__ = ("cls", "member")

    def __init__(self, cls, member):
        self.cls, self.member = cls, member

    def __eq__(self, other):
        return isinstance(other, Enum) and (self.cls, self.member) == (other.cls, other.member)

    def __hash__(self):
        return hash((self.cls, self.member))

    def __repr__(self):
        return f"{self.cls}.{self.member}"


class ClsTok:
    """A repository class used as a value (e.g. an element of a type list)."""

    __slots__ = ("name",)

    def __init__(self, name):
        self.name = name

    def __eq__(self, other):
        return isinstance(other, ClsTok) and other.name == self.name

    def __hash__(self):
        return hash(("cls", self.name))

    def __repr__(self):
        return self.name


class Unknown:
    def __init__(self, why=""):
        self.why = why

    def __repr__(self):
        return f"Unknown({self.why})"


class Undecided(AnalysisError):
    pass


class NeedDecision(Exception):
    pass


def explore(make, limit=6):
    """All outcomes of an evaluation whose undecided branches are taken both ways: [(decisions [(text, bool)], trace)]."""
    out = []
    stack = [[]]
    while stack:
        dec = stack.pop()
        ev = make(dec)
        try:
            tr = ev.run()
        except NeedDecision:
            if len(dec) >= limit:
                raise Undecided("too many undecided branches")
            stack.append(dec + [True])
            stack.append(dec + [False])
            continue
        out.append((list(zip(ev.asked, dec)), tr))
    return out


class _Ret(Exception):
    def __init__(self, v):
        self.v = v


class Trace:
    def __init__(self):
        self.calls: list[tuple[str, list]] = []
        self.assigned: dict[str, object] = {}
        self.returned = None
        self.raised = None


class FDE:
    def __init__(self, repo, func, attr_env: dict, enum_classes=(), env=None, inline=False, depth=0, hooks=None, decisions=None):
        self.hooks = hooks or {}
        self.decisions = decisions  # None: an undecided branch is an error; list: pre-chosen outcomes, consumed in order
        self.asked: list[str] = []
        self.repo = repo
        self.func = func
        self.attr = dict(attr_env)
        self.env: dict[str, object] = dict(env or {})
        self.trace = Trace()
        self.enum_classes = set(enum_classes)
        self.inline = inline
        self.depth = depth

    def run(self) -> Trace:
        try:
            self._block(self.func.node.body)
        except _Ret as r:
            self.trace.returned = r.v
        return self.trace

    def _block(self, stmts):
        for st in stmts:
            self._stmt(st)

    def _stmt(self, st):
        if isinstance(st, ast.Expr):
            if not isinstance(st.value, ast.Constant):
                self.ev(st.value)
        elif isinstance(st, ast.Assign):
            v = self.ev(st.value)
            for t in st.targets:
                if isinstance(t, ast.Name):
                    self.env[t.id] = v
                elif isinstance(t, (ast.Tuple, ast.List)) and isinstance(v, (list, tuple)) and len(v) == len(t.elts) and all(isinstance(x, ast.Name) for x in t.elts):
                    for x, val in zip(t.elts, v):
                        self.env[x.id] = val
                else:
                    d = dotted(t)
                    if d:
                        self.attr[d] = v
                        self.trace.assigned[d] = v
        elif isinstance(st, ast.AnnAssign):
            if st.value is not None and isinstance(st.target, ast.Name):
                self.env[st.target.id] = self.ev(st.value)
        elif isinstance(st, ast.Return):
            raise _Ret(self.ev(st.value) if st.value is not None else None)
        elif isinstance(st, ast.If):
            c = self.ev(st.test)
            if isinstance(c, Unknown):
                if self.decisions is None:
                    raise Undecided(f"{self.func.qualname}: branch `{norm(st.test)}` is not decided by the given state ({c.why})")
                self.asked.append(norm(st.test))
                if len(self.asked) > len(self.decisions):
                    raise NeedDecision(norm(st.test))
                c = self.decisions[len(self.asked) - 1]
            self._block(st.body if c else st.orelse)
        elif isinstance(st, ast.Pass):
            pass
        elif isinstance(st, ast.Raise):
            self.trace.raised = norm(st.exc) if st.exc else "raise"
            raise _Ret(None)
        else:
            raise Undecided(f"{self.func.qualname}: statement `{norm(st)[:60]}` is outside the evaluator's fragment")

    def ev(self, e):
        if isinstance(e, ast.Constant):
            return e.value
        if isinstance(e, ast.Name):
            if e.id in self.env:
                return self.env[e.id]
            target = self.repo.resolve(self.func.module, e.id)
            if isinstance(target, ClassInfo):
                return ClsTok(target.name)
            if isinstance(target, ast.AST) and isinstance(target, (ast.List, ast.Tuple)):
                return self.ev(target)
            return Unknown(f"name {e.id}")
        if isinstance(e, ast.DictComp) and len(e.generators) == 1 and isinstance(e.generators[0].target, ast.Name) and not e.generators[0].ifs:
            it = self.ev(e.generators[0].iter)
            if isinstance(it, list) and not any(isinstance(x, Unknown) for x in it):
                out = {}
                saved = self.env.get(e.generators[0].target.id)
                for x in it:
                    self.env[e.generators[0].target.id] = x
                    k = self.ev(e.key)
                    if isinstance(k, (Unknown, list, dict)):
                        return Unknown(norm(e))
                    out[k] = self.ev(e.value)
                if saved is None:
                    self.env.pop(e.generators[0].target.id, None)
                else:
                    self.env[e.generators[0].target.id] = saved
                return out
            return Unknown(norm(e))
        if isinstance(e, ast.Attribute):
            d = dotted(e)
            if isinstance(e.value, ast.Name) and isinstance(self.env.get(e.value.id), ClsTok):
                cls = self.repo.cls(self.env[e.value.id].name)
                if cls.find_const_expr(e.attr)[1] is not None:
                    try:
                        return self.repo.const(cls, e.attr)
                    except AnalysisError:
                        return Unknown(d or norm(e))
            if d is not None:
                if d in self.attr:
                    return self.attr[d]
                parts = d.split(".")
                if len(parts) >= 2 and parts[-2] in self.enum_classes:
                    return Enum(parts[-2], parts[-1])
                # <...>.<CLASS>.<CONST> with CLASS a repository class holding an int constant
                if len(parts) >= 2 and self.repo.has_cls(parts[-2]):
                    cls = self.repo.cls(parts[-2])
                    if cls.find_const_expr(parts[-1])[1] is not None:
                        try:
                            return self.repo.const(cls, parts[-1])
                        except AnalysisError:
                            pass
                if d.endswith(".value"):
                    inner = self.ev(e.value)
                    if isinstance(inner, Enum):
                        try:
                            return self.repo.const(inner.cls, inner.member)
                        except AnalysisError:
                            return Unknown(d)
            return Unknown(d or norm(e))
        if isinstance(e, (ast.List, ast.Tuple, ast.Set)):
            out = []
            for x in e.elts:
                if isinstance(x, ast.Starred):
                    inner = self.ev(x.value)
                    if isinstance(inner, list):
                        out.extend(inner)
                    else:
                        out.append(Unknown("starred"))
                else:
                    out.append(self.ev(x))
            return out
        if isinstance(e, ast.Dict):
            out = {}
            for k, v in zip(e.keys, e.values):
                kv = self.ev(k) if k is not None and not isinstance(k, ast.Constant) else None
                key = self._key(k) if kv is None or isinstance(kv, (Unknown, list, dict)) else kv
                out[key] = self.ev(v)
            return out
        if isinstance(e, ast.Subscript) and not isinstance(e.slice, ast.Slice):
            base, key = self.ev(e.value), self.ev(e.slice)
            if isinstance(base, dict) and not isinstance(key, (Unknown, list, dict)):
                return base[key] if key in base else Unknown(f"KeyError {key!r}")
            if isinstance(base, (list, tuple)) and isinstance(key, int) and not (base and base[0] == "call") and -len(base) <= key < len(base):
                return base[key]
            return Unknown(norm(e))
        if isinstance(e, ast.UnaryOp) and isinstance(e.op, ast.Not):
            v = self.ev(e.operand)
            return v if isinstance(v, Unknown) else (not v)
        if isinstance(e, ast.BoolOp):
            vals = [self.ev(v) for v in e.values]
            if isinstance(e.op, ast.And):
                if any(v is False or (not isinstance(v, Unknown) and not v) for v in vals):
                    return False
                if any(isinstance(v, Unknown) for v in vals):
                    return Unknown("and")
                return True
            if any((not isinstance(v, Unknown)) and v for v in vals):
                return True
            if any(isinstance(v, Unknown) for v in vals):
                return Unknown("or")
            return False
        if isinstance(e, ast.Compare) and len(e.ops) == 1:
            a, b = self.ev(e.left), self.ev(e.comparators[0])
            op = e.ops[0]
            if isinstance(a, Unknown) or isinstance(b, Unknown) or (isinstance(b, list) and any(isinstance(x, Unknown) for x in b)) or (isinstance(b, tuple) and b and b[0] == "call"):
                return Unknown(norm(e))
            if isinstance(op, (ast.Eq, ast.Is)):
                return a == b
            if isinstance(op, (ast.NotEq, ast.IsNot)):
                return a != b
            if isinstance(op, ast.In):
                return a in b
            if isinstance(op, ast.NotIn):
                return a not in b
            if isinstance(a, (int, float)) and isinstance(b, (int, float)):
                import operator as o

                return {ast.Lt: o.lt, ast.LtE: o.le, ast.Gt: o.gt, ast.GtE: o.ge}[type(op)](a, b)
            return Unknown(norm(e))
        if isinstance(e, ast.Call):
            name = call_name(e)
            args = [self.ev(a) for a in e.args]
            if name in self.hooks:
                self.trace.calls.append((name, args))
                return self.hooks[name](args)
            if isinstance(e.func, ast.Attribute) and e.func.attr == "get" and 1 <= len(args) <= 2:
                base = self.ev(e.func.value)
                if isinstance(base, dict) and not isinstance(args[0], (Unknown, list, dict)):
                    return base.get(args[0], args[1] if len(args) > 1 else None)
            if isinstance(e.func, (ast.Name, ast.Attribute)):
                target = self.ev(e.func) if isinstance(e.func, ast.Name) else None
                if isinstance(target, ClsTok):
                    kwargs = {k.arg: self.ev(k.value) for k in e.keywords if k.arg}
                    self.trace.calls.append((target.name, args))
                    return ("new", target.name, tuple(args), tuple(sorted(kwargs.items(), key=lambda kv: kv[0])))
            if name is None and isinstance(e.func, ast.Call):
                inner = self.ev(e.func)
                val = ("instance", inner, args)
                return val
            self.trace.calls.append((name or norm(e.func), args))
            if self.inline and name and name.startswith("self.") and name.count(".") == 1 and self.func.cls is not None and self.depth < 3:
                mname = name.split(".")[1]
                callee = self.func.cls.methods.get(mname) or self.func.cls.find_method(mname)
                if callee is None and mname.startswith("_" + self.func.cls.name + "__"):
                    callee = self.func.cls.methods.get(mname[len(self.func.cls.name) + 1:])
                if callee is not None:
                    params = [a.arg for a in callee.node.args.args[1:]]
                    sub = FDE(self.repo, callee, self.attr, self.enum_classes, env=dict(zip(params, args)), inline=True, depth=self.depth + 1, hooks=self.hooks)
                    try:
                        tr = sub.run()
                    except Undecided:
                        return Unknown(f"call {name}")
                    return tr.returned
            return ("call", name, args)
        if isinstance(e, ast.IfExp):
            c = self.ev(e.test)
            if isinstance(c, Unknown):
                return Unknown(norm(e))
            return self.ev(e.body) if c else self.ev(e.orelse)
        return Unknown(norm(e))

    @staticmethod
    def _key(k):
        return k.value if isinstance(k, ast.Constant) else norm(k)
