"""C19 - function structure definitions (SFDL) are read exactly as documented."""

from __future__ import annotations

import ast
import re

from ..cfg import cfg_of
from ..model import AnalysisError, call_name, calls_in, dotted, norm, walk_no_nested
from .. import inline, normal, rules, sfdl
from .. import conds as cnd
from . import c03

META = {
    "explanation": "Loop-progress and rejection rules on SFDLTokenizer (one character per iteration, end of input and comment "
    "start tested unconditionally, every 'expected ...' test has a raising branch, unknown data item names raise, the "
    "closing-bracket step follows the item step on every path), dataflow rule on the record-versus-array discriminator "
    "(the list whose length decides the shape must contain members only), exactly-one-key-per-member rules on the key "
    "derivation in List._generate / get_name_from_format / Array.__init__, scope rule for list names (a name reaches the "
    "list's own members only), no cached (shared-cursor) tokenizers, and - exhaustively over the 134 shipped structures - "
    "a check against an independent reader of the documented grammar that none lies in the region where documented and "
    "implemented naming differ.",
    "decides": [
        "C19.G1 tokenizer termination and rejection: progress per iteration, unconditional comment start, raising branch for every expectation, unknown item names raise, closing step post-dominates the item step",
        "C19.P1 shape discriminator: the list measured by `len(...) == 1` holds members only (an optional list name is not counted)",
        "C19.P2 key derivation: each member receives exactly one key on every path (array -> its name, record -> explicit name else DATA, data item -> its name), anything else raises; a list name is handed to the list's own members only",
        "C19.P3 every generate()/get_format() call tokenizes with a fresh tokenizer (no cached cursor shared between callers)",
        "C19.P4 members and open-list elements are materialised only through generate(): no private List/Array construction from a descriptor in the container classes",
        "C19.T1 the shipped structures parse under the documented grammar and none uses a shape on which the implementation deviates",
    ],
    "does_not_decide": ["the mapping for arbitrary generated definitions beyond P1/P2 (program-level quantifier)"],
    "assumptions": ["docs/firststeps/sfdl.md is the documentation of record"],
}


def check_tokenizer(ctx):
    repo = ctx.repo
    f = repo.method("SFDLTokenizer", "parse_all", inherited=False)
    ctx.touch(f)
    q = f.qualname
    cfg = cfg_of(f.node)
    reads = [n for n in cfg.real_nodes() if any(c == "self._get_char" for c in n.call_names())]
    heads = [n for n in cfg.nodes if n.kind == "test" and n.label == "while"]
    ctx.require(len(reads) == 1 and len(heads) == 1, f"{q}: character loop not recognised")
    R, H = reads[0], heads[0]
    cv = R.ast.targets[0].id
    eofs = [n for n in cfg.nodes if n.kind == "test" and norm(n.ast) in (f"{cv} == ''", f"not {cv}")]
    ok = len(eofs) == 1 and not cfg.path_exists(R, R, avoid=eofs)
    ctx.ob("C19.G1", q, ok, "end of input is tested on every pass of the character loop" if ok else "a path loops back to the next read without the end-of-input test (tokenizer spins on input that ends there)", key="eof-on-every-path", where=f.where)
    once = cfg.loop_iteration_counts(H, lambda n: n is R, no_exc=True)
    ok = bool(once) and all(v == (1, 1) for v in once.values())
    ctx.ob("C19.G1", q, ok, "exactly one character is consumed per iteration" if ok else f"characters consumed per iteration: {once}", key="one-char", where=f.where)
    if eofs:
        E = rules.branch_marker(eofs[0], "true")
        proc = [n for n in cfg.real_nodes() if any(c == "self._process_tokens" for c in n.call_names())]
        ok = len(proc) == 1 and cfg.dominates(E, proc[0]) and not cfg.path_exists(E, R)
        ctx.ob("C19.G1", q, ok, "at end of input the collected elements are checked and the loop ends" if ok else "end of input does not run the structure check exactly once and leave", key="eof-processes", where=f.where)
    starts = [n for n in cfg.real_nodes() if isinstance(n.ast, ast.Assign) and norm(n.ast.targets[0]) == "in_comment" and norm(n.ast.value) == "True"]
    ok = len(starts) == 1 and [(norm(t), v) for t, v in cfg.dominating_conditions(starts[0]) if "comment_start" in norm(t) or "current_token" in norm(t) or " and " in norm(t)] == [(f"{cv} in self.comment_start_chars", True)]
    ctx.ob("C19.G1", q, ok, "'#' starts a comment wherever it appears" if ok else
           "the comment start is subject to an extra condition (e.g. only at a token boundary): `< ALCD# code` keeps '#...' in the name or is rejected although the documentation says a comment starts at '#'", key="comment-start", where=f.where)
    ends = [n for n in cfg.real_nodes() if isinstance(n.ast, ast.Assign) and norm(n.ast.targets[0]) == "in_comment" and norm(n.ast.value) == "False"]
    ends = [n for n in ends if cfg.path_exists(R, n)]
    ok = len(ends) == 1 and cnd.holds(cfg, ends[0], f"{cv} in self.comment_end_chars")
    if not ends:
        # `in_comment = char not in self.comment_end_chars` inside the comment branch
        ends = [n for n in cfg.real_nodes() if isinstance(n.ast, ast.Assign) and norm(n.ast.targets[0]) == "in_comment" and cnd.canon(n.ast.value, True) == {(f"{cv} in self.comment_end_chars", False)} and cnd.holds(cfg, n, "in_comment")]
        ok = len(ends) == 1
    ctx.ob("C19.G1", q, ok, "a comment ends at the line break" if ok else "comments do not end at the line break", key="comment-end", where=f.where)
    # classification of one character: text inside a comment is dropped, whitespace and brackets end a name, anything else
    # is part of the name - each action is taken for exactly its class
    def branch_facts(node):
        return {(t, p) for t, p in cnd.facts(cfg, node) if t not in (f"{cv} == ''", "True")}

    klass = {
        "whitespace ends the current name": ([n for n in cfg.real_nodes() if any(c == "self._process_whitespace" for c in n.call_names())], {("in_comment", False), (f"{cv} in self.whitespaces", True)}),
        "a bracket ends the current name and is an element itself": ([n for n in cfg.real_nodes() if any(c == "self._process_operator" for c in n.call_names())], {("in_comment", False), (f"{cv} in self.operators", True)}),
        "any other character outside a comment extends the current name": ([n for n in cfg.real_nodes() if isinstance(n.ast, ast.AugAssign) and norm(n.ast.target) == "current_token" and norm(n.ast.value) == cv] +
                                                                           [n for n in cfg.real_nodes() if isinstance(n.ast, ast.Assign) and norm(n.ast.targets[0]) == "current_token" and norm(n.ast.value) in (f"current_token + {cv}",)],
                                                                           {("in_comment", False), (f"{cv} in self.whitespaces", False), (f"{cv} in self.operators", False)}),
    }
    for label, (nodes, want) in klass.items():
        got = [branch_facts(n) for n in nodes]
        # the order of the whitespace / bracket tests is free (the classes are disjoint): a fact about the other class may be present
        optional = {(f"{cv} in self.whitespaces", False), (f"{cv} in self.operators", False), (f"{cv} in self.comment_start_chars", False), (f"{cv} in self.comment_start_chars", True)}
        ok = len(nodes) == 1 and want <= got[0] and not (got[0] - want - optional)
        ctx.ob("C19.G1", q, ok, label if ok else f"not ({label}): the action is taken under {[cnd.show(g) for g in got]}, the documented syntax needs {cnd.show(want)}", key="class " + label.split()[0], where=f.where)
    ws = repo.const("SFDLTokenizer", "whitespaces")
    ok = isinstance(ws, str) and set(ws) == set(" \t\n\r")
    ctx.ob("C19.G1", "SFDLTokenizer", ok, "blank, tab and both line breaks separate words" if ok else
           f"whitespace characters are {ws!r}: a definition laid out with {sorted(set(' \t\n\r') - set(ws or ''))!r} is mis-tokenised although the syntax allows arbitrary white space", key="whitespace", where=repo.cls("SFDLTokenizer").where)
    ok = repo.const("SFDLTokenizer", "comment_start_chars") == "#" and set(repo.const("SFDLTokenizer", "comment_end_chars")) == {"\n", "\r"} and repo.const("SFDLTokenizer", "operators") == "<>"
    ctx.ob("C19.G1", "SFDLTokenizer", ok, "alphabet: '#' comment, line-break end, '<' '>' operators" if ok else "tokenizer alphabet constants deviate from the documented syntax", key="alphabet", where=repo.cls("SFDLTokenizer").where)
    g = repo.method("SFDLTokenizer", "_get_char", inherited=False)
    ok = any(call_name(c) == "self._source.read" and [norm(a) for a in c.args] == ["1"] for c in calls_in(g.node))
    ctx.ob("C19.G1", g.qualname, ok, "_get_char reads one character" if ok else "_get_char does not read one character", where=g.where)
    # expectations: a step can end normally only if what it expects was found (otherwise it raises)
    avail = (r"^elements\.available$", True)
    for mname, expectations in (
        ("_process_opening_token", [("an element is available", avail), ("the element is '<'", (r"^\w+ == '<'$", True))]),
        ("_process_item_token", [("an element is available", avail)]),
        ("_process_closing_token", [("an element is available", avail), ("the element is '>'", (r"^\w+ == '>'$", True))]),
        ("_process_data_item_token", [("the name is a catalogued data item", (r"^(\w+|getattr\(data_items, \w+, None\)) is None$", False))]),
        ("_process_list_item_token", [("an element is available", avail), ("the next element is a bracket", (r"^(elements\.peek\(\)\[0\]|\w+) in '<>'$", True))]),
    ):
        m = repo.method("SFDLTokenizer", mname, inherited=False)
        ctx.touch(m)
        mfn = inline.expanded(ctx, m, keep={"_process_tokens", "_process_data_item_token", "_process_list_item_token"})
        mcfg = cfg_of(mfn)
        exits = [x for x in mcfg.exit.pred]
        ctx.require(bool(exits), f"{m.qualname}: no normal exit found")
        for label, (pat, pol) in expectations:
            ok = all(any(re.match(pat, t) and p == pol for t, p in cnd.facts(mcfg, x, fn=mfn) | cnd.facts(mcfg, x)) for x in exits)
            ctx.ob("C19.G1", m.qualname, ok, f"the step ends normally only if {label} (otherwise SFDLParseError)" if ok else
                   f"the step can end normally although not ({label}): the expectation is missing or falls through without raising, so a malformed definition is silently accepted", key=label, where=m.where)
    di = repo.method("SFDLTokenizer", "_process_data_item_token", inherited=False)
    ok = any(call_name(c) == "getattr" and norm(c.args[0]) == "data_items" and len(c.args) == 3 and norm(c.args[2]) == "None" for c in calls_in(di.node))
    ctx.ob("C19.G1", di.qualname, ok, "item names are looked up in the data item catalogue" if ok else "item names are not looked up with getattr(data_items, name, None)", key="lookup", where=di.where)
    pt = repo.method("SFDLTokenizer", "_process_tokens", inherited=False)
    pcfg = cfg_of(pt.node)
    order = [next((n for n in pcfg.real_nodes() if any(c == f"self.{x}" for c in n.call_names())), None) for x in ("_process_opening_token", "_process_item_token", "_process_closing_token")]
    ok = all(order) and pcfg.dominates(order[0], order[1]) and pcfg.dominates(order[1], order[2]) and not pcfg.path_exists(order[1], pcfg.exit, avoid=[order[2]], no_exc=True)
    ctx.ob("C19.G1", pt.qualname, ok, "every element is opening tag, item, closing tag - the closing step follows on every path" if ok else "the closing-bracket step does not follow the item step on every path", key="close-postdominates", where=pt.where)
    lt = repo.method("SFDLTokenizer", "_process_list_item_token", inherited=False)
    lcfg = cfg_of(lt.node)
    heads = [n for n in lcfg.nodes if n.kind == "test" and n.label == "while"]
    rec = [n for n in lcfg.real_nodes() if any(c == "self._process_tokens" for c in n.call_names())]
    ok = len(rec) == 1 and any({a for a, _ in cnd.canon(rules.expand_ast(lt.node, n.ast), True)} == {"elements.peek()[0] == '>'"} for n in lcfg.nodes if n.kind == "test")
    ctx.ob("C19.G1", lt.qualname, ok, "a list body is a sequence of elements ended by '>' (each recursion consumes its element)" if ok else "list members are not read until the closing '>'", key="list-loop", where=lt.where)
    # the optional list name: the first element of a list body is its name exactly when it is not a bracket
    names = [n for n in lcfg.real_nodes() if any(call_name(c) == "SFDLToken" and c.args and norm(c.args[0]) == "SFDLTokenType.LIST_NAME" for c in calls_in(n.ast))]
    got = [{(t, p) for t, p in cnd.facts(lcfg, n)} for n in names]
    ok = len(names) == 1 and got[0] == {("elements.available", True), ("elements.peek()[0] in '<>'", False)} and not any(lcfg.dominates(h, names[0]) for h in heads)
    ctx.ob("C19.G1", lt.qualname, ok, "the first element of a list body is taken as the list's name exactly when it is not a bracket" if ok else
           f"the LIST_NAME token is produced under {[cnd.show(g) for g in got]}: a named list loses its name or a bracket is taken for a name", key="list-name", where=lt.where)
    el = repo.method("_SFDLElementList", "pop", inherited=False)
    ok = [norm(s) for s in rules.func_stmts(el.node)] == ["return self._items.pop(0)"]
    ctx.ob("C19.G1", el.qualname, ok, "pop consumes the first element" if ok else "_SFDLElementList.pop does not consume the first element", where=el.where)
    nx = repo.method("SFDLTokens", "next", inherited=False)
    ok = [norm(s) for s in rules.func_stmts(nx.node)] == ["self._token_pointer += 1", "return self._tokens[self._token_pointer]"]
    ctx.ob("C19.G1", nx.qualname, ok, "next() advances the token cursor by one" if ok else "SFDLTokens.next does not advance by exactly one", where=nx.where)


def check_generate(ctx):
    repo = ctx.repo
    g = repo.module_func("secsgem.secs.variables.functions", "_generate_from_sfdl")
    gen = repo.module_func("secsgem.secs.variables.functions", "generate")
    gi = repo.module_func("secsgem.secs.variables.functions", "_generate_item_from_sfdl")
    for f in (g, gen, gi):
        ctx.touch(f)
    cfg = cfg_of(g.node)
    # P1: is the list name appended to the member list that generate() measures?
    name_param = g.node.args.args[1].arg
    tainted = rules.taint(g.node, lambda n: isinstance(n, ast.Attribute) and n.attr == "value") | {name_param}
    returned = {norm(c.args[0]) if isinstance(n.ast.value, ast.Call) and call_name(n.ast.value) == "list" else norm(n.ast.value) for n in cfg.real_nodes() if isinstance(n.ast, ast.Return) and n.ast.value is not None for c in [n.ast.value] if isinstance(n.ast.value, (ast.Call, ast.Name))}
    name_appends = []
    for n in cfg.real_nodes():
        for c in n.calls:
            if isinstance(c.func, ast.Attribute) and c.func.attr == "append" and norm(c.func.value) in returned and c.args and isinstance(c.args[0], ast.Name) and c.args[0].id in tainted:
                name_appends.append(n)
    gcfg = cfg_of(normal.normalised(ctx, gen))
    disc = [n for n in gcfg.nodes if n.kind == "test" and any(re.match(r"^len\(.*\) == 1$", t) for t, _ in cnd.canon(n.ast, True))]
    ctx.require(len(disc) >= 1, "generate: record-vs-array discriminator `len(...) == 1` not found")
    discounts = any("isinstance" in norm(d.ast) or "str" in norm(d.ast) for d in disc)
    ok = not name_appends or discounts
    ctx.ob("C19.P1", gen.qualname, ok, "the list whose length decides record-vs-array contains members only" if ok else
           f"`{name_appends[0].text()}` puts the optional list name into the member list and generate() decides the shape with `{norm(disc[0].ast)}`: `< L NAME < ITEM > >` - documented as an open list named NAME - becomes a one-field record",
           key="name-counted", where=gen.where)
    rets = {}
    for n in gcfg.real_nodes():
        if isinstance(n.ast, ast.Return):
            for t, pol in cnd.facts(gcfg, n):
                if re.match(r"^len\(.*\) == 1$", t):
                    rets[pol] = norm(n.ast.value)
    ok = rets.get(True) == "Array(data_format[0])" and rets.get(False) == "List(data_format)"
    ctx.ob("C19.P1", gen.qualname, ok, "one member => Array of that member, several => List (record)" if ok else f"shape mapping is {rets}", key="mapping", where=gen.where)
    # scope of names
    recs = [c for c in calls_in(g.node) if call_name(c) == "_generate_from_sfdl"]
    ok = len(recs) == 1 and len(recs[0].args) == 2 and name_param not in {n.id for n in ast.walk(recs[0].args[1]) if isinstance(n, ast.Name)}
    ctx.ob("C19.P2", g.qualname, ok, "a list hands only its own name to its members" if ok else
           f"the recursive call passes `{norm(recs[0].args[1]) if recs and len(recs[0].args) > 1 else '?'}`, which can be the name inherited from the parent: the name travels down to grandchildren and replaces their documented key (DATA / item name)", key="name-scope", where=g.where)
    # rejection in the generator
    tok = r"(tokenizer\.tokens|\w+)"
    for f, expectations in (
        (g, [("the element opens with '<'", (r"^\w+\.value == '<'$", True)), ("a token is available", (rf"^{tok}\.available$", True)), ("the next token is a bracket", (rf"^{tok}\.peek\(\)\.value in '<>'$", True))]),
        (gi, [("the name is a catalogued data item", (r"^(\w+|getattr\(.*\)) is None$", False)), ("a token is available", (rf"^{tok}\.available$", True)), ("the element closes with '>'", (r"^\w+\.value == '>'$", True))]),
    ):
        fcfg = cfg_of(f.node)
        exits = list(fcfg.exit.pred)
        ctx.require(bool(exits), f"{f.qualname}: no normal exit")
        for k, (label, (pat, pol)) in enumerate(expectations):
            # the list-body expectations apply to the exits of the list branch (a data item is delegated to the item step)
            scope = [x for x in exits if not (f is g and k > 0 and isinstance(x.ast, ast.Return) and isinstance(x.ast.value, ast.Call) and call_name(x.ast.value) == "_generate_item_from_sfdl")]
            ok = bool(scope) and all(any(re.match(pat, t) and p == pol for t, p in cnd.facts(fcfg, x, fn=f.node) | cnd.facts(fcfg, x)) for x in scope)
            ctx.ob("C19.G1", f.qualname, ok, f"the generator step ends normally only if {label}" if ok else f"the generator step can end normally although not ({label}): the expectation is missing or does not raise", key=label, where=f.where)
    # fresh tokenizer per call, nothing cached
    mod = repo.module("secsgem.secs.variables.functions")
    cached = []
    for m in (mod, repo.module("secsgem.secs.functions.sfdl_tokenizer")):
        for node in ast.walk(m.tree):
            if isinstance(node, (ast.FunctionDef, ast.AsyncFunctionDef)):
                for d in node.decorator_list:
                    dn = dotted(d.func if isinstance(d, ast.Call) else d) or ""
                    if dn.split(".")[-1] in ("lru_cache", "cache", "cached_property"):
                        cached.append(f"{m.name}.{node.name}")
    fresh = all(any(call_name(c) == "SFDLTokenizer" and norm(c.args[0]) == f.node.args.args[0].arg for c in calls_in(f.node)) for f in (gen, repo.module_func("secsgem.secs.variables.functions", "get_format")))
    ctx.ob("C19.P3", "secsgem.secs.variables.functions", fresh and not cached, "every generate()/get_format() call builds its own tokenizer" if (fresh and not cached) else
           f"tokenizers are cached/shared ({cached or 'no SFDLTokenizer(data_format) per call'}): the token cursor is shared state, so two callers reading the same definition at the same time get wrong structures", key="fresh-tokenizer", where="secsgem/secs/variables/functions.py")


REF_KEYS = {
    "_generate": """
def _generate(self, data_format):
    if data_format is None:
        return None
    result_data = OrderedDict()
    for item in data_format:
        if isinstance(item, str):
            self.name = item
            continue
        item_value = generate(item)
        if isinstance(item_value, Array):
            result_data[item_value.name] = item_value
        elif isinstance(item_value, List):
            result_data[List.get_name_from_format(item)] = item_value
        elif isinstance(item_value, Base):
            result_data[item_value.name] = item_value
        else:
            raise TypeError()
    return result_data
""",
    "get_name_from_format": """
def get_name_from_format(data_format):
    if not isinstance(data_format, list):
        raise TypeError()
    if isinstance(data_format[0], str):
        return data_format[0]
    return "DATA"
""",
}


def check_keys(ctx):
    repo = ctx.repo
    f = repo.method("List", "_generate", inherited=False)
    ctx.touch(f)
    from . import _codec

    _codec.agree(ctx, "C19.P2", f, REF_KEYS["_generate"], {
        "stores": "each member gets exactly one key - an array its own name, a record its explicit name or DATA, a data item its name (Array and List are tested before the generic Base); only the list name is skipped",
        "raises": "an unsupported member raises",
        "returns": "the generated members are returned in definition order",
    }, key_prefix="keys ")
    gn = repo.method("List", "get_name_from_format", inherited=False)
    _codec.agree(ctx, "C19.P2", gn, REF_KEYS["get_name_from_format"], {"returns": "a record's key is its leading name, else DATA", "raises": "a non-list format has no record name"}, key_prefix="record-name ")
    ai = repo.method("Array", "__init__", inherited=False)
    ctx.touch(ai)
    # on the path summary of the constructor with its private helpers inlined: which name is stored under which test of
    # the descriptor (spelling of the branches, locals and helpers do not matter)
    from .. import normal, summary

    afn, _ = normal.normalise(repo, ai, comps=False, ifexp=False)
    dparam = afn.args.args[1].arg
    names = {}
    for path in summary.summarise(afn):
        for e, _c in summary.flat_effects(path.effects):
            if e[0] == "store" and e[1] == "self.name":
                names.setdefault(e[2], set()).add(tuple(sorted((t, pol) for t, pol in path.conds if dparam in t and ("isinstance(" in t or "hasattr(" in t))))
    is_list = (f"isinstance({dparam}, list)", True)
    rec = names.get(f"List.get_name_from_format({dparam})", set())
    item = names.get(f"{dparam}.__name__", set())
    ok = bool(rec) and all(is_list in c for c in rec) and bool(item) and all((is_list[0], False) in c for c in item) \
        and not any(is_list in c for v, cs in names.items() if v != f"List.get_name_from_format({dparam})" for c in cs)
    names = {k: sorted(v) for k, v in names.items()}
    ctx.ob("C19.P2", ai.qualname, ok, "an open list is keyed by its member record's name or its data item's name" if ok else f"Array names are derived as {names}", where=ai.where)


def check_catalogue(ctx):
    repo = ctx.repo
    classes = c03.function_classes(repo)
    n = 0
    for (S, F), cls in sorted(classes.items()):
        if cls.find_const_expr("_data_format")[1] is None:
            continue
        fmt = repo.const(cls, "_data_format")
        if not isinstance(fmt, str):
            continue
        n += 1
        try:
            tree = sfdl.parse(fmt)
        except sfdl.SfdlError as exc:
            ctx.ob("C19.T1", cls.name, False, f"{cls.name}: not well-formed under the documented grammar: {exc}", where=cls.where)
            continue
        dev = c03.deviation_reasons(tree)
        ctx.ob("C19.T1", cls.name, not dev, f"{cls.name}: documented shape {_shape_txt(sfdl.documented_shape(tree))}" if not dev else f"{cls.name}: " + "; ".join(dev), where=cls.where)
    ctx.floor("shipped structures", n, 100)


def _shape_txt(sh, depth=0):
    if sh[0] == "item":
        return sh[1]
    if sh[0] == "array":
        return f"[{_shape_txt(sh[2], depth + 1)}...]"
    return "{" + ", ".join(f"{k}: {_shape_txt(v, depth + 1)}" for k, v in sh[2]) + "}"


def check_materialisation(ctx):
    """C19.P4: the record-vs-array decision is taken in one place.  Members of a record and elements of an open list are
    materialised lazily (List._generate, Array.append/set/decode); each of them must hand its descriptor to generate(),
    and nothing in those classes builds a List or an Array from a descriptor on its own - a private shortcut decides
    the shape of nested definitions differently from the documented rule (a one-member list inside an open list)."""
    from .. import inline

    repo = ctx.repo
    sites = 0
    for cname, meths, desc in (("Array", ("append", "set", "decode"), "self.item_decriptor"), ("List", ("_generate",), None)):
        cls = repo.cls(cname)
        for name, f in cls.methods.items():
            ctx.touch(f)
            direct = [c for c in calls_in(f.node) if call_name(c) in ("List", "Array", "secsgem.secs.variables.List", "secsgem.secs.variables.Array") and c.args]
            for c in direct:
                ctx.ob("C19.P4", f.qualname, False, f"`{norm(c)[:80]}` builds a structure from a descriptor without generate(): the record-vs-array rule (one member => open array) is not applied to it",
                       key="direct " + norm(c.func), where=f.where)
        direct_ok = {}
        for m in meths:
            f = repo.method(cname, m, inherited=False)
            fn = inline.expanded(ctx, f, ())
            gens = [c for c in calls_in(fn) if (call_name(c) or "").rsplit(".", 1)[-1] == "generate" and c.args]
            direct_ok[m] = (bool(gens) and (desc is None or all(norm(c.args[0]) == desc for c in gens)), fn)
            sites += len(gens)
        for m in meths:
            f = repo.method(cname, m, inherited=False)
            ok, fn = direct_ok[m]
            if not ok:  # one materialising method may delegate to another (set -> append per element)
                ok = any(call_name(c) in {f"self.{o}" for o in meths if o != m and direct_ok[o][0]} for c in calls_in(fn))
            ctx.ob("C19.P4", f.qualname, ok, "children are materialised by generate() from the stored descriptor" if ok else
                   f"{f.qualname} does not materialise its children with generate({desc or 'member'}): nested definitions are not read by the documented shape rule", key="via-generate", where=f.where)
    ctx.floor("lazy materialisation sites", sites, 2)


def run(ctx):
    check_tokenizer(ctx)
    check_generate(ctx)
    check_materialisation(ctx)
    check_keys(ctx)
    check_catalogue(ctx)
