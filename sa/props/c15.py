"""C15 - SML text of any item parses back to the same item; the parser terminates."""

from __future__ import annotations

import ast
import re
import string

from ..cfg import cfg_of
from ..model import AnalysisError, NotConst, call_name, calls_in, dotted, norm, walk_no_nested
from .. import normal, rules
from .. import conds as cnd
from . import _codec

META = {
    "explanation": "Loop-progress (termination) rules on the SML tokenizer and the token readers (every iteration consumes a "
    "character/token or ends; end of input is tested on every path of the character loop; token access is by plain "
    "indexing so that running past the end raises), writer/reader alphabet agreement computed on constant-folded "
    "character sets (no character written inside a quoted run can close it; the reader strips only characters the writer "
    "never puts inside a run; numeric escapes are written and read as the same byte under the item's codec), exact "
    "terminator set of the list reader, rejection of unknown type names and missing opening brackets, and agreement of "
    "the SML type names with the reader's dispatch table.",
    "decides": [
        "C15.G1 tokenizer: one character consumed per iteration, end of input tested on every path before looping; token cursor advances by exactly one; peeking never clamps",
        "C15.G2 reader loops consume at least one token per iteration and stop only at '>'",
        "C15.T1 writer/reader alphabet: quoted-run characters cannot close the run; the reader unquotes with a strip set disjoint from them; escapes are byte values under the item's codec on both sides",
        "C15.P1 rejection: list items end only at '>' (exact terminator set), unknown type names and a missing '<' raise",
        "C15.T2 SML type names are the reader's dispatch keys; written numbers are in a syntax the reader accepts",
        "C15.T4 the members of a parsed list are rebuilt by Item.from_value, which returns every created item (no truthiness test of an item that defines a length) and picks the class by the documented type tests (shared with C14.P2)",
        "C15.T3 every number a writer emits is within the reader's bounds: numeric widths read their exact range and write with the family's formatter, character/byte codes 0..0xFF, booleans 0..1",
    ],
    "does_not_decide": ["float text round trip (repr precision)", "semantic equality of parsed values beyond the token/alphabet agreement"],
    "assumptions": ["string.printable is the stdlib constant of this interpreter (read from the interpreter, a platform fact)"],
}

STDLIB = {f"string.{n}": getattr(string, n) for n in ("printable", "ascii_letters", "ascii_lowercase", "ascii_uppercase", "digits", "hexdigits", "octdigits", "punctuation", "whitespace")}


def fold_chars(repo, cls, attr):
    """Constant-fold a character-set class attribute built from string.printable with .replace() calls."""
    owner, expr = cls.find_const_expr(attr)
    if expr is None:
        raise AnalysisError(f"{cls.name}.{attr} not found")

    busy = set()

    def ev(e):
        if isinstance(e, ast.Constant):
            return e.value
        if isinstance(e, ast.Attribute) and dotted(e) in STDLIB:
            return STDLIB[dotted(e)]
        if isinstance(e, ast.Call) and isinstance(e.func, ast.Attribute) and e.func.attr == "replace" and len(e.args) == 2:
            return ev(e.func.value).replace(ev(e.args[0]), ev(e.args[1]))
        if isinstance(e, ast.BinOp) and isinstance(e.op, ast.Add):
            return ev(e.left) + ev(e.right)
        if isinstance(e, ast.Name) and e.id not in busy:
            # a module constant bound exactly once at the top level of the module that defines the class
            binds = [st for st in owner.module.tree.body if isinstance(st, (ast.Assign, ast.AnnAssign)) and any(isinstance(t, ast.Name) and t.id == e.id for t in (st.targets if isinstance(st, ast.Assign) else [st.target]))]
            stores = [n for n in ast.walk(owner.module.tree) if isinstance(n, ast.Name) and n.id == e.id and isinstance(n.ctx, (ast.Store, ast.Del))]
            if len(binds) == 1 and len(stores) == 1 and binds[0].value is not None:
                busy.add(e.id)
                try:
                    return ev(binds[0].value)
                finally:
                    busy.discard(e.id)
        if (isinstance(e, ast.Call) and isinstance(e.func, ast.Attribute) and e.func.attr == "join" and isinstance(e.func.value, ast.Constant) and e.func.value.value == ""
                and len(e.args) == 1 and not e.keywords and isinstance(e.args[0], (ast.GeneratorExp, ast.ListComp)) and len(e.args[0].generators) == 1):
            # "".join(c for c in <set> if c [not] in <set> ...): the characters of the first set that pass the filters, in order
            comp, gen = e.args[0], e.args[0].generators[0]
            if isinstance(gen.target, ast.Name) and isinstance(comp.elt, ast.Name) and comp.elt.id == gen.target.id and not gen.is_async:
                tests = []
                for cond in gen.ifs:
                    if (isinstance(cond, ast.Compare) and len(cond.ops) == 1 and isinstance(cond.ops[0], (ast.In, ast.NotIn, ast.Eq, ast.NotEq)) and isinstance(cond.left, ast.Name) and cond.left.id == gen.target.id):
                        tests.append((type(cond.ops[0]), ev(cond.comparators[0])))
                    else:
                        break
                else:
                    keep = {ast.In: lambda c, v: c in v, ast.NotIn: lambda c, v: c not in v, ast.Eq: lambda c, v: c == v, ast.NotEq: lambda c, v: c != v}
                    return "".join(c for c in ev(gen.iter) if all(keep[op](c, v) for op, v in tests))
        raise AnalysisError(f"{cls.name}.{attr}: `{norm(e)}` is not a foldable character set")

    return ev(expr)


REF_SML = {
    "get_token": """
def get_token(self):
    self._token_counter += 1
    return self._tokens[self._token_counter]
""",
    "post_delimiter": """
def _parser_handle_post_delimiter(self, char, current_delimiter, current_token, location):
    if char == current_delimiter:
        current_token += char
        if current_token:
            self._tokens.append(SMLToken(current_token, location.line, location.column, self))
            current_token = ""
        location.reset()
        current_delimiter = ""
    else:
        current_token += char
    return current_delimiter, current_token
""",
}


def check_tokenizer(ctx):
    repo = ctx.repo
    f = repo.method("SMLParser", "parse_all", inherited=False)
    ctx.touch(f)
    q = f.qualname
    cfg = cfg_of(f.node)
    reads = [n for n in cfg.real_nodes() if any(c == "self._get_char" for c in n.call_names())]
    heads = [n for n in cfg.nodes if n.kind == "test" and n.label == "while"]
    ctx.require(len(reads) == 1 and len(heads) == 1, f"{q}: character loop not recognised")
    R, H = reads[0], heads[0]
    cv = R.ast.targets[0].id if isinstance(R.ast, ast.Assign) else None
    eofs = [n for n in cfg.nodes if n.kind == "test" and norm(n.ast) in (f"{cv} == ''", f"not {cv}", f"{cv} == \"\"")]
    ok = len(eofs) == 1
    ctx.ob("C15.G1", q, ok, "end of input is recognised" if ok else "no test for the empty read that marks the end of input", key="eof-test", where=f.where)
    if ok:
        E = eofs[0]
        loops_back = cfg.path_exists(R, R, avoid=[E])
        ctx.ob("C15.G1", q, not loops_back, "every pass of the character loop tests for end of input before continuing" if not loops_back else
               "a path through the character loop reaches the next read without testing for end of input (e.g. the branch for text inside an open quote): on input that ends there the tokenizer spins for ever",
               key="eof-on-every-path", where=f.where)
        ends = not cfg.path_exists(rules.branch_marker(E, "true"), R)
        ctx.ob("C15.G1", q, ends, "at end of input the loop is left" if ends else "the end-of-input branch loops back", key="eof-leaves", where=f.where)
    once = cfg.loop_iteration_counts(H, lambda n: n is R, no_exc=True)
    ok = bool(once) and all(v == (1, 1) for v in once.values())
    ctx.ob("C15.G1", q, ok, "exactly one character is consumed per iteration" if ok else f"characters consumed per iteration: {once}", key="one-char", where=f.where)
    g = repo.method("SMLParser", "_get_char", inherited=False)
    ok = any(call_name(c) == "self._source.read" and [norm(a) for a in c.args] == ["1"] for c in calls_in(g.node))
    ctx.ob("C15.G1", g.qualname, ok, "_get_char reads exactly one character" if ok else "_get_char does not read one character from the source", where=g.where)
    # token access
    gt = repo.method("SMLParser", "get_token", inherited=False)
    pt = repo.method("SMLParser", "peek_token", inherited=False)
    ctx.touch(gt)
    ctx.touch(pt)
    from . import _codec

    _codec.agree(ctx, "C15.G1", gt, REF_SML["get_token"], {
        "stores": "get_token advances the cursor by exactly one per call (otherwise reader loops do not progress)",
        "returns": "get_token returns the token at the advanced cursor (IndexError past the end)",
    }, key_prefix="get-token ")
    ap = pt.node.args.args[1].arg if len(pt.node.args.args) > 1 else "ahead"
    txt = [norm(s) for s in rules.func_stmts(pt.node)]
    prets = [s for s in rules.func_stmts(pt.node) if isinstance(s, ast.Return)]
    guards = [c for c in calls_in(pt.node) if call_name(c) in ("min", "max", "len")] + [s for s in rules.func_stmts(pt.node) if isinstance(s, (ast.Try, ast.If))]
    ok = len(prets) == 1 and rules.expand(pt.node, prets[0].value) in (f"self._tokens[self._token_counter + {ap}]", f"self._tokens[{ap} + self._token_counter]") and not guards
    ctx.ob("C15.G1", pt.qualname, ok, "peek_token indexes the token list directly (running past the end raises)" if ok else
           f"peek_token is {txt}: clamping or defaulting the index lets a missing closing bracket be satisfied by an earlier token (or loops for ever on a trailing value)", where=pt.where)
    # closing a quoted run: only the opening delimiter closes it
    h = repo.method("SMLParser", "_parser_handle_post_delimiter", inherited=False)
    _codec.agree(ctx, "C15.T1", h, REF_SML["post_delimiter"], {
        "returns": "a quoted run is closed only by the delimiter that opened it; any other character is text of the run",
        "stores": "the closed run becomes one token",
    }, key_prefix="quoted-run ")


def check_readers(ctx):
    repo = ctx.repo
    n_loops = 0
    for cname, mname in (("ItemNumber", "_read_sml_token"), ("ItemB", "_read_sml_token"), ("ItemBOOLEAN", "_read_sml_token"), ("ItemStr", "_read_sml_token"), ("Item", "_read_items")):
        f = repo.method(cname, mname, inherited=False)
        ctx.touch(f)
        q = f.qualname
        cfg = cfg_of(normal.normalised(ctx, f, aliases=False, comps=False, ifexp=False))  # `while True: if end: ...; return` is `while not end:`
        heads = [n for n in cfg.nodes if n.kind == "test" and n.label == "while"]
        ctx.require(len(heads) == 1, f"{q}: reader loop not found")
        H = heads[0]
        n_loops += 1
        t = H.ast
        term = None
        stay = cnd.canon(t, True)  # what holds while the loop goes on
        if len(stay) == 1:
            (atom, pol), = stay
            m = re.fullmatch(r"parser\.peek_token\(\)\.value (==|in) ('(?:[^'\\]|\\.)*'|\"(?:[^\"\\]|\\.)*\"|parser\.\w+|SMLParser\.\w+)", atom)
            if m and not pol:
                if m.group(2).startswith(("parser.", "SMLParser.")):
                    lit = repo.const("SMLParser", m.group(2).split(".", 1)[1])  # a class constant of the parser (operators, ...)
                    ctx.require(isinstance(lit, str), f"{q}: `{m.group(2)}` is not a string constant of SMLParser")
                else:
                    lit = ast.literal_eval(m.group(2))
                if m.group(1) == "==":
                    term = {lit}
                else:
                    term = {lit[i:j] for i in range(len(lit) + 1) for j in range(i, len(lit) + 1)}  # `x not in "ab"` is a substring test
        ctx.require(term is not None, f"{q}: loop condition `{norm(t)}` is not a terminator test on the next token")
        ok = term == {">"}
        ctx.ob("C15.P1", q, ok, "the item body ends only at '>'" if ok else
               f"the reader stops at any of {sorted(term)}: a token other than '>' (e.g. '.' or an empty token) closes the item, so text with a missing closing bracket is accepted", key="terminators", where=f.where)
        consumers = [n for n in cfg.real_nodes() if any(c in ("parser.get_token", "sub_parser") for c in n.call_names())]
        per = cfg.loop_iteration_counts(H, lambda n: n in consumers, no_exc=True)
        ok = "next" in per and per["next"][0] >= 1
        ctx.ob("C15.G2", q, ok, "every iteration consumes at least one token" if ok else f"tokens consumed per iteration: {per} - the loop can spin without progress", key="progress", where=f.where)
        after = [n for n in consumers if cfg.dominates(rules.branch_marker(H, "false"), n)]
        ok = len(after) >= 1
        ctx.ob("C15.G2", q, ok, "the closing '>' is consumed after the loop" if ok else "the closing bracket is not consumed: the enclosing list sees it as its own end", key="consume-close", where=f.where)
    ctx.floor("reader loops", n_loops, 5)
    ri = repo.method("Item", "_read_item", inherited=False)
    ctx.touch(ri)
    cfg = cfg_of(ri.node)
    raises = [n for n in cfg.real_nodes() if isinstance(n.ast, ast.Raise)]
    conds = [{a for t, v in cfg.dominating_conditions(r) for a in cnd.canon(rules.expand_ast(ri.node, t), v)} for r in raises]  # locals spelled out
    ok = any(("parser.get_token().value == '<'", False) in c for c in conds)
    ctx.ob("C15.P1", ri.qualname, ok, "an item must start with '<'" if ok else "a missing '<' is not refused", key="open", where=ri.where)
    ok = any(("parser.get_token().value.upper() in cls._subclasses_by_sml", False) in c for c in conds)
    ctx.ob("C15.P1", ri.qualname, ok, "an unknown type name is refused" if ok else "an unknown type name is not refused with an exception", key="unknown-type", where=ri.where)
    rets = [n for n in cfg.real_nodes() if isinstance(n.ast, ast.Return)]
    ok = len(rets) == 1 and rules.expand(ri.node, rets[0].ast.value) == "cls._subclasses_by_sml[parser.get_token().value.upper()].from_sml(parser)"
    ctx.ob("C15.T2", ri.qualname, ok, "the reader dispatches on the upper-cased type name through the SML registry" if ok else "the item reader does not dispatch through _subclasses_by_sml[type.upper()]", key="dispatch", where=ri.where)


def check_alphabet(ctx):
    repo = ctx.repo
    delims = repo.const("SMLParser", "literal_delimiter")
    ws = repo.const("SMLParser", "whitespaces")
    ops = repo.const("SMLParser", "operators")
    w = repo.method("ItemStr", "to_sml", inherited=False)
    r = repo.method("ItemStr", "_read_sml_token", inherited=False)
    ctx.touch(w)
    ctx.touch(r)
    # the quote the writer opens runs with
    opens = {c.value.strip() for c in ast.walk(w.node) if isinstance(c, ast.Constant) and isinstance(c.value, str) and len(c.value.strip()) == 1 and c.value.strip() in delims}
    ctx.require(len(opens) == 1, f"{w.qualname}: cannot determine the quote character of printable runs ({opens})")
    quote = next(iter(opens))
    for cname in ("ItemStr", "ItemA", "ItemJ"):
        cls = repo.cls(cname)
        chars = fold_chars(repo, cls, "printable_chars")
        inside_closers = sorted(set(chars) & {quote})
        ok = not inside_closers
        ctx.ob("C15.T1", f"{cname}.printable_chars", ok, f"none of the {len(chars)} characters written inside a quoted run closes the run" if ok else
               f"the quote character {quote!r} is written inside quoted runs: the tokenizer ends the run there and the rest of the text is mis-tokenised", key="no-closer", where=cls.where)
        newline = sorted(set(chars) & set("\n\r"))
        ctx.ob("C15.T1", f"{cname}.printable_chars", not newline, "line breaks are written as escapes" if not newline else "line breaks are written inside quoted runs", key="no-newline", where=cls.where)
    chars = fold_chars(repo, repo.cls("ItemStr"), "printable_chars")
    # reader: recognises a run by the opening quote and strips a set disjoint from the run characters
    starts = [c for c in calls_in(r.node) if isinstance(c.func, ast.Attribute) and c.func.attr == "startswith"]
    strips = [c for c in calls_in(r.node) if isinstance(c.func, ast.Attribute) and c.func.attr in ("strip", "lstrip", "rstrip")]
    ok = len(starts) == 1 and isinstance(starts[0].args[0], ast.Constant) and starts[0].args[0].value == quote
    ctx.ob("C15.T1", r.qualname, ok, f"a token starting with {quote!r} is read as a quoted run" if ok else "quoted runs are not recognised by the quote the writer uses", key="recognise-run", where=r.where)
    for c in strips:
        try:
            sset = repo.fold(c.args[0], r.module, r.cls) if c.args else None
        except NotConst:
            d = dotted(c.args[0]) or ""
            sset = repo.const("SMLParser", d.split(".")[-1]) if d.startswith("parser.") and repo.has_const("SMLParser", d.split(".")[-1]) else None
        ctx.require(isinstance(sset, str), f"{r.qualname}: strip set `{norm(c)}` is not a constant")
        clash = sorted(set(sset) & set(chars))
        ok = quote in sset and not clash
        ctx.ob("C15.T1", r.qualname, ok, "unquoting strips only the quote, which never occurs inside a run" if ok else
               f"unquoting strips {sorted(set(sset))}; {clash} can be the first or last character of a run (they are printable): such text loses those characters when parsed back", key="strip-set", where=r.where)
    # escapes: byte value under the codec on both sides
    hexes = [c for c in calls_in(w.node) if call_name(c) == "hex"]
    ok = bool(hexes) and all(norm(c.args[0]) in ("output.encode(self._encoding)[0]", "char.encode(self._encoding)[0]") for c in hexes)
    ctx.ob("C15.T1", w.qualname, ok, "non-printable characters are written as the byte they encode to under the item's codec" if ok else
           f"escapes are written as {[norm(c.args[0]) for c in hexes]} (code points); the reader takes the number as the encoded byte, which differs for JIS-8", key="escape-write", where=w.where)
    rtext = " ".join(p.value or "" for p in _codec.paths_of(ctx, r))
    ok = "cls._char_coder(int(cls._verify_value_in_bounds(int(" in rtext and ".encode(cls._encoding)" in rtext
    ctx.ob("C15.T1", r.qualname, ok, "the reader turns escapes into single bytes and runs into bytes of the item's codec" if ok else "the reader does not rebuild the bytes from escapes and encoded runs", key="escape-read", where=r.where)
    for cname in ("ItemA", "ItemJ"):
        cc = repo.method(cname, "_char_coder", inherited=False)
        rets = [s for s in rules.func_stmts(cc.node) if isinstance(s, ast.Return)]
        ok = len(rets) == 1 and norm(rets[0].value) in ("bytes([char])", "char.to_bytes(1, 'big')", "char.to_bytes(1, 'little')")
        ctx.ob("C15.T1", cc.qualname, ok, "an escape n becomes the single byte n" if ok else f"_char_coder returns {norm(rets[0].value) if rets else None}", where=cc.where)
    # token boundaries: runs contain no character that would split them... inside a run the tokenizer copies every
    # character until the delimiter, so operators/whitespace are fine; outside runs the writer emits only hex numbers
    vv = repo.method("ItemStr", "validate_value", inherited=False)
    ok = any(isinstance(s, ast.Return) and norm(s.value) == "value.decode(self._encoding)" for s in rules.func_stmts(vv.node))
    ctx.ob("C15.T1", vv.qualname, ok, "parsed bytes are decoded with the item's codec" if ok else "bytes given to a text item are not decoded with its codec", where=vv.where)


def check_names_and_numbers(ctx):
    repo = ctx.repo
    names = {}
    for cls in repo.subclasses("Item"):
        t = cls.consts.get("_sml_type")
        if t is not None:
            v = repo.fold(t, cls.module, cls)
            if v:
                names[v] = cls.name
    want = {"L", "A", "J", "B", "BOOLEAN", "U1", "U2", "U4", "U8", "I1", "I2", "I4", "I8", "F4", "F8"}
    ok = set(names) == want
    ctx.ob("C15.T2", "Item subclasses", ok, "the 15 SML type names are exactly the E5 mnemonics" if ok else f"SML type names {sorted(names)} differ from {sorted(want)}", where="secsgem/secs")
    to = repo.method("Item", "to_sml", inherited=False)
    ok = "self._sml_type" in " ".join(norm(s) for s in rules.func_stmts(to.node))
    ctx.ob("C15.T2", to.qualname, ok, "items are written with their registered type name" if ok else "to_sml does not write _sml_type", where=to.where)
    # how each family writes and reads one number (f'{value}' / cls._type, hex / int(.., 0), '0x1'|'0x0' / int(.., 0)) is
    # decided by agreement with the reference models of _format_value and _read_sml_token (C15.M1)
    fs = repo.method("Item", "from_sml", inherited=False)
    txt = " ".join(norm(s) for s in rules.func_stmts(fs.node))
    ok = "cls(cls._read_items(sml, cls._read_sml_token))" in txt and "cls(cls._read_sml_token(sml))" in txt
    if not ok:
        from .. import refmodels

        ok = refmodels.agrees(ctx, "Item.from_sml")  # another spelling with the summary of the reviewed model
    ctx.ob("C15.T2", fs.qualname, ok, "lists are rebuilt from their parsed members, scalars from their parsed values" if ok else "from_sml does not rebuild items from the reader results", where=fs.where)
    ri = repo.method("Item", "_read_items", inherited=False)
    cfg = cfg_of(ri.node)
    raises = [n for n in cfg.real_nodes() if isinstance(n.ast, ast.Raise)]
    # the refusal stands under `int(<declared length token>.value) != <number of members read>`, whatever the locals are called
    declared = {t.id for st in rules.func_stmts(ri.node) if isinstance(st, ast.Assign) and isinstance(st.value, ast.Call) and (call_name(st.value) or "").endswith("._read_length")
                for t in st.targets if isinstance(t, ast.Name)}
    lists = {norm(c.func.value) for c in calls_in(ri.node) if isinstance(c.func, ast.Attribute) and c.func.attr == "append" and any(isinstance(w, ast.While) and any(x is c for x in ast.walk(w)) for w in ast.walk(ri.node))}
    counters = {norm(st.target) for w in ast.walk(ri.node) if isinstance(w, ast.While) for st in ast.walk(w) if isinstance(st, ast.AugAssign) and isinstance(st.op, ast.Add) and rules.literal(ri.node, st.value) == (True, 1)}

    def _is_declared(text):
        m = re.match(r"^int\((\w+)\.value\)$", text)
        return bool(m) and m.group(1) in declared

    def _is_count(text):
        m = re.match(r"^len\((.+)\)$", text)
        return (bool(m) and m.group(1) in lists) or text in counters

    ok = False
    for r in raises:
        for t, pol in cnd.facts(cfg, r, fn=ri.node) | cnd.facts(cfg, r):
            try:
                e = ast.parse(t, mode="eval").body
            except SyntaxError:
                continue
            if isinstance(e, ast.Compare) and len(e.ops) == 1 and ((isinstance(e.ops[0], ast.Eq) and not pol) or (isinstance(e.ops[0], ast.NotEq) and pol)):
                a, b = rules.expand(ri.node, e.left), rules.expand(ri.node, e.comparators[0])
                if (_is_declared(a) and _is_count(b)) or (_is_declared(b) and _is_count(a)):
                    ok = True
    ctx.ob("C15.P1", ri.qualname, ok, "a declared list length that differs from the number of members is refused" if ok else "a wrong declared list length is not refused", key="length-check", where=ri.where)
    lw = repo.method("ItemL", "to_sml", inherited=False)
    ok = "[{len(self._value)}]" in norm(lw.node) or "[{len(self)}]" in norm(lw.node)
    ctx.ob("C15.T2", lw.qualname, ok, "lists are written with their member count" if ok else "ItemL.to_sml does not write the member count", where=lw.where)


# --------------------------------------------------------------------------------------------- the text writer as a transducer
class _Unknown(Exception):
    pass


def _merge(pieces):
    out = []
    for p in pieces:
        if p[0] == "lit" and p[1] == "":
            continue
        if p[0] == "lit" and out and out[-1][0] == "lit":
            out[-1] = ("lit", out[-1][1] + p[1])
        else:
            out.append(p)
    return tuple(out)


class _Writer:
    """Abstract evaluation of the statements of ItemStr.to_sml over: booleans, text = tuple of pieces ("lit", s) | ("char",)
    | ("hex",), the current character (symbol), `char in self.printable_chars` = a given boolean."""

    def __init__(self, char_var, printable):
        self.char_var, self.printable = char_var, printable

    def ev(self, e, env):
        if isinstance(e, ast.Constant):
            if isinstance(e.value, bool):
                return e.value
            if isinstance(e.value, str):
                return (("lit", e.value),)
            raise _Unknown(norm(e))
        if isinstance(e, ast.Name):
            if e.id == self.char_var:
                return (("char",),)
            if e.id in env:
                return env[e.id]
            raise _Unknown(f"name {e.id}")
        if isinstance(e, ast.Compare) and len(e.ops) == 1 and isinstance(e.ops[0], (ast.In, ast.NotIn)) and norm(e.comparators[0]) == "self.printable_chars" and self.ev(e.left, env) == (("char",),):
            return self.printable if isinstance(e.ops[0], ast.In) else not self.printable
        if isinstance(e, ast.UnaryOp) and isinstance(e.op, ast.Not):
            v = self.ev(e.operand, env)
            if isinstance(v, bool):
                return not v
            raise _Unknown(norm(e))
        if isinstance(e, ast.BoolOp):
            vals = [self.ev(v, env) for v in e.values]
            if all(isinstance(v, bool) for v in vals):
                return all(vals) if isinstance(e.op, ast.And) else any(vals)
            raise _Unknown(norm(e))
        if isinstance(e, ast.IfExp):
            t = self.ev(e.test, env)
            if not isinstance(t, bool):
                raise _Unknown(norm(e.test))
            return self.ev(e.body if t else e.orelse, env)
        if isinstance(e, ast.BinOp) and isinstance(e.op, ast.Add):
            a, b = self.ev(e.left, env), self.ev(e.right, env)
            if isinstance(a, tuple) and isinstance(b, tuple):
                return _merge(a + b)
            raise _Unknown(norm(e))
        if isinstance(e, ast.JoinedStr):
            out = ()
            for v in e.values:
                if isinstance(v, ast.Constant):
                    out += (("lit", str(v.value)),)
                elif isinstance(v, ast.FormattedValue) and v.conversion == -1 and v.format_spec is None:
                    x = self.ev(v.value, env)
                    if not isinstance(x, tuple):
                        raise _Unknown(norm(e))
                    out += x
                else:
                    raise _Unknown(norm(e))
            return _merge(out)
        if isinstance(e, ast.Call) and call_name(e) == "hex" and len(e.args) == 1:
            a = e.args[0]
            # hex(<char>.encode(self._encoding)[0]): the code of the character in the item's own codec
            if (isinstance(a, ast.Subscript) and norm(a.slice) == "0" and isinstance(a.value, ast.Call) and isinstance(a.value.func, ast.Attribute) and a.value.func.attr == "encode"
                    and [norm(x) for x in a.value.args] == ["self._encoding"] and self.ev(a.value.func.value, env) == (("char",),)):
                return (("hex",),)
            if isinstance(a, ast.Call) and call_name(a) == "ord" and len(a.args) == 1 and self.ev(a.args[0], env) == (("char",),):
                return (("code point instead of the byte of the item's codec",),)
            raise _Unknown(norm(e))
        raise _Unknown(norm(e))

    def run(self, stmts, env):
        for st in stmts:
            if isinstance(st, ast.Assign) and len(st.targets) == 1 and isinstance(st.targets[0], ast.Name):
                env[st.targets[0].id] = self.ev(st.value, env)
            elif isinstance(st, ast.AugAssign) and isinstance(st.op, ast.Add) and isinstance(st.target, ast.Name):
                cur, add = env.get(st.target.id), self.ev(st.value, env)
                if not (isinstance(cur, tuple) and isinstance(add, tuple)):
                    raise _Unknown(norm(st))
                env[st.target.id] = _merge(cur + add)
            elif isinstance(st, ast.If):
                t = self.ev(st.test, env)
                if not isinstance(t, bool):
                    raise _Unknown(norm(st.test))
                self.run(st.body if t else st.orelse, env)
            elif isinstance(st, (ast.Pass,)) or (isinstance(st, ast.Expr) and isinstance(st.value, ast.Constant)):
                continue
            else:
                raise _Unknown(norm(st)[:60])
        return env


REF_WRITER = {  # (inside quotes?, printable?) -> (text written, inside quotes afterwards)
    (False, True): ((("lit", ' "'), ("char",)), True),
    (True, True): ((("char",),), True),
    (True, False): ((("lit", '" '), ("hex",)), False),
    (False, False): ((("lit", " "), ("hex",)), False),
}


def check_text_writer(ctx):
    """ItemStr.to_sml, read as a transducer over (state, is the character printable?), is equivalent to the reference:
    printable characters inside one pair of quotes, every other character as the hexadecimal code of its byte outside
    quotes, the quote closed at the end.  Equivalence is decided on the product of the two automata (the implementation's
    state = its loop-carried booleans), so flags may be renamed, merged with conditional expressions or computed from
    the class test."""
    repo = ctx.repo
    f = repo.method("ItemStr", "to_sml", inherited=False)
    ctx.touch(f)
    q = f.qualname
    fn = normal.normalised(ctx, f, aliases=False, comps=False, ifexp=False)
    body = [s for s in fn.body if not (isinstance(s, ast.Expr) and isinstance(s.value, ast.Constant))]
    loops = [s for s in body if isinstance(s, ast.For)]
    # a numeric escape `hex(<text>.encode(codec)[0])` writes ONE byte: the text it is taken from must be one character of
    # the value (the target of a loop over the value itself, or a plain copy of it), not a run of characters
    chars = {lp.target.id for lp in ast.walk(fn) if isinstance(lp, ast.For) and isinstance(lp.target, ast.Name) and norm(lp.iter) == "self._value"}
    for _ in range(3):
        chars |= {t.id for st in ast.walk(fn) if isinstance(st, ast.Assign) and isinstance(st.value, ast.Name) and st.value.id in chars for t in st.targets if isinstance(t, ast.Name)}
    for c in calls_in(fn):
        if call_name(c) == "hex" and len(c.args) == 1 and isinstance(c.args[0], ast.Subscript) and isinstance(c.args[0].value, ast.Call) and isinstance(c.args[0].value.func, ast.Attribute) \
                and c.args[0].value.func.attr == "encode" and isinstance(c.args[0].value.func.value, ast.Name):
            src = c.args[0].value.func.value.id
            ok = src in chars
            ctx.ob("C15.T1", q, ok, "a numeric escape is the byte of one character of the value" if ok else
                   f"`{norm(c)}` writes one byte of `{src}`, which is not a single character of the value (a run of characters): every further character of a run of non-printable characters is dropped from the text, the reader rebuilds a shorter value",
                   key="escape-per-character", where=f.where)
    ctx.require(len(loops) == 1 and isinstance(loops[0].target, ast.Name) and norm(loops[0].iter) == "self._value" and not loops[0].orelse, f"{q}: the loop over the characters of the value was not found")
    loop = loops[0]
    i = body.index(loop)
    pre, post = body[:i], body[i + 1:]
    rets = [s for s in post if isinstance(s, ast.Return)]
    ctx.require(len(rets) == 1 and post[-1] is rets[0], f"{q}: expected one return after the loop")
    try:
        init = _Writer(loop.target.id, True).run(pre, {})
    except _Unknown as exc:
        raise AnalysisError(f"{q}: initialisation `{exc}` is outside the writer idioms") from exc
    carried = sorted(k for k, v in init.items())

    def key(env):
        return tuple((k, env[k]) for k in carried if isinstance(env.get(k), bool))

    def texts(env):
        return {k: env[k] for k in carried if isinstance(env.get(k), tuple)}

    seen, work, problems, pairs = {}, [(dict(init), False)], [], 0
    try:
        while work:
            env, ref_state = work.pop()
            k = key(env)
            if k in seen:
                if seen[k] != ref_state:
                    problems.append(f"the same writer state {dict(k)} stands for both `inside quotes` and `outside quotes`")
                continue
            seen[k] = ref_state
            for printable in (True, False):
                start = {n: (v if isinstance(v, bool) else ()) for n, v in env.items()}
                after = _Writer(loop.target.id, printable).run(loop.body, dict(start))
                written = [v for n, v in texts(after).items() if v]
                want_text, want_state = REF_WRITER[(ref_state, printable)]
                pairs += 1
                if len(written) != 1 or written[0] != want_text:
                    problems.append(f"{'inside' if ref_state else 'outside'} quotes, {'printable' if printable else 'other'} character: writes {written}, the format needs {want_text}")
                nxt = {n: (v if isinstance(v, bool) else ()) for n, v in after.items() if n in carried}
                work.append((nxt, want_state))
            # the end of the text
            fin = _Writer(loop.target.id, True).run(post[:-1], {n: (v if isinstance(v, bool) else ()) for n, v in env.items()})
            closing = [v for n, v in texts(fin).items() if v]
            want = [(("lit", '"'),)] if ref_state else []
            if closing != want:
                problems.append(f"at the end {'inside' if ref_state else 'outside'} quotes: writes {closing}, the format needs {want}")
    except _Unknown as exc:
        raise AnalysisError(f"{q}: `{exc}` is outside the writer idioms") from exc
    ok = not problems
    ctx.ob("C15.T1", q, ok, f"the text writer is equivalent to the reference quoting transducer ({pairs} state/class pairs)" if ok else
           f"the text writer deviates from the SML text format: {problems[0]}", key="writer-transducer", where=f.where)
    # what is returned: indentation, '< ', type name, the text, '>'
    acc = [k for k in carried if isinstance(init[k], tuple)]
    tpl = rules.text_template(rets[0].value) if rets[0].value is not None else None
    ok = len(acc) == 1 and tpl == [("fmt", "indent * ' '", ""), ("lit", "< "), ("fmt", "self._sml_type", ""), ("fmt", acc[0], ""), ("lit", ">")]
    ctx.ob("C15.T1", q, ok, "the item is written as `< TYPE text>`" if ok else f"the item text is assembled as {tpl}", key="writer-frame", where=f.where)


def check_reader_bounds(ctx):
    """C15.T3: every number a writer can emit lies within the bounds the reader enforces (`_read_sml_token` refuses what
    is outside [_minimum_value, _maximum_value]): numeric widths read exactly their representable range and write with
    the family's formatter (no per-width override), character codes of A/J text and B bytes read 0..0xFF, booleans 0..1."""
    from . import _items, c14

    n = _items.check_numeric_table(ctx, "C15.T3", c14.ITEM_NUMERIC, c14.ITEM_ATTRS)
    ctx.floor("numeric item classes", n, 10)
    repo = ctx.repo
    m = 0
    for cname, lo, hi, what in (("ItemStr", 0, 0xFF, "character codes"), ("ItemA", 0, 0xFF, "character codes"), ("ItemJ", 0, 0xFF, "character codes"),
                                ("ItemB", 0, 0xFF, "byte values"), ("ItemBOOLEAN", 0, 1, "truth values")):
        cls = repo.cls(cname)
        ctx.touch(cls)
        mn, mx = repo.const(cls, "_minimum_value"), repo.const(cls, "_maximum_value")
        ok = (mn, mx) == (lo, hi)
        m += 1
        ctx.ob("C15.T3", cname, ok, f"{cname}: the reader accepts {what} {lo}..{hi}, all the writer emits" if ok else
               f"{cname}: the reader accepts {what} [{mn!r}, {mx!r}] but the writer emits every value in [{lo}, {hi}]: text the library wrote itself is refused when parsed back",
               key="reader-range", where=cls.where)
    ctx.floor("text/binary/boolean reader ranges", m, 5)
    users = [f for f in repo.functions if f.cls is not None and f.cls.name.startswith("Item") and "_minimum_value" in norm(f.node) and "_maximum_value" in norm(f.node) and any(isinstance(x, ast.Compare) for x in ast.walk(f.node))]
    ctx.require(users, "no bounds test on _minimum_value/_maximum_value in the Item classes: the reader's range rule has lost its anchor")
    for f in users:
        ctx.touch(f)


def check_list_members(ctx):
    """The list reader builds every member through Item.from_value: an empty member (`< A>`, `< L >`) must come back as an
    item, not be taken for "no item" by a truthiness test (rule shared with C14.P2)."""
    from . import c14

    sub = type(ctx)(ctx.prop, ctx.tier, ctx.seed, ctx.repo)
    c14.check_from_value(sub)
    kept = [o for o in sub.obligations if o["key"] in ("identity-return", "dispatch", "bool-before-int")]
    ctx.require(len(kept) == 3, "C15.T4: the from_value obligations were not produced")
    for o in kept:
        o = dict(o)
        o["rule"] = "C15.T4"
        ctx.obligations.append(o)
    for kind in ("files", "functions"):
        ctx.analysed[kind] |= sub.analysed[kind]


def run(ctx):
    check_reader_bounds(ctx)
    check_list_members(ctx)
    check_text_writer(ctx)
    check_tokenizer(ctx)
    check_readers(ctx)
    check_alphabet(ctx)
    check_names_and_numbers(ctx)
