"""C17 - the SECS-I line protocol delivers accepted messages intact, once, and NAKs bad blocks."""

from __future__ import annotations

import ast
import json
import os
import struct

from ..cfg import cfg_of
from ..model import AnalysisError, call_name, calls_in, dotted, norm
from .. import inline, normal, rules
from .. import conds as cnd
from ._dispatch import check_dispatcher
from .c09 import check_bytequeue_wait
from .c10 import check_send_message, check_block_send_info

REF = os.path.join(os.path.dirname(os.path.dirname(__file__)), "reference", "e4.json")

META = {
    "explanation": "Path rules on the two SECS-I line loops (necessary conditions of the stated behaviour): handshake code table, "
    "receive side - EOT before the block is awaited, a blocking read of exactly length byte + 3 bytes (chunk independent), "
    "delivery dominated by a successful decode, NAK without delivery or ACK on a failed decode, exactly one queue_block then "
    "ACK on success; send side - ENQ before every block, a handshake byte awaited before the block goes out, exactly one "
    "resolve per block whose value is `response == ACK`; plus the chunk-independence discipline of ByteQueue, the wake-up "
    "discipline of the dispatcher, and send_message stopping at the first failed block.",
    "decides": [
        "C17.T1 ENQ/EOT/ACK/NAK = 0x05/0x04/0x06/0x15",
        "C17.P1 receive loop: EOT precedes the block read; the read waits for length byte + 1 + checksum bytes; queue_block only after decode returned a block; NAK branch delivers nothing and sends no ACK; success branch queues once then ACKs",
        "C17.P2 send loop: ENQ precedes the block, a response byte is awaited before the block is written, one resolve(response == ACK) per dequeued block; the host yields on ENQ contention",
        "C17.P3 send_message stops after the first block that was not acknowledged (no further block of a NAKed message is sent) and reports False",
        "C17.W1 ByteQueue waits re-check their size predicate (any chunking of the line bytes), dispatcher wake-ups are not lost (an acknowledged block is delivered)",
        "C17.S1 the header is laid out and read back bit by bit (shared with C16.B1); a message is complete exactly with the block carrying the end bit, header and completeness read from the last block (shared with C16.P3)",
    ],
    "does_not_decide": ["interleavings of the two line threads", "T1-T4 timers and retries (not implemented by the library)", "ENQ contention beyond the host's yield"],
    "assumptions": ["only one side transmits at a time (as the property states)"],
}


def _ref():
    with open(REF, encoding="utf-8") as handle:
        return json.load(handle)


def _sends(cfg, code):
    """Nodes that send the single handshake byte `self.<code>`."""
    return [n for n in cfg.real_nodes() if any(call_name(c) == "self._connection.send_data" and c.args and norm(c.args[0]) == f"bytes([self.{code}])" for c in n.calls)]


def check_codes(ctx):
    repo = ctx.repo
    ref = _ref()
    cls = repo.cls("SecsIProtocol")
    got = {k: repo.const(cls, k) for k in ref["codes"]}
    ok = got == ref["codes"]
    ctx.ob("C17.T1", "SecsIProtocol", ok, "handshake codes ENQ 0x05, EOT 0x04, ACK 0x06, NAK 0x15" if ok else f"handshake codes {got} differ from E4 {ref['codes']}", where=cls.where)


def _is_peek(call, position) -> bool:
    """peek=True, as a keyword or as the positional argument at `position` (ByteQueue.wait_for(size, peek) / wait_for_byte(peek))."""
    for k in call.keywords:
        if k.arg == "peek":
            return isinstance(k.value, ast.Constant) and k.value.value is True
    return len(call.args) > position and isinstance(call.args[position], ast.Constant) and call.args[position].value is True


def check_receive(ctx):
    repo = ctx.repo
    f = repo.method("SecsIProtocol", "_process_received_data", inherited=False)
    ctx.touch(f)
    q = f.qualname
    cfg = cfg_of(f.node)
    heads = [n for n in cfg.nodes if n.kind == "test" and n.label == "while"]
    ctx.require(len(heads) == 1, f"{q}: receive loop not found")
    H = heads[0]
    eot, ack, nak = _sends(cfg, "EOT"), _sends(cfg, "ACK"), _sends(cfg, "NAK")
    reads = [(n, c) for n in cfg.real_nodes() for c in n.calls if call_name(c) == "self._receive_buffer.wait_for"]
    ok = len(eot) == 1 and len(reads) == 1 and cfg.dominates(eot[0], reads[0][0])
    ctx.ob("C17.P1", q, ok, "EOT is sent before the block is awaited" if ok else "the block is awaited without a preceding EOT (the sender never starts)", key="eot-first", where=f.where)
    if reads:
        rn, rc = reads[0]
        lenvars = {t.id for n in cfg.real_nodes() if isinstance(n.ast, ast.Assign) and any(call_name(c) == "self._receive_buffer.wait_for_byte" and _is_peek(c, 0) for c in n.calls) for t in n.ast.targets if isinstance(t, ast.Name)}
        extra = 1 + struct.calcsize(">" + repo.const("SecsIBlock", "checksum_format"))
        a = rc.args[0] if rc.args else None
        if isinstance(a, ast.Name):
            a = rules.expand_ast(cfg.func, a, depth=1)  # the size given a name first
        ok = isinstance(a, ast.BinOp) and isinstance(a.op, ast.Add) and ((norm(a.left) in lenvars and isinstance(a.right, ast.Constant) and a.right.value == extra) or (norm(a.right) in lenvars and isinstance(a.left, ast.Constant) and a.left.value == extra))
        ctx.ob("C17.P1", q, ok, f"the block read waits for length byte + {extra} bytes (length byte itself + checksum), however the line chunks them" if ok else
               f"the block read takes `{norm(a) if a is not None else None}` bytes; a block is its length byte value + {extra} bytes (length byte + 2 checksum bytes): the cursor drifts", key="block-size", where=f.where)
        ok = not _is_peek(rc, 1)
        ctx.ob("C17.P1", q, ok, "the block bytes are consumed" if ok else "the block is only peeked: it is read again as the next block", key="consumes", where=f.where)
        ok = bool(lenvars)
        ctx.ob("C17.P1", q, ok, "the length byte is looked at without consuming it (it belongs to the block)" if ok else "the length byte is consumed before the block read (the block starts one byte late)", key="length-peek", where=f.where)
    dec = [n for n in cfg.real_nodes() if any(call_name(c) == "SecsIBlock.decode" for c in n.calls)]
    qb = [n for n in cfg.real_nodes() if any(call_name(c) == "self._thread.queue_block" for c in n.calls)]
    ctx.require(len(dec) == 1 and isinstance(dec[0].ast, ast.Assign), f"{q}: `response = SecsIBlock.decode(data)` not found")
    rv = dec[0].ast.targets[0].id
    nones = [n for n in cfg.nodes if n.kind == "test" and norm(n.ast) in (f"{rv} is None", f"{rv} is not None", f"not {rv}")]
    ok = len(nones) == 1
    ctx.ob("C17.P1", q, ok, "the decode result is tested for None (checksum failure)" if ok else "the result of SecsIBlock.decode is not tested for None", key="none-test", where=f.where)
    if ok:
        T = nones[0]
        bad_label = "false" if norm(T.ast) == f"{rv} is not None" else "true"
        badm = rules.branch_marker(T, bad_label)
        goodm = rules.branch_marker(T, "true" if bad_label == "false" else "false")
        ok1 = all(cfg.dominates(goodm, n) for n in qb) and len(qb) == 1
        ctx.ob("C17.P1", q, ok1, "a block is delivered only after it decoded with a matching checksum" if ok1 else "queue_block is reachable for a block whose checksum failed (or is missing)", key="deliver-guard", where=f.where)
        leak = [n for n in qb + ack if cfg.path_exists(badm, n, avoid=[H])]
        ok2 = not leak and any(cfg.dominates(badm, n) for n in nak)
        ctx.ob("C17.P1", q, ok2, "a bad block is answered with NAK and is neither delivered nor ACKed" if ok2 else
               ("the bad-block branch can still deliver/ACK: " + leak[0].text() if leak else "the bad-block branch does not send NAK"), key="nak-branch", where=f.where)
        cnt_q = cfg.count_on_paths(lambda n: n in qb, goodm, [H, cfg.exit], no_exc=True)
        cnt_a = cfg.count_on_paths(lambda n: n in ack, goodm, [H, cfg.exit], no_exc=True)
        ok3 = bool(cnt_q) and all(v == (1, 1) for v in cnt_q.values()) and all(v == (1, 1) for v in cnt_a.values()) and bool(qb) and bool(ack) and cfg.dominates(qb[0], ack[0])
        ctx.ob("C17.P1", q, ok3, "a good block is queued exactly once and then ACKed" if ok3 else f"good-block branch: queue_block {cnt_q}, ACK {cnt_a} (must be one each, queue before ACK)", key="ack-branch", where=f.where)
        nak_leak = [n for n in nak if cfg.path_exists(goodm, n, avoid=[H])]
        ctx.ob("C17.P1", q, not nak_leak, "a good block is never NAKed" if not nak_leak else "the good-block branch sends NAK", key="no-nak-on-good", where=f.where)
    if qb and dec:
        c = next(c for c in qb[0].calls if call_name(c) == "self._thread.queue_block")
        ok = len(c.args) == 2 and norm(c.args[1]) == rv
        ctx.ob("C17.P1", q, ok, "the decoded block is what is delivered" if ok else f"`{norm(c)}` does not deliver the decoded block", key="delivers-decoded", where=f.where)
        dc = next(c for c in dec[0].calls if call_name(c) == "SecsIBlock.decode")
        rvars = {t.id for t in rules.assigned_targets(reads[0][0].ast) if isinstance(t, ast.Name)} if reads and isinstance(reads[0][0].ast, ast.Assign) else set()
        ok = norm(dc.args[0]) in rvars or any(dc.args[0] is r[1] for r in reads if len(r) > 1)  # read into a local, or decoded as they are read
        ctx.ob("C17.P1", q, ok, "the bytes just read are what is decoded" if ok else "the decoded bytes are not the block just read", key="decodes-read", where=f.where)


def check_send(ctx):
    repo = ctx.repo
    f = repo.method("SecsIProtocol", "_process_send_queue", inherited=False)
    ctx.touch(f)
    q = f.qualname
    sfn = inline._copy_node(inline.expanded(ctx, f, keep={"_process_received_data"}))
    normal._bool_argument_pass(sfn)  # `if r == ACK: resolve(True) else: resolve(False)` is `resolve(r == ACK)`
    cfg = cfg_of(sfn)
    heads = [n for n in cfg.nodes if n.kind == "test" and n.label == "while"]
    ctx.require(len(heads) == 1, f"{q}: send loop not found")
    H = heads[0]
    enq = _sends(cfg, "ENQ")
    blocks = [n for n in cfg.real_nodes() if any(call_name(c) == "self._connection.send_data" and c.args and norm(c.args[0]).endswith(".data") for c in n.calls)]
    ok = len(enq) == 1 and len(blocks) == 1 and cfg.dominates(enq[0], blocks[0]) and not cfg.path_exists(blocks[0], blocks[0], avoid=enq)
    ctx.ob("C17.P2", q, ok, "every block is announced by its own ENQ" if ok else "a block can be written without a preceding ENQ of its own", key="enq-first", where=f.where)
    waits = [n for n in cfg.real_nodes() if any(call_name(c) in ("self._receive_buffer.wait_for_byte", "self._receive_buffer.pop_byte") for c in n.calls)]
    between = [w for w in waits if enq and blocks and cfg.dominates(enq[0], w) and cfg.dominates(w, blocks[0])]
    ok = bool(between)
    ctx.ob("C17.P2", q, ok, "the peer's handshake byte (EOT) is awaited between ENQ and the block" if ok else "the block is written right after ENQ without waiting for the peer's EOT", key="await-eot", where=f.where)
    gets = [n for n in cfg.real_nodes() if any(call_name(c) == "self._send_queue.get" for c in n.calls)]
    res = [(n, c) for n in cfg.real_nodes() for c in n.calls if (call_name(c) or "").endswith(".resolve")]
    ok = len(gets) == 1 and len(res) == 1
    if ok:
        cnt = cfg.count_on_paths(lambda n: n is res[0][0], gets[0], [H, cfg.exit], no_exc=True)
        ok = all(v == (1, 1) for v in cnt.values()) and bool(cnt)
    ctx.ob("C17.P2", q, ok, "every dequeued block is resolved exactly once" if ok else "a dequeued block is not resolved exactly once (its sender waits for ever or is answered twice)", key="one-resolve", where=f.where)
    if res:
        n, c = res[0]
        rvars = {t.id for w in waits if blocks and cfg.dominates(blocks[0], w) and isinstance(w.ast, ast.Assign) for t in w.ast.targets if isinstance(t, ast.Name)}
        a = c.args[0] if c.args else None
        if isinstance(a, ast.Name):
            a = rules.expand_ast(cfg.func, a, depth=1)  # the comparison given a name first
        ok = isinstance(a, ast.Compare) and len(a.ops) == 1 and isinstance(a.ops[0], ast.Eq) and {norm(a.left), norm(a.comparators[0])} & rvars and "self.ACK" in (norm(a.left), norm(a.comparators[0]))
        ctx.ob("C17.P2", q, bool(ok), "the send succeeds iff the byte received after the block is ACK (NAK => failure)" if ok else f"`{norm(c)}` does not resolve with `response == ACK`: a NAKed block is reported as sent", key="resolve-value", where=f.where)
        gv = {t.id for t in rules.assigned_targets(gets[0].ast) if isinstance(t, ast.Name)} if gets and isinstance(gets[0].ast, ast.Assign) else set()
        ok = norm(c.func.value) in gv and blocks and any(norm(k.args[0]) == f"{next(iter(gv), '')}.data" for k in blocks[0].calls if call_name(k) == "self._connection.send_data")
        ctx.ob("C17.P2", q, bool(ok), "the dequeued block is the one written and resolved" if ok else "the block written / resolved is not the dequeued one", key="same-block", where=f.where)
    # contention: host yields
    yields = [n for n in cfg.real_nodes() if any(call_name(c) == "self._process_received_data" for c in n.calls)]
    ok = len(yields) == 1
    if ok:
        conds = [t for t, pol in cnd.facts(cfg, yields[0]) if pol]
        ok = (any("self.ENQ" in c for c in conds) and any("DeviceType.HOST" in c for c in conds) and not cfg.path_exists(yields[0], blocks[0], avoid=enq)) if blocks else False
    ctx.ob("C17.P2", q, ok, "on ENQ contention the host yields and receives first" if ok else "the host does not yield on ENQ contention", key="contention", where=f.where)
    sd = repo.method("SerialConnection", "send_data", inherited=False)
    names = [call_name(c) for c in calls_in(sd.node)]
    rets = [s for s in rules.func_stmts(sd.node) if isinstance(s, ast.Return)]
    ok = "self._port.write" in names and len(rets) == 1 and norm(rets[0].value) == "True" and any(call_name(c) == "self._port.write" and norm(c.args[0]) == sd.node.args.args[1].arg for c in calls_in(sd.node))
    ctx.ob("C17.P2", sd.qualname, ok, "the serial connection writes the given bytes" if ok else "SerialConnection.send_data does not write its argument", where=sd.where)


def check_send_stops(ctx):
    repo = ctx.repo
    f = repo.method("Protocol", "send_message", inherited=False)
    ctx.touch(f)
    fn = normal.normalised(ctx, f, aliases=False, comps=False, ifexp=False)
    cfg = cfg_of(fn)
    puts = [n for n in cfg.real_nodes() if any((call_name(c) or "").endswith("_send_queue.put") for c in n.calls)]
    waits = [c for c in calls_in(fn) if (call_name(c) or "").endswith(".wait")]
    ok = len(puts) == 1 and len(waits) == 1
    if ok:
        tests = rules.truthiness_tests(cfg, fn, waits[0])
        ok = bool(tests)
        if ok:
            tnode, falsy = tests[0]
            fail = rules.branch_marker(tnode, falsy)
            again = cfg.path_exists(puts[0], puts[0], avoid=[tnode])
            after_fail = cfg.path_exists(fail, puts[0])
            ok = not again and not after_fail
    ctx.ob("C17.P3", f.qualname, ok, "a block is queued only after the previous one was acknowledged; after a failed block nothing more is sent" if ok else
           "blocks are queued without waiting for the previous block's result (or after a failure): the remaining blocks of a NAKed message still go out and the peer assembles a truncated message", key="stop-at-failure", where=f.where)


def run(ctx):
    check_codes(ctx)
    check_receive(ctx)
    check_send(ctx)
    check_send_stops(ctx)
    sub = type(ctx)(ctx.prop, ctx.tier, ctx.seed, ctx.repo)
    from .. import refmodels

    refmodels.guarded(sub, "C17.P3", ["Protocol.send_message"], check_send_message)
    check_block_send_info(sub)
    for o in sub.obligations:
        o = dict(o)
        o["rule"] = "C17.P3"
        ctx.obligations.append(o)
    from .. import report
    from .c06 import check_counter

    report.share(ctx, "C17.P3", check_counter)  # two senders never use the same system bytes (the peer assembles blocks by them)
    from .c08 import check_stale_registrations

    report.share(ctx, "C17.P3", check_stale_registrations)  # a late reply is delivered, not swallowed by the queue of a request that gave up
    # "arrives complete and unaltered with an identical header": the ten header bytes are laid out and read back bit by bit
    # (C16.B1) and a message is complete exactly with the block that carries the end bit (C16.P3)
    from .c16 import check_header, check_reassembly

    report.share(ctx, "C17.S1", check_header)
    report.share(ctx, "C17.S1", check_reassembly)
    check_bytequeue_wait(ctx, "C17.W1")
    from .c04 import check_byte_queue

    check_byte_queue(ctx, "C17.W1")
    check_dispatcher(ctx, "C17.W1", wakeups=True, consumers=True, reconnect=False)
