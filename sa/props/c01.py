"""C01 - SECS-II values round-trip and are encoded exactly as SEMI E5 prescribes (variables API)."""

from __future__ import annotations

import ast
import struct

from ..cfg import cfg_of
from ..model import AnalysisError, call_name, calls_in, dotted, norm, walk_no_nested
from .. import rules
from . import _items

NUMERIC = {"U1": "U1", "U2": "U2", "U4": "U4", "U8": "U8", "I1": "I1", "I2": "I2", "I4": "I4", "I8": "I8", "F4": "F4", "F8": "F8"}
OTHERS = {"L": "List", "B": "Binary", "BOOLEAN": "Boolean", "A": "String", "J": "JIS8"}
VAR_ATTRS = {"code": "format_code", "bytes": "_bytes", "struct": "_struct_code", "min": "_min", "max": "_max"}

META = {
    "explanation": "Bit-provenance evaluation of Base.encode_item_header / decode_item_header over the whole length range "
    "(interval partition at the code's own comparison constants; every output bit is a constant or a named bit of the "
    "length / format code, so the E5 header layout, no-truncation, minimal form and decode-after-encode identity hold for "
    "ALL lengths), the numeric type table against E5 and the exact ranges of the struct codes, shape rules on the "
    "encode/decode pairs of numbers, text, binary, boolean, array and list (element width, byte order, cursor "
    "arithmetic, element order, value stored on every path), and a constant-folded check of the JIS-8 codec tables.",
    "decides": [
        "C01.B1 item header encode: format byte, big-endian length bytes, no truncation, minimal form for every length 0..16777215; refusal outside",
        "C01.B2 item header decode: n = low 2 bits, code = high 6 bits, length = big-endian of next n bytes, cursor = start+1+n; decode(encode) = identity; fixed-type check",
        "C01.T1 numeric classes: E5 format code, struct code size/signedness, [_min,_max] = exact representable range",
        "C01.P1 numeric encode/decode: big-endian struct format from the same code, header length = count * width, decode reads length // width slices of that width and advances by it",
        "C01.T2 text: single-byte codecs; JIS-8 decoding table is total and injective on 0..255, matches JIS X 0201, and the encoding table is exactly its inverse",
        "C01.P2 boolean/binary: one byte per element, non-zero decodes to True, cursor advances by the length",
        "C01.P3 array/list: header carries the element count, elements are encoded in order, decode threads the cursor through the children",
        "C01.P4 every normal path of every decode stores the decoded value",
        "C01.T3 format codes pairwise distinct and equal to E5",
        "C01.T4 a Dynamic decodes every concrete item class it can hold (format-code table complete, decoding restarts at the item start)",
    ],
    "does_not_decide": ["equality of get() with the Python value for floats (binary32 rounding is runtime numerics)", "what set() accepts for exotic inputs (str->int conversion etc.)"],
    "assumptions": ["struct.pack/unpack follow IEEE 754 / two's complement big-endian for '>' formats (stdlib)"],
}


def check_numeric_shapes(ctx):
    repo = ctx.repo
    enc = repo.method("BaseNumber", "encode", inherited=False)
    dec = repo.method("BaseNumber", "decode", inherited=False)
    ctx.touch(enc)
    ctx.touch(dec)
    # encode
    hdr = [c for c in calls_in(enc.node) if call_name(c) == "self.encode_item_header"]
    ok = len(hdr) == 1 and norm(hdr[0].args[0]) in ("len(self.value) * self._bytes", "self._bytes * len(self.value)")
    ctx.ob("C01.P1", enc.qualname, ok, "the header length is element count * element width" if ok else f"header length is `{norm(hdr[0].args[0]) if hdr else None}`, not len(value) * _bytes", key="header-length", where=enc.where)
    packs = [c for c in calls_in(enc.node) if call_name(c) == "struct.pack"]
    ok = len(packs) == 1 and norm(packs[0].args[0]) == "f'>{self._struct_code}'"
    ctx.ob("C01.P1", enc.qualname, ok, "each element is packed big-endian with the class's struct code" if ok else f"elements are packed with `{norm(packs[0].args[0]) if packs else None}` (E5: most significant byte first, the class's own code)", key="pack-format", where=enc.where)
    fors = [s for s in rules.func_stmts(enc.node) if isinstance(s, ast.For)]
    ok = len(fors) == 1 and norm(fors[0].iter) == "self.value" and packs and norm(packs[0].args[1]) == fors[0].target.id
    ctx.ob("C01.P1", enc.qualname, ok, "elements are emitted in value order, each exactly once" if ok else "elements are not packed one by one in value order", key="order", where=enc.where)
    # decode
    cfg = cfg_of(dec.node)
    unp = [c for c in calls_in(dec.node) if call_name(c) == "struct.unpack"]
    ok = len(unp) == 1 and norm(unp[0].args[0]) == "f'>{self._struct_code}'"
    ctx.ob("C01.P1", dec.qualname, ok, "each element is unpacked big-endian with the same struct code" if ok else f"elements are unpacked with `{norm(unp[0].args[0]) if unp else None}`", key="unpack-format", where=dec.where)
    fors = [s for s in rules.func_stmts(dec.node) if isinstance(s, ast.For)]
    ok = len(fors) == 1 and norm(fors[0].iter) == "range(length // self._bytes)"
    ctx.ob("C01.P1", dec.qualname, ok, "the element count is length // element width" if ok else f"decode iterates `{norm(fors[0].iter) if fors else None}`", key="count", where=dec.where)
    slices = [n for n in walk_no_nested(dec.node) if isinstance(n, ast.Subscript) and isinstance(n.slice, ast.Slice) and norm(n.value) == dec.node.args.args[1].arg]
    ok = len(slices) == 1 and norm(slices[0].slice.lower) == "text_pos" and norm(slices[0].slice.upper) == "text_pos + self._bytes"
    ctx.ob("C01.P1", dec.qualname, ok, "each element is the next _bytes bytes at the cursor" if ok else "element slices are not data[cursor : cursor + _bytes]", key="slice", where=dec.where)
    adv = [s for s in rules.func_stmts(dec.node) if isinstance(s, ast.AugAssign) and norm(s.target) == "text_pos"]
    ok = len(adv) == 1 and isinstance(adv[0].op, ast.Add) and norm(adv[0].value) == "self._bytes"
    ctx.ob("C01.P1", dec.qualname, ok, "the cursor advances by one element width per element" if ok else "the cursor does not advance by _bytes per element", key="advance", where=dec.where)
    rets = [s for s in rules.func_stmts(dec.node) if isinstance(s, ast.Return)]
    ok = len(rets) == 1 and norm(rets[0].value) == "text_pos"
    ctx.ob("C01.P1", dec.qualname, ok, "decode returns the cursor after the last element" if ok else f"decode returns `{norm(rets[0].value) if rets else None}`", key="returns-cursor", where=dec.where)
    short = [n for n in cfg.real_nodes() if isinstance(n.ast, ast.Raise)]
    ok = any(any("len(result_text) != self._bytes" in norm(t) and v for t, v in cfg.dominating_conditions(n)) for n in short)
    ctx.ob("C01.P1", dec.qualname, ok, "a truncated element is refused" if ok else "a truncated element is not refused", key="truncated", where=dec.where)


def _stores_value(ctx, f, field_names=("self.value", "self.data")):
    """Every normal path of decode stores the decoded value (directly or via set(x) that stores on every path)."""
    cfg = cfg_of(f.node)
    stores = []
    for n in cfg.real_nodes():
        if isinstance(n.ast, (ast.Assign, ast.AugAssign)) and any(dotted(t) in field_names for t in rules.assigned_targets(n.ast)):
            stores.append(n)
        for c in n.calls:
            cn = call_name(c) or ""
            if cn == "self.set" and c.args:
                setter = f.cls.find_method("set")
                if setter is not None and _set_always_stores(setter, c.args[0], f):
                    stores.append(n)
            if isinstance(c.func, ast.Attribute) and c.func.attr == "decode" and norm(c.func.value).startswith("self.") and norm(c.func.value) != "self":
                stores.append(n)  # delegation to a child that stores itself
                # a record with zero transmitted members has nothing to store: the loop header counts as the store
                for h in cfg.nodes:
                    if h.kind == "iter" and norm(h.ast.iter) == "range(length)" and cfg.path_exists(rules.branch_marker(h, "true"), n, avoid=[h]):
                        stores.append(h)
            if cn.endswith(".append") and cn.startswith("self."):
                stores.append(n)
    return bool(stores) and not cfg.path_exists(cfg.entry, cfg.exit, avoid=stores, no_exc=True)


def _set_always_stores(setter, arg_expr, caller) -> bool:
    """set() returns without storing on `if value is None: return` - then the argument must never be None."""
    cfg = cfg_of(setter.node)
    p = setter.node.args.args[1].arg
    stores = [n for n in cfg.real_nodes() if isinstance(n.ast, (ast.Assign,)) and any(dotted(t) in ("self.value", "self.data") for t in n.ast.targets)]
    early = [n for n in cfg.real_nodes() if isinstance(n.ast, ast.Return) and cfg.path_exists(cfg.entry, n, avoid=stores, no_exc=True)]
    for r in early:
        conds = [(norm(t), v) for t, v in cfg.dominating_conditions(r)]
        if (f"{p} is None", True) in conds:
            # acceptable only if the caller never passes None
            if _may_be_none(caller, arg_expr):
                return False
        else:
            return False
    return bool(stores)


def _may_be_none(f, expr) -> bool:
    if isinstance(expr, ast.Constant):
        return expr.value is None
    if isinstance(expr, ast.Name):
        for st in rules.func_stmts(f.node):
            if isinstance(st, ast.Assign) and any(isinstance(t, ast.Name) and t.id == expr.id for t in st.targets):
                if isinstance(st.value, ast.Constant) and st.value.value is None:
                    return True
    return False


def check_decode_stores(ctx):
    repo = ctx.repo
    n = 0
    for cname in ("BaseNumber", "BaseText", "Binary", "Boolean", "Array", "List", "Dynamic"):
        f = repo.method(cname, "decode", inherited=False)
        ctx.touch(f)
        ok = _stores_value(ctx, f)
        n += 1
        ctx.ob("C01.P4", f.qualname, ok, "every normal path of decode stores the decoded value" if ok else
               "decode has a path that returns without storing the decoded value (e.g. a zero-length item passed as None to a set() that ignores None): a re-used object keeps its previous value",
               key="stores", where=f.where)
    ctx.floor("decode implementations", n, 7)


def check_text(ctx):
    repo = ctx.repo
    for cname, coding in (("String", "latin-1"), ("JIS8", "jis_8")):
        got = repo.const(cname, "coding")
        ok = got.replace("_", "-").lower() in (coding.replace("_", "-"), coding) or got == coding
        ctx.ob("C01.T2", cname, ok, f"{cname} uses the single-byte codec {got}" if ok else f"{cname}.coding is {got!r}, expected {coding!r}", key="coding", where=repo.cls(cname).where)
    enc = repo.method("BaseText", "encode", inherited=False)
    dec = repo.method("BaseText", "decode", inherited=False)
    ctx.touch(enc)
    ctx.touch(dec)
    hdr = [c for c in calls_in(enc.node) if call_name(c) == "self.encode_item_header"]
    ok = len(hdr) == 1 and norm(hdr[0].args[0]) in ("len(self.value)", "len(self.value.encode(self.coding))")
    ctx.ob("C01.T2", enc.qualname, ok, "the header length is the character count (= byte count for a single-byte codec)" if ok else f"text header length is `{norm(hdr[0].args[0]) if hdr else None}`", key="header-length", where=enc.where)
    ok = any(isinstance(s, ast.AugAssign) and norm(s.value) == "self.value.encode(self.coding)" for s in rules.func_stmts(enc.node))
    ctx.ob("C01.T2", enc.qualname, ok, "the payload is the value encoded with the class's codec" if ok else "the payload is not value.encode(coding)", key="payload", where=enc.where)
    sl = [n for n in walk_no_nested(dec.node) if isinstance(n, ast.Subscript) and isinstance(n.slice, ast.Slice)]
    ok = len(sl) == 1 and norm(sl[0].slice.lower) == "text_pos" and norm(sl[0].slice.upper) == "text_pos + length"
    ctx.ob("C01.T2", dec.qualname, ok, "decode takes exactly `length` bytes at the cursor" if ok else "decode does not take data[cursor : cursor + length]", key="slice", where=dec.where)
    rets = [s for s in rules.func_stmts(dec.node) if isinstance(s, ast.Return)]
    ok = len(rets) == 1 and norm(rets[0].value) == "text_pos + length"
    ctx.ob("C01.T2", dec.qualname, ok, "decode consumes header + length bytes" if ok else f"decode returns `{norm(rets[0].value) if rets else None}`", key="cursor", where=dec.where)
    ok = any(isinstance(c.func, ast.Attribute) and c.func.attr == "decode" and c.args and norm(c.args[0]) == "self.coding" for c in calls_in(dec.node))
    ctx.ob("C01.T2", dec.qualname, ok, "bytes are decoded with the class's codec" if ok else "decode does not use self.coding", key="codec", where=dec.where)
    check_jis_codec(ctx)


def check_jis_codec(ctx):
    repo = ctx.repo
    mod = repo.module("secsgem.common.codec_jis_x_0201")
    r = _items.ref()["jis8"]
    table = None
    enc_stmts = []
    other_writes = []
    for st in mod.tree.body:
        if isinstance(st, ast.Assign) and isinstance(st.targets[0], ast.Name):
            name = st.targets[0].id
            if name == "jis8_decoding_map":
                v = st.value
                if isinstance(v, ast.Call) and (call_name(v) or "").endswith("make_identity_dict") and isinstance(v.args[0], ast.Call) and call_name(v.args[0]) == "range":
                    rng = [repo.fold(a, mod) for a in v.args[0].args]
                    table = {i: i for i in range(*rng)}
                else:
                    raise AnalysisError("jis8_decoding_map is not built from make_identity_dict(range(..))")
            elif name == "jis8_encoding_map":
                enc_stmts.append(st)
        elif isinstance(st, ast.Expr) and isinstance(st.value, ast.Call) and norm(st.value.func) == "jis8_decoding_map.update" and table is not None:
            table.update(repo.fold(st.value.args[0], mod))
        elif isinstance(st, ast.For) and table is not None and isinstance(st.iter, ast.Call) and call_name(st.iter) == "range":
            rng = [repo.fold(a, mod) for a in st.iter.args]
            for i in range(*rng):
                for b in st.body:
                    if isinstance(b, ast.Assign) and isinstance(b.targets[0], ast.Subscript):
                        tgt = norm(b.targets[0].value)
                        key = repo.fold(b.targets[0].slice, mod, env={st.target.id: i})
                        val = repo.fold(b.value, mod, env={st.target.id: i})
                        if tgt == "jis8_decoding_map":
                            table[key] = val
                        else:
                            other_writes.append(norm(b))
                    else:
                        raise AnalysisError(f"codec table loop contains `{norm(b)}`")
        elif isinstance(st, (ast.Assign, ast.AugAssign, ast.Expr)) and "jis8_encoding_map" in norm(st) and not isinstance(st, ast.Assign):
            other_writes.append(norm(st))
        elif isinstance(st, ast.Assign) and isinstance(st.targets[0], ast.Subscript) and "jis8_" in norm(st.targets[0].value):
            other_writes.append(norm(st))
    ctx.require(table is not None, "jis8_decoding_map not found")
    where = "secsgem/common/codec_jis_x_0201.py"
    total = set(table) == set(range(256))
    inj = len(set(table.values())) == len(table)
    ctx.ob("C01.T2", "jis8_decoding_map", total and inj, "the JIS-8 decoding table maps all 256 bytes to distinct characters (decode after encode is the identity)" if (total and inj) else
           f"the JIS-8 decoding table is {'not total on 0..255' if not total else 'not injective'}: two bytes decode to the same character or a byte has no character", where=where)
    kf, kl, off = int(r["katakana_first"], 16), int(r["katakana_last"], 16), int(r["katakana_offset"], 16)
    ok = table.get(0x5C) == int(r["0x5C"], 16) and table.get(0x7E) == int(r["0x7E"], 16) and all(table.get(i) == i + off for i in range(kf, kl + 1)) and all(table.get(i) == i for i in range(0x20, 0x7E) if i != 0x5C)
    ctx.ob("C01.T2", "jis8_decoding_map", ok, "the table is JIS X 0201: 0x5C yen sign, 0x7E overline, 0xA1-0xDF half-width katakana, ASCII otherwise" if ok else "the decoding table deviates from JIS X 0201", key="jis-x-0201", where=where)
    ok = len(enc_stmts) == 1 and norm(enc_stmts[0].value) in ("codecs.make_encoding_map(jis8_decoding_map)",) and not other_writes
    ctx.ob("C01.T2", "jis8_encoding_map", ok, "the encoding table is exactly the inverse of the decoding table" if ok else
           f"the encoding table is modified after inversion ({other_writes[:2]}): a character is encoded to a byte that decodes to a different character, so accepted JIS-8 text does not round-trip", key="inverse", where=where)


def check_bool_binary(ctx):
    repo = ctx.repo
    enc = repo.method("Boolean", "encode", inherited=False)
    dec = repo.method("Boolean", "decode", inherited=False)
    ctx.touch(enc)
    ctx.touch(dec)
    cfg = cfg_of(enc.node)
    hdr = [c for c in calls_in(enc.node) if call_name(c) == "self.encode_item_header"]
    ok = len(hdr) == 1 and norm(hdr[0].args[0]) == "len(self.value)"
    ctx.ob("C01.P2", enc.qualname, ok, "boolean header length = element count" if ok else "boolean header length is not the element count", key="header-length", where=enc.where)
    fors = [n for n in cfg.nodes if n.kind == "iter" and norm(n.ast.iter) == "self.value"]
    adds = [n for n in cfg.real_nodes() if isinstance(n.ast, ast.AugAssign) and norm(n.ast.target) == "result"]
    ok = len(fors) == 1
    if ok:
        cts = cfg.loop_iteration_counts(fors[0], lambda n: n in adds, no_exc=True)
        vals = {}
        for a in adds:
            conds = [(norm(t), v) for t, v in cfg.dominating_conditions(a)]
            lv = fors[0].ast.target.id
            if (lv, True) in conds:
                vals[True] = a.ast.value.value if isinstance(a.ast.value, ast.Constant) else None
            if (lv, False) in conds:
                vals[False] = a.ast.value.value if isinstance(a.ast.value, ast.Constant) else None
        ok = all(v == (1, 1) for v in cts.values()) and vals == {True: b"\x01", False: b"\x00"}
    ctx.ob("C01.P2", enc.qualname, ok, "each element becomes exactly one byte: 0x01 for true, 0x00 for false" if ok else "boolean elements are not encoded as one byte 0x01/0x00 each", key="bytes", where=enc.where)
    dcfg = cfg_of(dec.node)
    fors = [n for n in dcfg.nodes if n.kind == "iter" and norm(n.ast.iter) == "range(length)"]
    ok = len(fors) == 1
    if ok:
        apps = [n for n in dcfg.real_nodes() if any(c == "result.append" for c in n.call_names())]
        cts = dcfg.loop_iteration_counts(fors[0], lambda n: n in apps, no_exc=True)
        vals = {}
        for a in apps:
            c = next(c for c in a.calls if call_name(c) == "result.append")
            for t, v in dcfg.dominating_conditions(a):
                if norm(t) == "bytearray(data)[text_pos] == 0":
                    vals[v] = norm(c.args[0])
        adv = [n for n in dcfg.real_nodes() if isinstance(n.ast, ast.AugAssign) and norm(n.ast.target) == "text_pos" and norm(n.ast.value) == "1"]
        acts = dcfg.loop_iteration_counts(fors[0], lambda n: n in adv, no_exc=True)
        ok = all(v == (1, 1) for v in cts.values()) and vals == {True: "False", False: "True"} and all(v == (1, 1) for v in acts.values())
    ctx.ob("C01.P2", dec.qualname, ok, "one element per byte: zero is False, anything else True; the cursor advances by one per element" if ok else "boolean decode does not map each byte (0 -> False, non-zero -> True) advancing the cursor by one", key="decode", where=dec.where)
    rets = [s for s in rules.func_stmts(dec.node) if isinstance(s, ast.Return)]
    ok = len(rets) == 1 and norm(rets[0].value) == "text_pos"
    ctx.ob("C01.P2", dec.qualname, ok, "boolean decode returns the cursor" if ok else "boolean decode does not return the cursor", key="cursor", where=dec.where)
    enc = repo.method("Binary", "encode", inherited=False)
    dec = repo.method("Binary", "decode", inherited=False)
    ctx.touch(enc)
    ctx.touch(dec)
    hdr = [c for c in calls_in(enc.node) if call_name(c) == "self.encode_item_header"]
    ok = len(hdr) == 1 and "len(self.value)" in norm(hdr[0].args[0]) and any(isinstance(s, ast.AugAssign) and norm(s.value) == "bytes(self.value)" for s in rules.func_stmts(enc.node))
    ctx.ob("C01.P2", enc.qualname, ok, "binary: header length = byte count, payload = the bytes" if ok else "binary encode is not header(len(value)) + bytes(value)", key="binary-encode", where=enc.where)
    sl = [n for n in walk_no_nested(dec.node) if isinstance(n, ast.Subscript) and isinstance(n.slice, ast.Slice)]
    rets = [s for s in rules.func_stmts(dec.node) if isinstance(s, ast.Return)]
    ok = len(sl) == 1 and norm(sl[0].slice.lower) == "text_pos" and norm(sl[0].slice.upper) == "text_pos + length" and len(rets) == 1 and norm(rets[0].value) == "text_pos + length"
    ctx.ob("C01.P2", dec.qualname, ok, "binary decode takes exactly `length` bytes and consumes them" if ok else "binary decode does not take/consume data[cursor : cursor + length]", key="binary-decode", where=dec.where)


def check_containers(ctx):
    repo = ctx.repo
    for cname, coll, via in (("Array", "self.data", None), ("List", "self.data", "keys")):
        enc = repo.method(cname, "encode", inherited=False)
        dec = repo.method(cname, "decode", inherited=False)
        ctx.touch(enc)
        ctx.touch(dec)
        hdr = [c for c in calls_in(enc.node) if call_name(c) == "self.encode_item_header"]
        ok = len(hdr) == 1 and norm(hdr[0].args[0]) == f"len({coll})"
        ctx.ob("C01.P3", enc.qualname, ok, f"{cname}: the header carries the element count" if ok else f"{cname}: header length is `{norm(hdr[0].args[0]) if hdr else None}`, not the element count", key="count", where=enc.where)
        fors = [s for s in rules.func_stmts(enc.node) if isinstance(s, ast.For)]
        ok = len(fors) == 1 and norm(fors[0].iter) == coll
        if ok:
            lv = fors[0].target.id
            adds = [s for s in fors[0].body if isinstance(s, ast.AugAssign) and isinstance(s.op, ast.Add) and norm(s.target) == "result"]
            want = f"{lv}.encode()" if via is None else f"{coll}[{lv}].encode()"
            ok = len(adds) == 1 and len(fors[0].body) == 1 and norm(adds[0].value) == want
        ctx.ob("C01.P3", enc.qualname, ok, f"{cname}: children are encoded once each, in order" if ok else f"{cname}: children are not appended as child.encode() in iteration order", key="children", where=enc.where)
        dcfg = cfg_of(dec.node)
        fors = [n for n in dcfg.nodes if n.kind == "iter" and norm(n.ast.iter) == "range(length)"]
        ok = len(fors) == 1
        if ok:
            steps = [n for n in dcfg.real_nodes() if isinstance(n.ast, ast.Assign) and norm(n.ast.targets[0]) == "text_pos" and isinstance(n.ast.value, ast.Call) and isinstance(n.ast.value.func, ast.Attribute) and n.ast.value.func.attr == "decode" and [norm(a) for a in n.ast.value.args] == ["data", "text_pos"]]
            cts = dcfg.loop_iteration_counts(fors[0], lambda n: n in steps, no_exc=True)
            ok = len(steps) == 1 and all(v == (1, 1) for v in cts.values())
        ctx.ob("C01.P3", dec.qualname, ok, f"{cname}: each child decodes at the cursor and the cursor continues where the child stopped" if ok else f"{cname}: decode does not thread `text_pos = child.decode(data, text_pos)` once per element", key="thread-cursor", where=dec.where)
        rets = [s for s in rules.func_stmts(dec.node) if isinstance(s, ast.Return)]
        ok = len(rets) == 1 and norm(rets[0].value) == "text_pos"
        ctx.ob("C01.P3", dec.qualname, ok, f"{cname}: decode returns the cursor after the last child" if ok else f"{cname}: decode returns `{norm(rets[0].value) if rets else None}`", key="cursor", where=dec.where)
    dec = repo.method("Array", "decode", inherited=False)
    ok = any(isinstance(s, ast.Assign) and norm(s.targets[0]) == "self.data" and norm(s.value) == "[]" for s in rules.func_stmts(dec.node)) and any(call_name(c) == "self.data.append" for c in calls_in(dec.node))
    ctx.ob("C01.P3", dec.qualname, ok, "Array.decode replaces its elements by the decoded ones, in order" if ok else "Array.decode does not reset and append the decoded elements", key="array-replace", where=dec.where)
    ldec = repo.method("List", "decode", inherited=False)
    ok = "list(self.data.keys())[i]" in " ".join(norm(s) for s in rules.func_stmts(ldec.node))
    ctx.ob("C01.P3", ldec.qualname, ok, "List.decode fills the fields in declaration order" if ok else "List.decode does not address fields by position i in declaration order", key="list-order", where=ldec.where)


def check_codes(ctx):
    repo = ctx.repo
    r = _items.ref()
    codes = {}
    for mnem, cname in {**NUMERIC, **OTHERS}.items():
        codes[cname] = repo.const(cname, "format_code")
        tc = repo.const(cname, "text_code")
        ok = tc == mnem
        ctx.ob("C01.T3", cname, ok, f"{cname}: mnemonic {tc}" if ok else f"{cname}: text_code {tc!r}, E5 mnemonic is {mnem}", key="mnemonic", where=repo.cls(cname).where)
    codes["Array"] = repo.const("Array", "format_code")
    vals = [v for k, v in codes.items() if k not in ("Array",)]
    ok = len(set(vals)) == len(vals) and codes["Array"] == codes["List"] == 0
    ctx.ob("C01.T3", "variables", ok, "format codes are pairwise distinct (Array and List share the list code 0)" if ok else f"format codes are not distinct: {codes}", where="secsgem/secs/variables")
    for mnem, cname in OTHERS.items():
        ok = codes[cname] == r["items"][mnem]["code"]
        ctx.ob("C01.T3", cname, ok, f"{cname}: format code {oct(codes[cname])} = E5" if ok else f"{cname}: format code {oct(codes[cname])}, E5 assigns 0o{r['items'][mnem]['octal']}", key="code", where=repo.cls(cname).where)


def run(ctx):
    intervals = _items.check_header_encode(ctx, "C01.B1", "Base", "encode_item_header", "format_code")
    _items.check_header_decode(ctx, "C01.B2", "Base", "decode_item_header", "variables", require_all_accepted=False)
    _items.check_roundtrip(ctx, "C01.B2", "Base", "encode_item_header", "format_code", "Base", "decode_item_header", "variables", intervals)
    n = _items.check_numeric_table(ctx, "C01.T1", NUMERIC, VAR_ATTRS)
    ctx.floor("numeric classes", n, 10)
    check_numeric_shapes(ctx)
    check_text(ctx)
    check_bool_binary(ctx)
    check_containers(ctx)
    check_decode_stores(ctx)
    check_codes(ctx)
    from .c02 import check_dynamic

    sub = type(ctx)(ctx.prop, ctx.tier, ctx.seed, ctx.repo)
    check_dynamic(sub, "C01.T4")
    for o in sub.obligations:
        if o["key"] in ("table", "nested", "scalar", "restart", "select", "peek-header"):  # what a round trip of the library's own encodings needs
            ctx.obligations.append(o)
