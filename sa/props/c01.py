"""C01 - SECS-II values round-trip and are encoded exactly as SEMI E5 prescribes (variables API)."""

from __future__ import annotations

import ast
import struct

from ..cfg import cfg_of
from ..model import AnalysisError, call_name, calls_in, dotted, norm, walk_no_nested
from .. import rules
from . import _codec, _items

NUMERIC = {"U1": "U1", "U2": "U2", "U4": "U4", "U8": "U8", "I1": "I1", "I2": "I2", "I4": "I4", "I8": "I8", "F4": "F4", "F8": "F8"}
OTHERS = {"L": "List", "B": "Binary", "BOOLEAN": "Boolean", "A": "String", "J": "JIS8"}
VAR_ATTRS = {"code": "format_code", "bytes": "_bytes", "struct": "_struct_code", "min": "_min", "max": "_max"}

META = {
    "explanation": "Bit-provenance evaluation of Base.encode_item_header / decode_item_header over the whole length range "
    "(interval partition at the code's own comparison constants; every output bit is a constant or a named bit of the "
    "length / format code, so the E5 header layout, no-truncation, minimal form and decode-after-encode identity hold for "
    "ALL lengths), the numeric type table against E5 and the exact ranges of the struct codes, shape rules on the "
    "encode/decode pairs of numbers, text, binary, boolean, array and list (element width, byte order, cursor "
    "arithmetic, element order, value stored on every path), and a constant-folded check of the JIS-8 codec tables.",
    "decides": [
        "C01.B1 item header encode: format byte, big-endian length bytes, no truncation, minimal form for every length 0..16777215; refusal outside",
        "C01.B2 item header decode: n = low 2 bits, code = high 6 bits, length = big-endian of next n bytes, cursor = start+1+n; decode(encode) = identity; fixed-type check",
        "C01.T1 numeric classes: E5 format code, struct code size/signedness, [_min,_max] = exact representable range",
        "C01.P1 numeric encode/decode: big-endian struct format from the same code, header length = count * width, decode reads length // width slices of that width and advances by it",
        "C01.T2 text: single-byte codecs; JIS-8 decoding table is total and injective on 0..255, matches JIS X 0201, and the encoding table is exactly its inverse",
        "C01.P2 boolean/binary: one byte per element, non-zero decodes to True, cursor advances by the length",
        "C01.P3 array/list: header carries the element count, elements are encoded in order, decode threads the cursor through the children",
        "C01.P4 every normal path of every decode stores the decoded value",
        "C01.P5 every constructor hands every value other than None to set()",
        "C01.P6 the range tests of the scalar and the list paths of BaseNumber.set agree for a float NaN (what the constructor accepts, decode accepts)",
        "C01.T3 format codes pairwise distinct and equal to E5",
        "C01.T4 a Dynamic decodes every concrete item class it can hold (format-code table complete, decoding restarts at the item start)",
    ],
    "does_not_decide": ["equality of get() with the Python value for floats (binary32 rounding is runtime numerics)", "what set() accepts for exotic inputs (str->int conversion etc.)"],
    "assumptions": ["struct.pack/unpack follow IEEE 754 / two's complement big-endian for '>' formats (stdlib)"],
}


# Reference models of the payload codecs (SEMI E5 section 9: item = header + body; numeric bodies are the elements in order,
# most significant byte first; boolean/binary one byte per element; text one byte per character; lists are the
# concatenation of their members).  Written for the checker, compared with the implementation as summaries (sa.summary).
REF = {
    "BaseNumber.encode": """
def encode(self):
    result = self.encode_item_header(len(self.value) * self._bytes)
    for value in self.value:
        result += struct.pack(f">{self._struct_code}", value)
    return result
""",
    "BaseNumber.decode": """
def decode(self, data, start=0):
    (text_pos, _, length) = self.decode_item_header(data, start)
    result = []
    for _ in range(length // self._bytes):
        result_text = data[text_pos : text_pos + self._bytes]
        if len(result_text) != self._bytes:
            raise ValueError()
        result.append(struct.unpack(f">{self._struct_code}", result_text)[0])
        text_pos += self._bytes
    self.set(result)
    return text_pos
""",
    "Boolean.encode": """
def encode(self):
    result = self.encode_item_header(len(self.value))
    for value in self.value:
        result += b"\\x01" if value else b"\\x00"
    return result
""",
    "Boolean.decode": """
def decode(self, data, start=0):
    (text_pos, _, length) = self.decode_item_header(data, start)
    result = []
    for i in range(length):
        result.append(data[text_pos + i] != 0)
    self.set(result)
    return text_pos + length
""",
    "Binary.encode": """
def encode(self):
    if self.value is None:
        return self.encode_item_header(0)
    return self.encode_item_header(len(self.value)) + bytes(self.value)
""",
    "Binary.decode": """
def decode(self, data, start=0):
    (text_pos, _, length) = self.decode_item_header(data, start)
    self.set(data[text_pos : text_pos + length])
    return text_pos + length
""",
    "BaseText.encode": """
def encode(self):
    return self.encode_item_header(len(self.value)) + self.value.encode(self.coding)
""",
    "BaseText.decode": """
def decode(self, data, start=0):
    (text_pos, _, length) = self.decode_item_header(data, start)
    if length > 0:
        self.set(data[text_pos : text_pos + length].decode(self.coding))
    else:
        self.set("")
    return text_pos + length
""",
    "Array.encode": """
def encode(self):
    result = self.encode_item_header(len(self.data))
    for item in self.data:
        result += item.encode()
    return result
""",
    "Array.decode": """
def decode(self, data, start=0):
    (text_pos, _, length) = self.decode_item_header(data, start)
    self.data = []
    for _ in range(length):
        new_object = generate(self.item_decriptor)
        text_pos = new_object.decode(data, text_pos)
        self.data.append(new_object)
    return text_pos
""",
    "List.encode": """
def encode(self):
    result = self.encode_item_header(len(self.data))
    for field_name in self.data:
        result += self.data[field_name].encode()
    return result
""",
    "List.decode": """
def decode(self, data, start=0):
    (text_pos, _, length) = self.decode_item_header(data, start)
    for i in range(length):
        text_pos = self.data[list(self.data.keys())[i]].decode(data, text_pos)
    return text_pos
""",
}

CODEC_RULES = [
    # (rule, class, method, {component: sentence})
    ("C01.P1", "BaseNumber", "encode", {"returns": "numeric encode = header(count * width) + every element packed big-endian with the class's struct code, in value order"}),
    ("C01.P1", "BaseNumber", "decode", {"returns": "numeric decode returns the cursor after count = length // width elements", "stores": "element i is unpacked (big-endian, same struct code) from the width bytes at cursor + i*width and the list is stored", "raises": "a truncated element is refused"}),
    ("C01.P2", "Boolean", "encode", {"returns": "boolean encode = header(count) + one byte 0x01/0x00 per element, in order"}),
    ("C01.P2", "Boolean", "decode", {"returns": "boolean decode consumes header + length bytes", "stores": "element i is True iff byte i of the body is non-zero"}),
    ("C01.P2", "Binary", "encode", {"returns": "binary encode = header(byte count) + the bytes"}),
    ("C01.P2", "Binary", "decode", {"returns": "binary decode consumes header + length bytes", "stores": "the stored value is exactly the length bytes at the cursor"}),
    ("C01.T2", "BaseText", "encode", {"returns": "text encode = header(character count) + value.encode(class codec)"}),
    ("C01.T2", "BaseText", "decode", {"returns": "text decode consumes header + length bytes", "stores": "the stored text is the length bytes at the cursor decoded with the class codec ('' for length 0)"}),
    ("C01.P3", "Array", "encode", {"returns": "Array encode = header(element count) + every child's encoding, in order"}),
    ("C01.P3", "Array", "decode", {"returns": "Array decode threads the cursor through one child decode per element and returns it", "stores": "the element list is reset and every decoded child appended in order"}),
    ("C01.P3", "List", "encode", {"returns": "List encode = header(field count) + every field's encoding, in declaration order"}),
    ("C01.P3", "List", "decode", {"returns": "List decode threads the cursor through the fields in declaration order, one per transmitted member"}),
]


def check_codecs(ctx):
    repo = ctx.repo
    for rule, cname, meth, what in CODEC_RULES:
        f = repo.method(cname, meth, inherited=False)
        params = _codec.decode_params() if meth == "decode" else None
        _codec.agree(ctx, rule, f, REF[f"{cname}.{meth}"], what, params=params, key_prefix=f"{meth}-")
    ctx.floor("payload codecs compared with their reference model", len(CODEC_RULES), 12)


def _counts_header_length(fn, it) -> bool:
    """`range(n)` with n the length element of the item header decoded in this function (whatever the local is called)."""
    if not (isinstance(it, ast.Call) and isinstance(it.func, ast.Name) and it.func.id == "range" and len(it.args) == 1 and isinstance(it.args[0], ast.Name)):
        return False
    for n in ast.walk(fn):
        if (isinstance(n, ast.Assign) and len(n.targets) == 1 and isinstance(n.targets[0], ast.Tuple) and len(n.targets[0].elts) == 3 and isinstance(n.value, ast.Call)
                and (call_name(n.value) or "").endswith("decode_item_header")):
            last = n.targets[0].elts[2]
            if isinstance(last, ast.Name) and last.id == it.args[0].id:
                return True
    return False


def _stores_value(ctx, f, field_names=("self.value", "self.data")):
    """Every normal path of decode stores the decoded value (directly or via set(x) that stores on every path)."""
    cfg = cfg_of(f.node)
    stores = []
    for n in cfg.real_nodes():
        if isinstance(n.ast, (ast.Assign, ast.AugAssign)) and any(dotted(t) in field_names for t in rules.assigned_targets(n.ast)):
            stores.append(n)
        for c in n.calls:
            cn = call_name(c) or ""
            if cn == "self.set" and c.args:
                setter = f.cls.find_method("set")
                if setter is not None and _set_always_stores(setter, c.args[0], f, ctx):
                    stores.append(n)
            if isinstance(c.func, ast.Attribute) and c.func.attr == "decode" and norm(c.func.value).startswith("self.") and norm(c.func.value) != "self":
                stores.append(n)  # delegation to a child that stores itself
                # a record with zero transmitted members has nothing to store: the loop header counts as the store
                for h in cfg.nodes:
                    if h.kind == "iter" and _counts_header_length(f.node, h.ast.iter) and cfg.path_exists(rules.branch_marker(h, "true"), n, avoid=[h]):
                        stores.append(h)
            if cn.endswith(".append") and cn.startswith("self."):
                stores.append(n)
    return bool(stores) and not cfg.path_exists(cfg.entry, cfg.exit, avoid=stores, no_exc=True)


def _set_always_stores(setter, arg_expr, caller, ctx=None) -> bool:
    """Every normal path of set() stores the value; a path that leaves without storing is acceptable only under
    `value is None` - and then the caller must never pass None.  Decided on the path summary of set() with its private
    helpers (_set_list, ...) inlined."""
    from .. import inline, normal, summary

    fn, _ = normal.normalise(caller_repo(ctx), setter, comps=False, ifexp=False) if ctx is not None else (setter.node, [])
    p = fn.args.args[1].arg
    paths = summary.summarise(fn)
    seen_store = False
    for path in paths:
        if path.kind == "raise":
            continue
        stores = [e for e, _ in summary.flat_effects(path.effects) if e[0] == "store" and e[1] in ("self.value", "self.data")]
        if stores:
            seen_store = True
            continue
        if (f"{p} is None", True) in path.conds:
            if _may_be_none(caller, arg_expr):
                return False
            continue
        return False
    return seen_store


def caller_repo(ctx):
    return ctx.repo


def _may_be_none(f, expr) -> bool:
    if isinstance(expr, ast.Constant):
        return expr.value is None
    if isinstance(expr, ast.Name):
        for st in rules.func_stmts(f.node):
            if isinstance(st, ast.Assign) and any(isinstance(t, ast.Name) and t.id == expr.id for t in st.targets):
                if isinstance(st.value, ast.Constant) and st.value.value is None:
                    return True
    return False


def check_decode_stores(ctx):
    repo = ctx.repo
    n = 0
    for cname in ("BaseNumber", "BaseText", "Binary", "Boolean", "Array", "List", "Dynamic"):
        f = repo.method(cname, "decode", inherited=False)
        ctx.touch(f)
        ok = _stores_value(ctx, f)
        n += 1
        ctx.ob("C01.P4", f.qualname, ok, "every normal path of decode stores the decoded value" if ok else
               "decode has a path that returns without storing the decoded value (e.g. a zero-length item passed as None to a set() that ignores None): a re-used object keeps its previous value",
               key="stores", where=f.where)
    ctx.floor("decode implementations", n, 7)


def check_constructors(ctx):
    """C01.P5: a value given to the constructor of a variable type is stored: every normal path of __init__ on which the
    value parameter is not None hands exactly that parameter to set() (or stores it).  `Boolean(False)`, `U1(0)`,
    `String("")` are values the type accepts, so a truthiness guard loses them."""
    from .. import normal, summary

    repo = ctx.repo
    n = 0
    for cname in ("BaseNumber", "BaseText", "Binary", "Boolean", "Array", "List", "Dynamic"):
        f = repo.method(cname, "__init__", inherited=False)
        ctx.touch(f)
        names = [a.arg for a in f.node.args.args]
        ctx.require("value" in names, f"{f.qualname}: no `value` parameter")
        fn, _ = normal.normalise(repo, f, comps=False, ifexp=False)
        bad = None
        for path in summary.summarise(fn):
            if path.kind == "raise":
                continue
            flat = [e for e, _ in summary.flat_effects(path.effects)]
            stored = any(e[0] == "call" and e[1].replace(" ", "") in ("self.set(value)", "self.set(value=value)") for e in flat) or any(
                e[0] == "store" and e[1] in ("self.value", "self.data") and e[2] == "value" for e in flat)
            inside = any(e[0] == "call" and e[1].replace(" ", "").startswith("self.set(value") and ctxs for e, ctxs in summary.flat_effects(path.effects))
            if stored and not inside:
                continue
            if ("value is None", True) in path.conds:
                continue
            bad = "under " + (" and ".join(("" if pol else "not ") + a for a, pol in path.conds) or "no condition")
            break
        n += 1
        ctx.ob("C01.P5", f.qualname, bad is None, "the constructor hands every value other than None to set()" if bad is None else
               f"the constructor leaves without storing its value parameter {bad}: a value the type accepts (False, 0, an empty text) is lost and the item encodes as empty",
               key="init-stores", where=f.where)
    ctx.floor("constructors of variable types", n, 7)


def check_text(ctx):
    repo = ctx.repo
    for cname, coding in (("String", "latin-1"), ("JIS8", "jis_8")):
        got = repo.const(cname, "coding")
        ok = got.replace("_", "-").lower() in (coding.replace("_", "-"), coding) or got == coding
        ctx.ob("C01.T2", cname, ok, f"{cname} uses the single-byte codec {got}" if ok else f"{cname}.coding is {got!r}, expected {coding!r}", key="coding", where=repo.cls(cname).where)
    check_jis_codec(ctx)


def check_jis_codec(ctx):
    repo = ctx.repo
    mod = repo.module("secsgem.common.codec_jis_x_0201")
    r = _items.ref()["jis8"]
    table = None
    enc_stmts = []
    other_writes = []
    for st in mod.tree.body:
        if isinstance(st, ast.Assign) and isinstance(st.targets[0], ast.Name):
            name = st.targets[0].id
            if name == "jis8_decoding_map":
                v = st.value
                if isinstance(v, ast.Call) and (call_name(v) or "").endswith("make_identity_dict") and isinstance(v.args[0], ast.Call) and call_name(v.args[0]) == "range":
                    rng = [repo.fold(a, mod) for a in v.args[0].args]
                    table = {i: i for i in range(*rng)}
                else:
                    raise AnalysisError("jis8_decoding_map is not built from make_identity_dict(range(..))")
            elif name == "jis8_encoding_map":
                enc_stmts.append(st)
        elif isinstance(st, ast.Expr) and isinstance(st.value, ast.Call) and norm(st.value.func) == "jis8_decoding_map.update" and table is not None:
            table.update(repo.fold(st.value.args[0], mod))
        elif isinstance(st, ast.For) and table is not None and isinstance(st.iter, ast.Call) and call_name(st.iter) == "range":
            rng = [repo.fold(a, mod) for a in st.iter.args]
            for i in range(*rng):
                for b in st.body:
                    if isinstance(b, ast.Assign) and isinstance(b.targets[0], ast.Subscript):
                        tgt = norm(b.targets[0].value)
                        key = repo.fold(b.targets[0].slice, mod, env={st.target.id: i})
                        val = repo.fold(b.value, mod, env={st.target.id: i})
                        if tgt == "jis8_decoding_map":
                            table[key] = val
                        else:
                            other_writes.append(norm(b))
                    else:
                        raise AnalysisError(f"codec table loop contains `{norm(b)}`")
        elif isinstance(st, (ast.Assign, ast.AugAssign, ast.Expr)) and "jis8_encoding_map" in norm(st) and not isinstance(st, ast.Assign):
            other_writes.append(norm(st))
        elif isinstance(st, ast.Assign) and isinstance(st.targets[0], ast.Subscript) and "jis8_" in norm(st.targets[0].value):
            other_writes.append(norm(st))
    ctx.require(table is not None, "jis8_decoding_map not found")
    where = "secsgem/common/codec_jis_x_0201.py"
    total = set(table) == set(range(256))
    inj = len(set(table.values())) == len(table)
    ctx.ob("C01.T2", "jis8_decoding_map", total and inj, "the JIS-8 decoding table maps all 256 bytes to distinct characters (decode after encode is the identity)" if (total and inj) else
           f"the JIS-8 decoding table is {'not total on 0..255' if not total else 'not injective'}: two bytes decode to the same character or a byte has no character", where=where)
    kf, kl, off = int(r["katakana_first"], 16), int(r["katakana_last"], 16), int(r["katakana_offset"], 16)
    ok = table.get(0x5C) == int(r["0x5C"], 16) and table.get(0x7E) == int(r["0x7E"], 16) and all(table.get(i) == i + off for i in range(kf, kl + 1)) and all(table.get(i) == i for i in range(0x20, 0x7E) if i != 0x5C)
    ctx.ob("C01.T2", "jis8_decoding_map", ok, "the table is JIS X 0201: 0x5C yen sign, 0x7E overline, 0xA1-0xDF half-width katakana, ASCII otherwise" if ok else "the decoding table deviates from JIS X 0201", key="jis-x-0201", where=where)
    # the codec functions: strict by default (set()/supports_value() use encode() as their acceptance test), right table
    for fname, prim, table_name in (("_jis_x_0201_encode", "codecs.charmap_encode", "jis8_encoding_map"), ("_jis_x_0201_decode", "codecs.charmap_decode", "jis8_decoding_map")):
        cf = repo.module_func("secsgem.common.codec_jis_x_0201", fname)
        ctx.touch(cf)
        params = [a.arg for a in cf.node.args.args]
        defaults = [repo.fold(d, cf.module) if isinstance(d, ast.Constant) else None for d in cf.node.args.defaults]
        rets = [st for st in rules.func_stmts(cf.node) if isinstance(st, ast.Return)]
        okf = (len(params) == 2 and defaults == ["strict"] and len(rets) == 1 and isinstance(rets[0].value, ast.Call) and call_name(rets[0].value) == prim
               and [norm(a) for a in rets[0].value.args] == [params[0], params[1], table_name])
        ctx.ob("C01.T2", f"codec_jis_x_0201.{fname}", okf, f"{fname} maps through {table_name} and is strict by default (a character without a JIS X 0201 code point is refused, not replaced)" if okf else
               f"{fname}(data, errors={defaults[0] if defaults else None!r}) -> `{norm(rets[0].value) if rets else None}`: with a non-strict default (or another table) text that has no JIS-8 encoding is accepted by set() and transmitted as other characters",
               key="codec-function", where=cf.where)
    sf = repo.module_func("secsgem.common.codec_jis_x_0201", "_jis_x_0201_search")
    txt = " ".join(norm(st) for st in rules.func_stmts(sf.node))
    oks = "codecs.CodecInfo(" in txt and "encode=_jis_x_0201_encode" in txt and "decode=_jis_x_0201_decode" in txt and "'jis_8'" in txt
    ctx.ob("C01.T2", "codec_jis_x_0201._jis_x_0201_search", oks, "the codec is registered under jis_8 with this encoder/decoder pair" if oks else "the codec lookup does not return CodecInfo(encode=_jis_x_0201_encode, decode=_jis_x_0201_decode) for 'jis_8'", key="codec-registration", where=sf.where)
    ok = len(enc_stmts) == 1 and norm(enc_stmts[0].value) in ("codecs.make_encoding_map(jis8_decoding_map)",) and not other_writes
    ctx.ob("C01.T2", "jis8_encoding_map", ok, "the encoding table is exactly the inverse of the decoding table" if ok else
           f"the encoding table is modified after inversion ({other_writes[:2]}): a character is encoded to a byte that decodes to a different character, so accepted JIS-8 text does not round-trip", key="inverse", where=where)


def check_codes(ctx):
    repo = ctx.repo
    r = _items.ref()
    codes = {}
    for mnem, cname in {**NUMERIC, **OTHERS}.items():
        codes[cname] = repo.const(cname, "format_code")
        tc = repo.const(cname, "text_code")
        ok = tc == mnem
        ctx.ob("C01.T3", cname, ok, f"{cname}: mnemonic {tc}" if ok else f"{cname}: text_code {tc!r}, E5 mnemonic is {mnem}", key="mnemonic", where=repo.cls(cname).where)
    codes["Array"] = repo.const("Array", "format_code")
    vals = [v for k, v in codes.items() if k not in ("Array",)]
    ok = len(set(vals)) == len(vals) and codes["Array"] == codes["List"] == 0
    ctx.ob("C01.T3", "variables", ok, "format codes are pairwise distinct (Array and List share the list code 0)" if ok else f"format codes are not distinct: {codes}", where="secsgem/secs/variables")
    for mnem, cname in OTHERS.items():
        ok = codes[cname] == r["items"][mnem]["code"]
        ctx.ob("C01.T3", cname, ok, f"{cname}: format code {oct(codes[cname])} = E5" if ok else f"{cname}: format code {oct(codes[cname])}, E5 assigns 0o{r['items'][mnem]['octal']}", key="code", where=repo.cls(cname).where)


def _unordered_verdict(test):
    """Truth value of a range test for an operand that compares false with everything (a float NaN): ordering and equality
    comparisons are false, `!=` is true; None when the test is not made of comparisons and connectives."""
    if isinstance(test, ast.BoolOp):
        vs = [_unordered_verdict(v) for v in test.values]
        if any(v is None for v in vs):
            return None
        return all(vs) if isinstance(test.op, ast.And) else any(vs)
    if isinstance(test, ast.UnaryOp) and isinstance(test.op, ast.Not):
        v = _unordered_verdict(test.operand)
        return None if v is None else not v
    if isinstance(test, ast.Compare):
        if all(isinstance(o, (ast.Lt, ast.LtE, ast.Gt, ast.GtE, ast.Eq, ast.NotEq)) for o in test.ops):
            return all(isinstance(o, ast.NotEq) for o in test.ops)
        return None
    if isinstance(test, ast.Call) and isinstance(test.func, ast.Name) and test.func.id in ("any", "all") and len(test.args) == 1 and isinstance(test.args[0], (ast.GeneratorExp, ast.ListComp)):
        return _unordered_verdict(test.args[0].elt)  # for the element in question
    return None


def check_range_tests_agree(ctx, rule="C01.P6"):
    """The numeric classes share one validation for all widths, the float widths included.  A value the scalar path of
    set() accepts must be accepted by the list paths (decode stores through set(list)): the range tests must give the same
    answer for a value that is neither below the minimum nor above the maximum nor between them - a NaN, which
    `x < lo or x > hi` lets pass and `not lo <= x <= hi` refuses."""
    from .. import inline

    repo = ctx.repo
    verdicts = {}
    for mname in ("set", "_set_list", "_set_bytearray"):
        f = repo.cls("BaseNumber").find_method(mname)
        if f is None:
            continue
        ctx.touch(f)
        fn = inline.expanded(ctx, f, keep={"_set_list", "_set_bytearray", "set"} - {mname}) if mname == "set" else f.node
        for n in ast.walk(fn):
            if not isinstance(n, ast.If):
                continue
            names = {x.attr for x in ast.walk(n.test) if isinstance(x, ast.Attribute)}
            if not {"_min", "_max"} <= names:
                continue
            v = _unordered_verdict(n.test)
            ctx.require(v is not None, f"BaseNumber.{mname}: range test `{norm(n.test)[:80]}` is not made of comparisons - unknown idiom")
            cfg = cfg_of(fn)
            tnode = next((x for x in cfg.nodes if x.kind == "test" and x.ast is n.test), None)
            ctx.require(tnode is not None, f"BaseNumber.{mname}: range test not in the flow graph")
            heads = [x for x in cfg.nodes if x is not tnode and (x.kind == "iter" or (x.kind == "test" and getattr(x, "label", None) == "while"))]  # the next element is another question
            raisers = [x for x in cfg.real_nodes() if isinstance(x.ast, ast.Raise)]
            raises_then = any(cfg.path_exists(rules.branch_marker(tnode, "true"), r, avoid=heads + [tnode]) for r in raisers)
            raises_else = any(cfg.path_exists(rules.branch_marker(tnode, "false"), r, avoid=heads + [tnode]) for r in raisers)
            ctx.require(raises_then != raises_else, f"BaseNumber.{mname}: range test `{norm(n.test)[:80]}` does not lead to exactly one refusing branch - unknown idiom")
            verdicts.setdefault(mname, set()).add(v if raises_then else not v)
    ctx.require(len(verdicts) >= 2, "BaseNumber: fewer than two range tests found (set / _set_list / _set_bytearray) - the rule has lost its anchors")
    flat = {m: sorted(v) for m, v in verdicts.items()}
    ok = len({tuple(v) for v in flat.values()}) == 1 and all(len(v) == 1 for v in flat.values())
    ctx.ob(rule, "BaseNumber.set", ok, "scalar and list paths of set() give the same answer for a value outside every ordering (NaN)" if ok else
           f"the range tests disagree for a float NaN (refused: {flat}): a value accepted by one path of set() is refused by another - an F4/F8 accepted at construction does not decode (decode stores through set(list))",
           key="range-tests-agree", where=repo.method("BaseNumber", "set", inherited=False).where)


def run(ctx):
    intervals = _items.check_header_encode(ctx, "C01.B1", "Base", "encode_item_header", "format_code")
    _items.check_header_decode(ctx, "C01.B2", "Base", "decode_item_header", "variables", require_all_accepted=False)
    _items.check_roundtrip(ctx, "C01.B2", "Base", "encode_item_header", "format_code", "Base", "decode_item_header", "variables", intervals)
    n = _items.check_numeric_table(ctx, "C01.T1", NUMERIC, VAR_ATTRS)
    ctx.floor("numeric classes", n, 10)
    check_codecs(ctx)
    check_text(ctx)
    check_decode_stores(ctx)
    check_constructors(ctx)
    check_range_tests_agree(ctx)
    check_codes(ctx)
    from .c02 import check_dynamic, check_start_defaults

    check_start_defaults(ctx, "C01.B2")

    sub = type(ctx)(ctx.prop, ctx.tier, ctx.seed, ctx.repo)
    check_dynamic(sub, "C01.T4")
    for o in sub.obligations:
        if o["key"] in ("table", "nested", "scalar", "restart", "select", "peek-header", "wildcard") or o["construct"] == "ANYVALUE":  # what a round trip of the library's own encodings needs (nested lists decode through ANYVALUE)
            ctx.obligations.append(o)
