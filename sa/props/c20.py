"""C20 - a secsgem host and equipment always reach communication and agree on data (necessary compatibility
conditions only)."""

from __future__ import annotations

import ast
import re

from ..cfg import cfg_of
from ..model import AnalysisError, call_name, calls_in, dotted, norm, walk_no_nested
from .. import conds as cnd
from .. import inline, normal, rules, sfdl
from . import c03

META = {
    "explanation": "Cross-endpoint agreement tables computed from the two handler hierarchies and the catalogue: every primary a "
    "host service wrapper sends has an equipment-side handler whose reply class is the catalogued secondary travelling "
    "towards the host, and vice versa for the primaries the equipment originates; every member the receiving side reads "
    "from a decoded message exists in that message's declared structure; connect roles map to client/server connections; "
    "both roles answer a crossing S1F13; the enable order, the re-arming of the connection after a peer close and the "
    "independent randomised system-byte counters that the pairwise start-up and the request/event separation rely on.",
    "decides": [
        "C20.T1 host-originated primaries: equipment handler exists, secondary catalogued and directed to the host; equipment-originated primaries: host handler (or the inline WAIT_CRA branch) exists, secondary directed to the equipment",
        "C20.T2 every member name read from a decoded message exists in the declared structure of that stream/function",
        "C20.T3 role wiring: ACTIVE -> TcpClientConnection, PASSIVE -> TcpServerConnection; enable() enables the communication state before the link; both roles handle S1F13 in WAIT_CRA and in COMMUNICATING",
        "C20.T4 endpoints draw their first system bytes at random (host requests and equipment primaries are told apart by system bytes only); the stop request of a closed connection is not carried into the next one; re-arming after a peer close (shared with C09.P2/P3)",
        "C20.T4 clauses decided by rules of other properties: disable() lowers the enabled flag before the link is closed (C09.W2), a refused S2F15 writes nothing (C13.P2), control-state events are registered on the E30 transitions (C11.P3)",
    ],
    "does_not_decide": ["that both sides REACH the communicating state within a bounded time under every schedule (needs a scheduler - no static argument in reach)", "exactly-once delivery of events across the link", "recovery timing after disable/enable"],
    "assumptions": ["C05, C07, C08, C12, C13 hold for each endpoint on its own"],
}

SF_CALL = re.compile(r"^_on_s(\d\d)f(\d\d)$")


def _mro_methods(repo, cname):
    cls = repo.cls(cname)
    seen = {}
    for c in cls.mro:
        for n, m in c.methods.items():
            seen.setdefault(n, m)
    return seen


def _sent_primaries(repo, cname):
    """{(S,F): [method qualnames]} for self.stream_function(S, F)(...) instances passed to a send call in the MRO."""
    out = {}
    for name, m in _mro_methods(repo, cname).items():
        for c in calls_in(m.node, nested=True):
            cn = call_name(c) or ""
            if cn in ("self.send_and_waitfor_response", "self.send_stream_function"):
                for sub in ast.walk(c):
                    if isinstance(sub, ast.Call) and (call_name(sub) or "") == "self.stream_function" and len(sub.args) == 2 and all(isinstance(a, ast.Constant) for a in sub.args):
                        out.setdefault((sub.args[0].value, sub.args[1].value), []).append(m.qualname)
        # s2f41 = self.stream_function(2, 41)() ... send_and_waitfor_response(s2f41); request chosen per branch, then sent once
        cfg = cfg_of(m.node)
        for n in cfg.real_nodes():
            for c in n.calls:
                if (call_name(c) or "") in ("self.send_and_waitfor_response", "self.send_stream_function") and c.args and not isinstance(c.args[0], ast.Call):
                    for v, _ in rules.reaching_values(m.node, cfg, n, c.args[0]):
                        for sub in ast.walk(v):
                            if isinstance(sub, ast.Call) and (call_name(sub) or "") == "self.stream_function" and len(sub.args) == 2 and all(isinstance(a, ast.Constant) for a in sub.args):
                                if m.qualname not in out.get((sub.args[0].value, sub.args[1].value), []):
                                    out.setdefault((sub.args[0].value, sub.args[1].value), []).append(m.qualname)
    return out


def _handlers(repo, cname):
    return {(int(m.group(1)), int(m.group(2))): f for n, f in _mro_methods(repo, cname).items() for m in [SF_CALL.match(n)] if m}


def check_coverage(ctx):
    repo = ctx.repo
    classes = c03.function_classes(repo)
    host_sends = _sent_primaries(repo, "GemHostHandler")
    eq_sends = _sent_primaries(repo, "GemEquipmentHandler")
    host_h = _handlers(repo, "GemHostHandler")
    eq_h = _handlers(repo, "GemEquipmentHandler")
    # what is common to both hierarchies (GemHandler/SecsHandler) is sent by either side; keep the side-specific view
    n = 0
    for (S, F), who in sorted(host_sends.items()):
        if F % 2 == 0 or (S, F) in ((1, 13), (1, 1)):
            continue
        cls = classes.get((S, F))
        if cls is None:
            ctx.ob("C20.T1", f"S{S}F{F}", False, f"host wrapper {who[0]} sends S{S}F{F}, which is not catalogued", where="secsgem/gem/hosthandler.py")
            continue
        if not repo.const(cls, "_to_equipment"):
            continue  # equipment-only helpers inherited by both (not a host service)
        n += 1
        h = eq_h.get((S, F))
        sec = classes.get((S, F + 1))
        ok = h is not None and sec is not None and repo.const(sec, "_to_host") and repo.const(cls, "_has_reply")
        needs_handler = (S, F) not in ((7, 3), (7, 5), (7, 17), (7, 19), (10, 3), (2, 49))  # process programs / terminal: user supplied on the equipment
        if not needs_handler:
            ok = sec is not None and repo.const(sec, "_to_host")
        ctx.ob("C20.T1", f"host S{S}F{F}", bool(ok), f"S{S}F{F} ({who[0].split('.')[-1]}) is answered by the equipment's {h.qualname if h else 'user callback'} with S{S}F{F + 1} (to host)" if ok else
               f"the host wrapper {who[0]} sends S{S}F{F} but the equipment side has {'no handler _on_s%02df%02d' % (S, F) if h is None else 'a handler'} / secondary S{S}F{F + 1} {'missing' if sec is None else 'not directed to the host or not declared as reply'}: the call gets S9F5 or nothing instead of the data",
               where=(h.where if h else "secsgem/gem/equipmenthandler.py"))
        if h is not None:
            ctx.touch(h)
    ctx.floor("host service primaries", n, 12)
    m = 0
    for (S, F), who in sorted(eq_sends.items()):
        if F % 2 == 0:
            continue
        cls = classes.get((S, F))
        if cls is None or not repo.const(cls, "_to_host"):
            continue
        if (S, F) not in ((1, 1), (1, 13)) and all(w.split(".")[0] in ("SecsHandler", "GemHandler") for w in who):
            continue  # generic wrappers of the shared base classes (process programs, terminal): handlers are user supplied
        m += 1
        h = host_h.get((S, F))
        sec = classes.get((S, F + 1))
        ok = h is not None and sec is not None and repo.const(sec, "_to_equipment")
        ctx.ob("C20.T1", f"equipment S{S}F{F}", bool(ok), f"S{S}F{F} ({who[0].split('.')[-1]}) is answered by the host's {h.qualname if h else '?'} with S{S}F{F + 1} (to equipment)" if ok else
               f"the equipment sends S{S}F{F} ({who[0]}) but the host side has no handler / the secondary S{S}F{F + 1} is not directed to the equipment", where=(h.where if h else "secsgem/gem/hosthandler.py"))
        if h is not None:
            ctx.touch(h)
    ctx.floor("equipment-originated primaries", m, 4)
    return classes


def _structure_names(repo, cls):
    fmt = repo.const(cls, "_data_format") if cls.find_const_expr("_data_format")[1] is not None else None
    if not isinstance(fmt, str):
        return set()
    tree = sfdl.parse(fmt)
    names = set(sfdl.items_of(tree))
    for l in sfdl.walk_lists(tree):
        if l[1]:
            names.add(l[1])
    names.add("DATA")
    return names


def check_member_reads(ctx, classes):
    repo = ctx.repo
    n = 0
    for cname in ("GemHostHandler", "GemEquipmentHandler"):
        for name, m in _mro_methods(repo, cname).items():
            sf = None
            mm = SF_CALL.match(name)
            dec_vars = {}
            for st in rules.func_stmts(m.node):
                if isinstance(st, ast.Assign) and isinstance(st.value, ast.Call) and (call_name(st.value) or "").endswith("streams_functions.decode") and isinstance(st.targets[0], ast.Name):
                    arg = st.value.args[0] if st.value.args else None
                    if mm and isinstance(arg, ast.Name):
                        dec_vars[st.targets[0].id] = (int(mm.group(1)), int(mm.group(2)))
                    elif isinstance(arg, ast.Call):
                        for sub in ast.walk(arg):
                            if isinstance(sub, ast.Call) and (call_name(sub) or "") == "self.stream_function" and len(sub.args) == 2:
                                dec_vars[st.targets[0].id] = (sub.args[0].value, sub.args[1].value + 1)
            for var, (S, F) in dec_vars.items():
                cls = classes.get((S, F))
                if cls is None:
                    continue
                allowed = _structure_names(repo, cls)
                # loop variables over members of the decoded value inherit the structure
                aliases = {var}
                for st in rules.func_stmts(m.node):
                    if isinstance(st, ast.For) and isinstance(st.target, ast.Name) and any(isinstance(x, ast.Name) and x.id in aliases for x in ast.walk(st.iter)):
                        aliases.add(st.target.id)
                reads = set()
                for x in walk_no_nested(m.node):
                    if isinstance(x, ast.Attribute) and isinstance(x.value, ast.Name) and x.value.id in aliases and x.attr.isupper():
                        reads.add(x.attr)
                if not reads:
                    continue
                n += 1
                missing = sorted(reads - allowed)
                ctx.touch(m)
                ctx.ob("C20.T2", m.qualname, not missing, f"reads {sorted(reads)} from S{S}F{F}, all declared in its structure" if not missing else
                       f"reads {missing} from the decoded S{S}F{F}, whose declared structure has no such member ({sorted(allowed)}): the peer's message raises AttributeError in the handler (SxF0 / no data)",
                       key=f"S{S}F{F}", where=m.where)
    ctx.floor("decoded-message member reads", n, 8)


def check_roles(ctx):
    repo = ctx.repo
    f = repo.method("HsmsSettings", "create_connection", inherited=False)
    ctx.touch(f)
    cfg = cfg_of(normal.normalised(ctx, f))
    rets = {}
    for n in cfg.real_nodes():
        if isinstance(n.ast, ast.Return) and isinstance(n.ast.value, ast.Call):
            rets[(call_name(n.ast.value) or "").split(".")[-1]] = sorted(cnd.facts(cfg, n))
    ok = rets.get("TcpClientConnection") == [("self.connect_mode == HsmsConnectMode.ACTIVE", True)] and rets.get("TcpServerConnection") in ([("self.connect_mode == HsmsConnectMode.ACTIVE", False)], [("self.connect_mode == HsmsConnectMode.PASSIVE", True)])
    ctx.ob("C20.T3", f.qualname, ok, "ACTIVE connects out (client), PASSIVE listens (server)" if ok else f"connect-role mapping is {rets}: two endpoints configured ACTIVE/PASSIVE would both listen or both connect", where=f.where)
    ia = repo.method("HsmsSettings", "is_active", inherited=False)
    r = [s for s in rules.func_stmts(ia.node) if isinstance(s, ast.Return)]
    ok = len(r) == 1 and rules.expand(ia.node, r[0].value) == "self.connect_mode == HsmsConnectMode.ACTIVE"
    ctx.ob("C20.T3", ia.qualname, ok, "only the active side starts the select procedure" if ok else f"is_active returns {norm(r[0].value) if r else None}", where=ia.where)
    en = repo.method("GemHandler", "enable", inherited=False)
    ctx.touch(en)
    cfg = cfg_of(normal.normalised(ctx, en))
    a = [n for n in cfg.real_nodes() if any(c == "self._communication_state.enable" for c in n.call_names())]
    b = [n for n in cfg.real_nodes() if any(c == "self.protocol.enable" for c in n.call_names())]
    ok = len(a) == 1 and len(b) == 1 and cfg.dominates(a[0], b[0])
    ctx.ob("C20.T3", en.qualname, ok, "the communication state is ENABLED before the link can come up" if ok else
           "enable() opens the link before the communication state machine is enabled: if the peer is already waiting, select completes first, select() is refused in DISABLED, no S1F13 is ever sent and neither side reaches COMMUNICATING", where=en.where)
    # both roles answer S1F13 while waiting and while communicating
    h = repo.method("GemHandler", "_on_s01f13", inherited=False)
    mr = repo.method("GemHandler", "_on_message_received", inherited=False)
    for f_, label in ((h, "COMMUNICATING"), (mr, "WAIT_CRA")):
        fn = inline.expanded(ctx, f_, keep={"_handle_stream_function"})
        cfg = cfg_of(fn)
        bodies = {}
        for n in cfg.real_nodes():
            for c in n.calls:
                if isinstance(c.func, ast.Call) and (call_name(c.func) or "") == "self.stream_function" and [norm(x) for x in c.func.args] == ["1", "14"] and c.args:
                    for v, cs in rules.reaching_values(fn, cfg, n, c.args[0]):
                        host = any(norm(t) == "self._is_host" and tv for t, tv in cs)
                        bodies["host" if host else "equipment"] = norm(v)
        ok = set(bodies) == {"host", "equipment"} and "'MDLN': []" in bodies["host"] and "self._mdln" in bodies["equipment"]
        ctx.ob("C20.T3", f_.qualname, ok, f"S1F13 received in {label} is answered by both roles with the role's S1F14 body" if ok else f"S1F14 bodies in {label}: {bodies}", key="s1f14 " + label, where=f_.where)
    eqh = repo.method("GemEquipmentHandler", "__init__", inherited=False)
    ok = any(isinstance(s, ast.Assign) and norm(s.targets[0]) == "self._is_host" and norm(s.value) == "False" for s in rules.func_stmts(eqh.node))
    gh = repo.method("GemHandler", "__init__", inherited=False)
    ok = ok and any(isinstance(s, ast.Assign) and norm(s.targets[0]) == "self._is_host" and norm(s.value) == "True" for s in rules.func_stmts(gh.node))
    ctx.ob("C20.T3", "GemEquipmentHandler.__init__", ok, "the equipment handler identifies itself as equipment, the base handler as host" if ok else "_is_host is not True for the host / False for the equipment", where=eqh.where)


def check_endpoints(ctx):
    repo = ctx.repo
    init = repo.method("Protocol", "__init__", inherited=False)
    ctx.touch(init)
    val = None
    for st in rules.func_stmts(init.node):
        if isinstance(st, ast.Assign) and any(dotted(t) == "self._system_counter" for t in st.targets):
            val = st.value
    ok = isinstance(val, ast.Call) and (call_name(val) or "") in ("random.randint", "random.randrange", "secrets.randbelow", "random.getrandbits")
    if ok and call_name(val) == "random.randint":
        try:
            lo, hi = repo.fold(val.args[0], init.module, init.cls), repo.fold(val.args[1], init.module, init.cls)
            ok = lo == 0 and hi == 2**32 - 1
        except Exception:
            ok = False
    ctx.ob("C20.T4", init.qualname, bool(ok), "each endpoint starts its system bytes at a random 32-bit value" if ok else
           f"the system-byte counter starts at `{norm(val) if val is not None else None}` on every endpoint: a host request in flight and an equipment primary (S6F11/S5F1) get the same system bytes, the primary is consumed as the reply - wrong data returned and the event lost",
           key="random-start", where=init.where)
    # shared with C09: stale stop request / re-arm
    from . import c09

    sub = type(ctx)(ctx.prop, ctx.tier, ctx.seed, ctx.repo)
    c09.check_close_sequence(sub)
    c09.check_read_loop(sub)
    for o in sub.obligations:
        if o["key"].startswith("reset ") or o["construct"].endswith("._disconnected") or o["construct"].endswith(".__init__"):
            o = dict(o)
            o["rule"] = "C20.T4"
            ctx.obligations.append(o)


def run(ctx):
    # "any message timing and segmentation": the framing of the byte stream (rules shared with C04.P1)
    from .. import report
    from .c04 import check_framing

    report.share(ctx, "C20.T3", check_framing)
    # ... and the sending side of segmentation: a block above the packet size is cut into consecutive packets that cover it
    # exactly and are written in order (C10.P3)
    from .c10 import check_process_send_queue

    report.share(ctx, "C20.T3", check_process_send_queue)
    # "any message timing": a frame that arrives in pieces is read as soon as, and only when, its last byte is there
    # (C09.W1), and every block that was queued while the dispatcher was busy is still handled (dispatcher group)
    from ._dispatch import check_dispatcher
    from .c09 import check_bytequeue_wait

    check_bytequeue_wait(ctx, "C20.T3")
    check_dispatcher(ctx, "C20.T3", wakeups=True, consumers=True, reconnect=True)
    # "reach communication again after disable/enable": the select handshake answers before it changes state (C05.P1)
    from .c05 import check_control

    report.share(ctx, "C20.T3", check_control, only={"C05.P1", "C05.P3"})
    # "after either side is disabled and re-enabled they reach communication again": disable() lowers the enabled flag
    # before it closes the link, so the closing link does not re-arm the connect thread (C09.W2)
    from .c09 import check_idle_and_disable

    report.share(ctx, "C20.T4", check_idle_and_disable)
    # "every host service call returns what the equipment holds": a refused S2F15 changes no constant (C13.P2); the
    # control-state events the host subscribes to are raised on the transitions E30 names (C11.P3)
    from .c11 import check_events
    from .c13 import check_s02f15

    report.share(ctx, "C20.T4", check_s02f15)
    report.share(ctx, "C20.T4", check_events)
    classes = check_coverage(ctx)
    check_member_reads(ctx, classes)
    check_roles(ctx)
    check_endpoints(ctx)
