"""C06 - replies reach exactly their requester; other messages are delivered once, one at a time, in order."""

from __future__ import annotations

import ast

from ..cfg import cfg_of
from ..model import AnalysisError, call_name, calls_in, dotted, norm, walk_no_nested
from .. import callgraph, inline, rules
from .. import conds as cnd
from . import c05
from ._dispatch import check_dispatcher

META = {
    "explanation": "Lockset rule on the system-byte counter, register-before-send / remove-on-every-exit path rules on the "
    "four sibling request functions (with sibling agreement), routing rules in both protocols, and single-consumer / "
    "no-lost-wake-up rules on ProtocolDispatcher.",
    "decides": [
        "C06.L1 every access to the system-byte counter in get_next_system_counter is inside one instance-level lock; +1 increment, wrap inside 32 bits",
        "C06.P1 request functions: registration dominates the send, every normal exit after registration passes _remove_queue(same id), the wait is bounded, the caller gets what its own queue delivered, siblings agree",
        "C06.P1e no call that can raise lies between registration and removal outside try/finally",
        "C06.P2 inbound routing: system bytes registered => that requester's queue, else message_received; HSMS and SECS-I agree",
        "C06.W1 one consumer of the dispatch queue across reconnects; FIFO; one item at a time; a raising handler does not end the consumer; no lost wake-up",
        "C06.X1 a reply is routed before any transition that can raise (shared with C05.P3)",
        "C06.S1 HSMS frames are cut from the byte stream exactly: complete before consumed, cursor on the next frame, no buffered frame left behind (shared with C04.P1); a SECS-I block is dequeued only when it is about to be transferred and resolved exactly once (shared with C17.P2)",
    ],
    "does_not_decide": ["fairness and latency", "dict-level races on the response-queue map beyond the counter lock", "actual thread interleavings (the rules are lockset/ordering disciplines)"],
    "assumptions": ["queue.Queue is a thread-safe FIFO (stdlib)", "threading.Lock provides mutual exclusion (stdlib)"],
}

REQUEST_FUNCS = [
    ("Protocol", "send_and_waitfor_response"),
    ("HsmsProtocol", "send_select_req"),
    ("HsmsProtocol", "send_linktest_req"),
    ("HsmsProtocol", "send_deselect_req"),
]


def check_counter(ctx):
    repo = ctx.repo
    f = repo.method("Protocol", "get_next_system_counter", inherited=False)
    ctx.touch(f)
    fn = f.node
    q = f.qualname
    field = "self._system_counter"
    # lock fields created once per instance
    init = repo.method("Protocol", "__init__", inherited=False)
    lock_fields = set()
    for st in rules.func_stmts(init.node):
        if isinstance(st, (ast.Assign, ast.AnnAssign)) and isinstance(st.value, ast.Call) and (call_name(st.value) or "") in ("threading.Lock", "threading.RLock"):
            for t in rules.assigned_targets(st):
                d = dotted(t)
                if d and d.startswith("self."):
                    lock_fields.add(d)
    accesses = []

    def rec(n, locks):
        if isinstance(n, (ast.FunctionDef, ast.Lambda)) and n is not fn:
            return
        if isinstance(n, ast.With):
            held = [dotted(i.context_expr) for i in n.items]
            for i in n.items:
                rec(i.context_expr, locks)
            for st in n.body:
                rec(st, locks + [h for h in held if h])
            return
        if isinstance(n, ast.Attribute) and dotted(n) == field:
            accesses.append((n, list(locks)))
        for ch in ast.iter_child_nodes(n):
            rec(ch, locks)

    rec(fn, [])
    ctx.require(len(accesses) >= 2, f"{q}: fewer than two accesses to {field} - unknown shape")
    common = set(accesses[0][1])
    for _, locks in accesses:
        common &= set(locks)
    inst = common & lock_fields
    ok = bool(inst)
    unlocked = [a for a, locks in accesses if not (set(locks) & lock_fields)]
    ctx.ob("C06.L1", q, ok,
           f"all {len(accesses)} accesses to the counter (increment, wrap, returned read) are inside `with {sorted(inst)[0]}`" if ok else
           (f"{len(unlocked)} of {len(accesses)} accesses to the system-byte counter are outside the instance lock (line {unlocked[0].lineno}): "
            "two concurrent requesters can be given the same system bytes" if unlocked else
            f"the accesses to the counter are not under one common instance-level lock (locks seen: {sorted({l for _, ls in accesses for l in ls})}, instance locks {sorted(lock_fields)})"),
           key="lock", where=f.where, accesses=len(accesses), locks=sorted(lock_fields))
    # increment by one
    incs = [st for st in rules.func_stmts(fn) if isinstance(st, ast.AugAssign) and dotted(st.target) == field]
    ok = len(incs) == 1 and isinstance(incs[0].op, ast.Add) and isinstance(incs[0].value, ast.Constant) and incs[0].value.value == 1
    if not ok:
        plain = [st for st in rules.func_stmts(fn) if isinstance(st, ast.Assign) and any(dotted(t) == field for t in st.targets) and norm(st.value) in (f"{field} + 1", f"1 + {field}")]
        ok = len(plain) == 1 and not incs
    ctx.ob("C06.L1", q, ok, "the counter advances by exactly one per request" if ok else "the counter is not advanced by exactly +1 per call: consecutive requests may share system bytes", key="increment", where=f.where)
    # wrap keeps the value inside 32 bits
    wraps = []
    cfg = cfg_of(fn)
    for n in cfg.nodes:
        t = n.ast if n.kind == "test" else None
        while isinstance(t, ast.UnaryOp) and isinstance(t.op, ast.Not):
            t = t.operand  # `if not c >= K: return ...` tests the same threshold
        if t is not None and field in norm(t) and isinstance(t, ast.Compare) and len(t.ops) == 1 and dotted(t.left) == field:
            try:
                bound = repo.fold(t.comparators[0], f.module, f.cls)
            except Exception:
                bound = None
            wraps.append((n, t.ops[0], bound))
    ok = False
    for n, op, bound in wraps:
        # the smallest counter value on the wrapping side of the test: > b and <= b split at b + 1, >= b and < b at b
        first = None if not isinstance(bound, int) else bound + 1 if isinstance(op, (ast.Gt, ast.LtE)) else bound if isinstance(op, (ast.GtE, ast.Lt)) else None
        if first is not None and 0 < first <= 2**32:
            ok = True
    ctx.ob("C06.L1", q, ok, "the counter wraps before it leaves the 32-bit system-bytes range" if ok else
           f"wrap test {[(norm(n.ast)) for n, _, _ in wraps]} lets the counter exceed 2**32-1 (the header cannot carry it)", key="wrap", where=f.where)
    rets = [n for n in cfg.real_nodes() if isinstance(n.ast, ast.Return)]
    ok = all(r.ast.value is not None and (norm(r.ast.value) == field or isinstance(r.ast.value, ast.Name)) for r in rets) and bool(rets)
    ctx.ob("C06.L1", q, ok, "the issued value is the counter" if ok else f"returns {[r.text() for r in rets]}", key="returns", where=f.where)


def _request_facts(ctx, f):
    """Skeleton of one request function; returns dict of facts or raises AnalysisError for unknown shapes."""
    fn = inline.expanded(ctx, f, keep={"send_message", "get_next_system_counter", "_get_queue_for_system", "_remove_queue"})  # a shared tail moved into a private helper is still this request
    q = f.qualname
    cfg = cfg_of(fn)
    facts = {}
    ids = [n for n in cfg.real_nodes() if isinstance(n.ast, ast.Assign) and isinstance(n.ast.value, ast.Call) and call_name(n.ast.value) == "self.get_next_system_counter"]
    if not ids:
        # the waiter table is keyed by system bytes of ONE sequence: an id taken from anywhere else can equal the id of an
        # open transaction of the other sequence, and its registration replaces that caller's queue
        regs = [c for n in cfg.real_nodes() for c in n.calls if call_name(c) == "self._get_queue_for_system" and c.args]
        if regs:
            src = rules.expand(fn, regs[0].args[0])
            ctx.ob("C06.P1", q, False, f"the system bytes registered for the reply come from `{src[:70]}`, not from get_next_system_counter(): two id sequences feed one table of waiting "
                   "requesters, so a control transaction can carry the system bytes of an open data request and take over its queue", key="id-source", where=f.where)
            return None
    ctx.require(len(ids) == 1 and isinstance(ids[0].ast.targets[0], ast.Name), f"{q}: `x = self.get_next_system_counter()` not found exactly once")
    idvar = ids[0].ast.targets[0].id
    reg = [n for n in cfg.real_nodes() if any(c == "self._get_queue_for_system" for c in n.call_names())]
    rem = [n for n in cfg.real_nodes() if any(c == "self._remove_queue" for c in n.call_names())]
    snd = [n for n in cfg.real_nodes() if any(c == "self.send_message" for c in n.call_names())]
    ctx.require(len(snd) == 1, f"{q}: expected exactly one send_message call")
    facts.update(idvar=idvar, reg=reg, rem=rem, snd=snd[0], cfg=cfg, fn=fn)
    return facts


def check_requests(ctx):
    repo = ctx.repo
    cg = callgraph.get(repo)
    skeletons = {}
    for cname, mname in REQUEST_FUNCS:
        f = repo.method(cname, mname, inherited=False)
        ctx.touch(f)
        q = f.qualname
        fx = _request_facts(ctx, f)
        if fx is None:
            continue
        fn = fx["fn"]
        cfg, idvar, reg, rem, snd = fx["cfg"], fx["idvar"], fx["reg"], fx["rem"], fx["snd"]
        ok = len(reg) == 1
        ctx.ob("C06.P1", q, ok, "the requester registers its response queue once" if ok else f"{len(reg)} registrations of a response queue", key="registers", where=f.where)
        if not ok:
            continue
        R = reg[0]
        rcall = next(c for c in R.calls if call_name(c) == "self._get_queue_for_system")
        ok = [norm(a) for a in rcall.args] == [idvar]
        ctx.ob("C06.P1", q, ok, "the queue is registered under the request's own system bytes" if ok else f"`{norm(rcall)}` does not register {idvar}", key="register-id", where=f.where)
        from .c09 import local_names, possibly_undefined

        unbound = [(v, bad[0].text()) for v in sorted(local_names(fn)) if v != "_" for bad in [possibly_undefined(cfg, fn, v)] if bad]
        ctx.ob("C06.P1", q, not unbound, "system bytes, queue and message are computed before they are used" if not unbound else
               f"local `{unbound[0][0]}` is read at `{unbound[0][1]}` before it is assigned: the request fails with UnboundLocalError before (or after) it is on the wire", key="definitely-assigned", where=f.where)
        ok = cfg.dominates(R, snd)
        ctx.ob("C06.P1", q, ok, "the response queue is registered before the request is sent" if ok else
               "the request can be on the wire before its response queue is registered: a fast reply finds no waiter, is handed to message_received, and the caller times out",
               key="register-before-send", where=f.where)
        # the id is the one put on the wire
        used = any(isinstance(n, ast.Name) and n.id == idvar for st in [s.ast for s in cfg.real_nodes() if cfg.dominates(s, snd) and s is not R and s is not cfg.entry] for n in ast.walk(st) if not (isinstance(st, ast.Assign) and st.value is rcall))
        msg_arg = next(c for c in snd.calls if call_name(c) == "self.send_message").args
        tainted = rules.taint(fn, lambda n: isinstance(n, ast.Name) and n.id == idvar)
        ok = bool(msg_arg) and rules.expr_depends_on(msg_arg[0], tainted | {idvar})
        ctx.ob("C06.P1", q, ok, "the sent message carries the registered system bytes" if ok else f"the message given to send_message does not derive from {idvar}", key="id-on-wire", where=f.where)
        # removal on every normal exit
        good_rem = [n for n in rem if [norm(a) for a in next(c for c in n.calls if call_name(c) == "self._remove_queue").args] == [idvar]]
        bad_rem = [n for n in rem if n not in good_rem]
        ctx.ob("C06.P1", q, not bad_rem, "every removal names the request's own system bytes" if not bad_rem else f"`{bad_rem[0].text()}` removes another id", key="remove-id", where=f.where)
        leak = cfg.path_exists(R, cfg.exit, avoid=good_rem)  # includes the handled-timeout path (except queue.Empty)
        ctx.ob("C06.P1", q, not leak, "every normal exit after registration passes _remove_queue(id)" if not leak else
               "a path returns without removing the registered queue: the stale entry swallows a later inbound message that carries the same system bytes",
               key="remove-on-exit", where=f.where)
        cnt = cfg.count_on_paths(lambda n: n in good_rem, R, cfg.exit, no_exc=True)
        ok = cnt[1] is not None and cnt[1] <= 1
        ctx.ob("C06.P1", q, ok, "the queue is removed at most once per path" if ok else f"_remove_queue can run {cnt} times on a path (second one raises KeyError)", key="remove-once", where=f.where)
        # bounded wait on the caller's own queue
        qvars = {t.id for t in rules.assigned_targets(R.ast) if isinstance(t, ast.Name)} if isinstance(R.ast, ast.Assign) else set()
        gets = [c for c in calls_in(fn) if isinstance(c.func, ast.Attribute) and c.func.attr in ("get", "get_nowait") and norm(c.func.value) in qvars]
        ok = len(gets) == 1
        ctx.ob("C06.P1", q, ok, "the caller waits on its own response queue" if ok else f"{len(gets)} waits on the registered queue {sorted(qvars)}", key="own-queue", where=f.where)
        for g in gets:
            kw = {k.arg: k.value for k in g.keywords}
            timeout = g.args[1] if len(g.args) > 1 else kw.get("timeout")
            block = g.args[0] if g.args else kw.get("block")
            bounded = g.func.attr == "get" and timeout is not None and not (isinstance(timeout, ast.Constant) and timeout.value is None) and not (isinstance(block, ast.Constant) and block.value is False)
            ctx.ob("C06.P1", q, bounded, f"the wait is bounded by {norm(timeout)}" if bounded else f"`{norm(g)}` is not a blocking wait with a timeout: a missing reply blocks the caller forever (or the reply is never awaited)", key="bounded-wait", where=f.where)
            gn = next(n for n in cfg.real_nodes() if g in n.calls)
            ok = cfg.dominates(snd, gn)
            ctx.ob("C06.P1", q, ok, "the wait follows the send" if ok else "the wait does not follow the send", key="send-before-wait", where=f.where)
            # Empty is handled -> None
            handled = any("Empty" in h for caught in callgraph.enclosing_handlers(fn, g) for h in caught) or callgraph.broadly_guarded(fn, g)
            ctx.ob("C06.P1", q, handled, "a timeout yields None instead of an exception" if handled else "queue.Empty from the timed-out wait escapes to the caller", key="timeout-none", where=f.where)
            # what is returned
            resvars = set()
            if isinstance(gn.ast, ast.Assign):
                resvars = {t.id for t in gn.ast.targets if isinstance(t, ast.Name)}
            rets = [n for n in cfg.real_nodes() if isinstance(n.ast, ast.Return) and cfg.path_exists(gn, n)]
            ok = bool(rets) and all(r.ast.value is not None and (norm(r.ast.value) in resvars or r.ast.value is g or (isinstance(r.ast.value, ast.Constant) and r.ast.value.value is None)) for r in rets)
            ctx.ob("C06.P1", q, ok, "after the wait the caller gets exactly what its own queue delivered (or None)" if ok else f"returns after the wait: {[r.text() for r in rets]}", key="returns-own", where=f.where)
        # failed send: returns None after removing
        tests = rules.truthiness_tests(cfg, fn, next(c for c in snd.calls if call_name(c) == "self.send_message"))
        ok = bool(tests)
        ctx.ob("C06.P1", q, ok, "a failed send is detected" if ok else "the result of send_message is ignored", key="send-checked", where=f.where)
        # P1e: raising calls between registration and removal
        risky = []
        for n in cfg.real_nodes():
            if n is R or not cfg.path_exists(R, n) or n in rem:
                continue
            if not any(cfg.path_exists(n, r) for r in good_rem):
                continue
            for c in n.calls:
                cn = call_name(c) or ""
                why = None
                if cn == "self._create_message_for_function":
                    why = "builds the message by encoding the caller's function object (encode() raises for an unset or invalid item)"
                else:
                    rs = cg.call_raises(c, f) - {"NotImplementedError", "Empty"}
                    if rs:
                        why = f"can raise {sorted(rs)}"
                if why and not _in_try_finally_removing(fn, c, idvar):
                    risky.append((c, why))
        for c, why in risky:
            ctx.ob("C06.P1e", q, False, f"`{norm(c)}` runs between registration and removal and {why}: the exception leaves the response queue registered for ever", key=norm(c), where=f.where)
        if not risky:
            ctx.ob("C06.P1e", q, True, "no raising call between registration and removal", key="none", where=f.where)
        skeletons[q] = (cfg.dominates(R, snd), not leak, len(gets) == 1)
    ok = len(set(skeletons.values())) == 1
    ctx.ob("C06.P1", "request functions", ok, "the four request functions agree on the register/send/wait/remove skeleton" if ok else f"sibling request functions disagree: {skeletons}", key="siblings", where="secsgem/common/protocol.py")
    # helpers
    g = repo.method("Protocol", "_get_queue_for_system", inherited=False)
    ctx.touch(g)
    p = g.node.args.args[1].arg
    stores = [st for st in rules.func_stmts(g.node) if isinstance(st, ast.Assign) and norm(st.targets[0]) == f"self._response_queues[{p}]" and isinstance(st.value, ast.Call) and (call_name(st.value) or "").startswith("queue.")]
    rets = [st for st in rules.func_stmts(g.node) if isinstance(st, ast.Return)]
    ok = len(stores) == 1 and len(rets) == 1 and (norm(rets[0].value) == f"self._response_queues[{p}]" or isinstance(rets[0].value, ast.Name))
    ctx.ob("C06.P1", g.qualname, ok, "a fresh queue is stored under the system bytes and that same queue is returned" if ok else "the returned queue is not the one stored under the system bytes", where=g.where)
    r = repo.method("Protocol", "_remove_queue", inherited=False)
    p = r.node.args.args[1].arg
    dels = [st for st in rules.func_stmts(r.node) if (isinstance(st, ast.Delete) and norm(st.targets[0]) == f"self._response_queues[{p}]") or (isinstance(st, ast.Expr) and norm(st.value).startswith(f"self._response_queues.pop({p}"))]
    ok = len(dels) == 1
    ctx.ob("C06.P1", r.qualname, ok, "removal deletes exactly the entry of the given system bytes" if ok else "_remove_queue does not delete the entry of its argument", where=r.where)


def _in_try_finally_removing(fn, target, idvar) -> bool:
    found = []

    def rec(n, stack):
        if n is target:
            found.extend(stack)
            return True
        for field, value in ast.iter_fields(n):
            children = value if isinstance(value, list) else [value]
            for ch in children:
                if not isinstance(ch, ast.AST) or isinstance(ch, (ast.FunctionDef, ast.Lambda, ast.ClassDef)):
                    continue
                if rec(ch, stack + ([n] if isinstance(n, ast.Try) and field == "body" else [])):
                    return True
        return False

    rec(fn, [])
    for t in found:
        for st in t.finalbody:
            if any(call_name(c) == "self._remove_queue" for c in calls_in(st)):
                return True
        for h in t.handlers:
            if (h.type is None or norm(h.type) in ("Exception", "BaseException")) and any(call_name(c) == "self._remove_queue" for c in calls_in(h)):
                return True
    return False


def check_routing(ctx):
    repo = ctx.repo
    facts = {}
    for cname in ("HsmsProtocol", "SecsIProtocol"):
        f = repo.method(cname, "_on_connection_message_received", inherited=False)
        ctx.touch(f)
        q = f.qualname
        cfg = cfg_of(f.node)
        param = f.node.args.args[2].arg
        spawns = [c for c in calls_in(f.node) if (call_name(c) or "") in ("threading.Thread", "threading.Timer", "Thread", "Timer") or (call_name(c) or "").endswith(("executor.submit", "_thread.start_new_thread"))]
        ctx.ob("C06.P2", q, not spawns, "inbound messages are handled on the dispatcher thread" if not spawns else
               f"`{norm(spawns[0])[:90]}` hands an inbound message to a new thread: handlers of consecutive messages run concurrently and can finish out of order", key="no-spawn", where=f.where)
        routes = c05._routing_nodes(cfg)
        fires = [n for n in cfg.real_nodes() if any(c.endswith("events.fire") for c in n.call_names()) and "message_received" in n.text()]
        ctx.require(len(routes) == 1 and len(fires) == 1, f"{q}: expected one routing and one message_received statement (found {len(routes)}/{len(fires)})")
        R, F = routes[0], fires[0]
        key_ok = f"self._response_queues[{param}.header.system]" in R.text() and norm(next(c for c in R.calls if c05._is_route_call(c)).args[0]) == param
        ctx.ob("C06.P2", q, key_ok, "a reply is put into the queue registered under its own system bytes" if key_ok else f"`{R.text()}` does not route by the message's system bytes", key="route-key", where=f.where)
        rc = sorted((t, pol) for t, pol in cnd.facts(cfg, R) if "_response_queues" in t)
        fc = sorted((t, pol) for t, pol in cnd.facts(cfg, F) if "_response_queues" in t)
        guard = f"{param}.header.system in self._response_queues"
        ok = rc == [(guard, True)] and fc == [(guard, False)]
        ctx.ob("C06.P2", q, ok, "routed iff a requester is registered for the system bytes, otherwise handed to message_received" if ok else f"routing guards: route {rc}, event {fc} (expected `{guard}` True / False)", key="route-guard", where=f.where)
        excl = not cfg.path_exists(R, F) and not cfg.path_exists(F, R)
        ctx.ob("C06.P2", q, excl, "a message is either routed to a requester or handed to the application, never both" if excl else "a message can be both routed and fired", key="exclusive", where=f.where)
        facts[cname] = (key_ok, ok, excl)
    ok = facts["HsmsProtocol"] == facts["SecsIProtocol"]
    ctx.ob("C06.P2", "HsmsProtocol/SecsIProtocol", ok, "both protocols route identically" if ok else f"routing differs between the protocols: {facts}", key="siblings", where="secsgem")
    # dispatch: one message at a time, exceptions contained
    f = repo.method("Protocol", "_dispatch_block", inherited=False)
    ctx.touch(f)
    cfg = cfg_of(f.node)
    recv = [c for c in calls_in(f.node) if call_name(c) == "self._on_connection_message_received"]
    ok = len(recv) == 1 and callgraph.broadly_guarded(f.node, recv[0])
    ctx.ob("C06.W1", f.qualname, ok, "a raising message handler is contained (later messages are still delivered)" if ok else "an exception in the message handler escapes _dispatch_block", key="contained", where=f.where)
    add = [n for n in cfg.real_nodes() if any(c == "self._add_message_block" for c in n.call_names())]
    rn = [n for n in cfg.real_nodes() if any(c == "self._on_connection_message_received" for c in n.call_names())]
    ok = len(add) == 1 and len(rn) == 1 and cfg.dominates(add[0], rn[0])
    ok = ok and any(t.endswith(" is None") and not pol for t, pol in (cnd.facts(cfg, rn[0]) if rn else []))
    ctx.ob("C06.W1", f.qualname, ok, "only complete messages are handed on, each exactly once" if ok else "the completed message is not handed on exactly once after reassembly", key="complete-once", where=f.where)


def check_x1(ctx):
    """Shared with C05.P3: replies are routed before a raising transition."""
    sub = type(ctx)(ctx.prop, ctx.tier, ctx.seed, ctx.repo)
    c05.check_control(sub)
    for o in sub.obligations:
        if o["rule"] == "C05.P3" and "raise-before-route" in o["key"]:
            o = dict(o)
            o["rule"] = "C06.X1"
            ctx.obligations.append(o)


OWNED = {  # attribute -> the only functions that may bind it (per class that defines it)
    "_dispatch_queue": {"__init__"},
    "_send_queue": {"__init__"},
    "_receive_buffer": {"__init__"},
    "_response_queues": {"__init__"},
    "_incomplete_messages": {"__init__"},
    "_system_counter": {"__init__", "get_next_system_counter"},
}


def check_owners(ctx, rule="C06.P3"):
    """What survives a reconnect is created once: the queues, the receive buffer, the table of waiting requesters and the
    system-byte counter are bound in the constructor only (the counter also in its one advancing function).  A handler
    that re-creates one of them on connect/start drops queued blocks, waiting requesters or re-issues system bytes that
    are still outstanding."""
    repo = ctx.repo
    n = 0
    classes = [repo.cls("Protocol")] + repo.subclasses("Protocol") + [repo.cls("ProtocolDispatcher")]
    for cls in classes:
        for mname, m in cls.methods.items():
            for node in walk_no_nested(m.node):
                targets = []
                if isinstance(node, ast.Assign):
                    targets = [t for tt in node.targets for t in ([tt] if not isinstance(tt, (ast.Tuple, ast.List)) else tt.elts)]
                elif isinstance(node, (ast.AnnAssign, ast.AugAssign)):
                    targets = [node.target]
                for t in targets:
                    d = dotted(t) or ""
                    if d.startswith("self.") and d[5:] in OWNED:
                        n += 1
                        ctx.touch(m)
                        ok = mname in OWNED[d[5:]]
                        ctx.ob(rule, m.qualname, ok, f"{d} is bound by its owner" if ok else
                               f"`{norm(node)[:80]}` re-binds {d} outside {sorted(OWNED[d[5:]])}: what was queued / registered / counted before this point is lost "
                               "(blocks received before a reconnect are never delivered, a waiting requester gets no reply, system bytes of outstanding requests are issued again)",
                               key=f"owner {d} in {mname}", where=m.where)
    ctx.floor("bindings of long-lived protocol state", n, 6)
    # ... and each object has its own: a mutable class-level default for one of these names is one table / queue for every
    # protocol object of the process (two links then reassemble each other's blocks, answer each other's requesters)
    for cls in classes:
        for name, expr in cls.consts.items():
            if name in OWNED and (isinstance(expr, (ast.Dict, ast.List, ast.Set)) or (isinstance(expr, ast.Call) and (call_name(expr) or "").split(".")[-1] in ("dict", "list", "set", "Queue", "ByteQueue", "defaultdict"))):
                in_ctor = any(isinstance(x, (ast.Assign, ast.AnnAssign)) and any((dotted(t) or "") == f"self.{name}" for t in (x.targets if isinstance(x, ast.Assign) else [x.target]))
                              for k in cls.mro if "__init__" in k.methods for x in walk_no_nested(k.methods["__init__"].node))
                ctx.ob(rule, f"{cls.name}.{name}", in_ctor, f"{name} has a class-level default but every object binds its own in the constructor" if in_ctor else
                       f"`{name} = {norm(expr)}` at class level and no binding in the constructor: all {cls.name} objects of the process share one {name} - blocks, requesters or counters of one link are seen by another",
                       key=f"per-object {name}", where=cls.where)


def run(ctx):
    check_owners(ctx)
    check_counter(ctx)
    check_requests(ctx)
    check_routing(ctx)
    check_dispatcher(ctx, "C06.W1")
    check_x1(ctx)
    # a reply or an inbound message is handed on once only if its frame is cut from the byte stream exactly: complete
    # before it is consumed, the cursor on the next frame, no frame left behind (shared with C04.P1)
    from .. import report
    from .c04 import check_framing

    report.share(ctx, "C06.S1", check_framing)
    # on the serial line a queued request block is taken out of the queue only when it is about to be transferred and is
    # resolved exactly once - a block dropped on line contention leaves its requester without reply and without timeout
    # (shared with C17.P2)
    from .c17 import check_send

    report.share(ctx, "C06.S1", check_send)
