"""C10 - the TCP transport delivers every accepted byte exactly once and in order.

Decides the part the code controls: the use of socket.send's byte count, the error path, exact packet slicing and the
truth of the success report chain send_data -> resolve -> wait -> send_message.
"""

from __future__ import annotations

import ast

from ..cfg import cfg_of
from ..model import AnalysisError, call_name, calls_in, dotted, norm, walk_no_nested
from .. import normal, rules
from .. import conds as cnd

META = {
    "explanation": "Static dataflow/CFG rules on every Connection.send_data that writes to a non-blocking socket, on "
    "HsmsProtocol._process_send_queue, Protocol.send_message and BlockSendInfo: the byte count returned by "
    "socket.send must drive the resume offset and the loop exit, errors other than EWOULDBLOCK must yield False, "
    "packets must partition the block exactly, and success may be reported only if every part was written.",
    "decides": [
        "C10.P1 socket.send's return value flows into the next send's argument and into the loop exit; success only when nothing remains",
        "C10.P2 an OSError other than EWOULDBLOCK makes send_data return False (never True, never escape)",
        "C10.P3 packet slicing is an exact partition; resolve(True) only if every send_data was truthy; one resolve per block",
        "C10.P4 send_message reports True only if every block's wait() was truthy",
        "C10.P5 BlockSendInfo maps resolve(True/False) to wait() True/False",
        "C10.P6 no connection socket is configured for an abortive close (SO_LINGER on, timeout 0), which would discard bytes already reported as sent",
        "C10.W4 the reader suspension flag is lowered on every path on which it was raised (shared with C09.P5)",
        "C10.W3 the thread that drains the send queue is stopped on every path of the link-loss handler: the next link starts the only writer (shared with C09.P1)",
    ],
    "does_not_decide": ["kernel socket-buffer behaviour, the peer's pacing (the rule is on the use of the count, the only thing the code controls)"],
    "assumptions": ["socket.send returns the number of bytes accepted (stdlib contract)", "a socket made non-blocking with setblocking(0) stays non-blocking"],
}


def _is_socket_send(call: ast.Call, attr="send") -> bool:
    f = call.func
    return isinstance(f, ast.Attribute) and f.attr == attr and (dotted(f.value) or "").startswith("self._sock")


def _enclosing_loops(func_node, target):
    """While/For statements (outermost first) that contain `target`."""
    path = []

    def rec(n, stack):
        if n is target:
            path.extend(stack)
            return True
        for ch in ast.iter_child_nodes(n):
            if isinstance(ch, (ast.FunctionDef, ast.Lambda, ast.ClassDef)):
                continue
            if rec(ch, stack + ([n] if isinstance(n, (ast.While, ast.For)) else [])):
                return True
        return False

    rec(func_node, [])
    return path


def _enclosing_try(func_node, target):
    found = []

    def rec(n, stack):
        if n is target:
            found.extend(stack)
            return True
        for field, value in ast.iter_fields(n):
            children = value if isinstance(value, list) else [value]
            for ch in children:
                if not isinstance(ch, ast.AST) or isinstance(ch, (ast.FunctionDef, ast.Lambda, ast.ClassDef)):
                    continue
                in_body = isinstance(n, ast.Try) and field == "body"
                if rec(ch, stack + ([n] if in_body else [])):
                    return True
        return False

    rec(func_node, [])
    return found


def _tail_exit_to_flag(fn):
    """`while True: BODY; if done: return V` (the test is the last statement of the loop, `done` a local flag assigned in
    BODY, nothing follows the loop) is the do-while `retry = True; while retry: BODY'; return V` with `retry = not done`
    written where `done` was assigned - the form the send-loop rules read.  Anything else is left as it is."""
    import copy

    for owner, field, lst in normal._stmt_lists(fn):
        for i, st in enumerate(lst):
            if not (isinstance(st, ast.While) and isinstance(st.test, ast.Constant) and st.test.value is True and not st.orelse and st.body):
                continue
            tail = st.body[-1]
            if not (isinstance(tail, ast.If) and not tail.orelse and len(tail.body) == 1 and isinstance(tail.body[0], (ast.Return, ast.Break)) and isinstance(tail.test, ast.Name)):
                continue
            by_break = isinstance(tail.body[0], ast.Break)  # `if done: break` - what follows the loop stays where it is
            if not by_break and i != len(lst) - 1:
                continue
            if any(isinstance(n, (ast.Break, ast.Continue)) and n is not tail.body[0] for n in ast.walk(st)):
                continue
            done = tail.test.id
            uses = [n for n in ast.walk(fn) if isinstance(n, ast.Name) and n.id == done]
            assigns = [n for n in ast.walk(st) if isinstance(n, ast.Assign) and len(n.targets) == 1 and isinstance(n.targets[0], ast.Name) and n.targets[0].id == done]
            if len(uses) != len(assigns) + 1 or not assigns:
                continue  # the flag is read elsewhere too
            flag = "_retry"

            def negated(e):
                if isinstance(e, ast.Constant) and isinstance(e.value, bool):
                    return ast.Constant(value=not e.value)
                if isinstance(e, ast.Compare) and len(e.ops) == 1 and isinstance(e.comparators[0], ast.Constant) and e.comparators[0].value == 0 and isinstance(e.ops[0], (ast.Eq, ast.LtE)) \
                        and isinstance(e.left, ast.Call) and isinstance(e.left.func, ast.Name) and e.left.func.id == "len":
                    return ast.Compare(left=e.left, ops=[ast.Gt()], comparators=[ast.Constant(value=0)])  # a length is never negative
                if isinstance(e, ast.Compare) and len(e.ops) == 1:
                    inv = {ast.Eq: ast.NotEq, ast.NotEq: ast.Eq, ast.Lt: ast.GtE, ast.GtE: ast.Lt, ast.Gt: ast.LtE, ast.LtE: ast.Gt}.get(type(e.ops[0]))
                    if inv is not None:
                        return ast.Compare(left=e.left, ops=[inv()], comparators=e.comparators)
                if isinstance(e, ast.UnaryOp) and isinstance(e.op, ast.Not):
                    return e.operand
                return ast.UnaryOp(op=ast.Not(), operand=e)

            for a in assigns:
                a.targets[0].id = flag
                a.value = negated(a.value)
            st.body = st.body[:-1]
            st.test = ast.Name(id=flag, ctx=ast.Load())
            lst.insert(i, ast.Assign(targets=[ast.Name(id=flag, ctx=ast.Store())], value=ast.Constant(value=True)))
            ast.copy_location(lst[i], st)
            if not by_break:
                lst.append(copy.deepcopy(tail.body[0]))
                ast.copy_location(lst[-1], st)
            ast.fix_missing_locations(fn)
            return fn
    return fn


def check_send_data(ctx, cls, func):
    fn = normal.normalised(ctx, func, aliases=False, comps=False, ifexp=False)  # loop shapes (while True / do-while flag) in one form
    fn = _tail_exit_to_flag(fn)
    q = func.qualname
    ctx.touch(func)
    sends = [c for c in calls_in(fn) if _is_socket_send(c)]
    sendalls = [c for c in calls_in(fn) if _is_socket_send(c, "sendall")]
    for c in sendalls:
        ctx.ob("C10.P1", q, False, "sendall on a non-blocking socket loses the write position on EWOULDBLOCK; a retry duplicates or drops bytes",
               key=norm(c), where=func.where)
    if not sends and not sendalls:
        raise AnalysisError(f"{q}: no socket.send call found - unknown send idiom")
    cfg = cfg_of(fn)
    # the wait before a write asks select for *writability* of this socket and reads the writable list of the answer
    for node in walk_no_nested(fn):
        if isinstance(node, ast.Subscript) and isinstance(node.value, ast.Call) and call_name(node.value) == "select.select" and len(node.value.args) >= 2:
            sel = node.value
            wset = sel.args[1]
            ok = isinstance(wset, (ast.List, ast.Tuple)) and any("_sock" in norm(e) for e in wset.elts) and rules.literal(fn, node.slice) == (True, 1)
            ctx.ob("C10.P1", q, ok, "the send loop waits until the socket is writable" if ok else
                   f"`{norm(node)[:90]}` does not wait for writability of the socket (write set / element 1 of select's answer): the loop spins for ever or writes into a full buffer", key="waits-writable", where=func.where)
    for S in sends:
        key = norm(S)
        stmt = next((n for n in cfg.real_nodes() if S in n.calls), None)
        ctx.require(stmt is not None, f"{q}: send call not in CFG")
        discarded = isinstance(stmt.ast, ast.Expr) and stmt.ast.value is S
        ctx.ob("C10.P1", q, not discarded,
               "the byte count returned by socket.send is used" if not discarded else
               "the byte count returned by socket.send is discarded: a partial write on the non-blocking socket is reported as success",
               key="count-used " + key, where=func.where)
        if discarded:
            continue
        tainted = rules.taint(fn, lambda n: n is S)
        arg_ok = bool(S.args) and rules.expr_depends_on(S.args[0], tainted)
        ctx.ob("C10.P1", q, arg_ok,
               "the argument of the next socket.send derives from the previous count (resume after the accepted bytes)" if arg_ok else
               f"the data passed to socket.send ({norm(S.args[0]) if S.args else '?'}) does not depend on the count of the previous send: after a partial write the same bytes are resent or the rest is never sent",
               key="resume " + key, where=func.where, tainted=sorted(tainted))
        loops = _enclosing_loops(fn, S)
        if not loops:
            ctx.ob("C10.P1", q, False, "socket.send is not inside a retry loop: a partial write cannot be completed", key="loop " + key, where=func.where)
            continue
        loop = loops[0]
        ctx.require(isinstance(loop, ast.While), f"{q}: outer send loop is not a while loop - unknown idiom")
        has_break = any(isinstance(n, ast.Break) for n in walk_no_nested(loop) if _enclosing_loops(fn, n)[:1] == [loop] and len(_enclosing_loops(fn, n)) == 1)
        ctx.require(not has_break, f"{q}: send loop uses break - exit idiom not in the table")
        test = loop.test
        ctx.require(not (isinstance(test, ast.Constant) and test.value), f"{q}: the send loop is `while {norm(test)}` and ends from its body - exit idiom not in the table")
        dep = rules.expr_depends_on(test, tainted)
        ctx.ob("C10.P1", q, dep,
               "the retry loop's exit depends on the count returned by socket.send" if dep else
               f"the retry loop condition `{norm(test)}` does not depend on how many bytes socket.send accepted",
               key="exit-dep " + key, where=func.where)
        if dep:
            exact = _exit_is_exact(fn, loop, test, tainted, S)
            ctx.ob("C10.P1", q, exact is True,
                   "the loop ends exactly when no byte remains" if exact is True else
                   f"the loop condition `{norm(test)}` can end the loop while unsent bytes remain (or the idiom is off by one)",
                   key="exit-exact " + key, where=func.where)
        # success only after the loop ended normally
        test_node = next(n for n in cfg.nodes if n.kind == "test" and n.ast is test)
        false_marker = rules.branch_marker(test_node, "false")
        for r in cfg.real_nodes():
            if isinstance(r.ast, ast.Return) and r.ast.value is not None and not (isinstance(r.ast.value, ast.Constant) and not r.ast.value.value):
                ok = cfg.dominates(false_marker, r)
                ctx.ob("C10.P1", q, ok,
                       "a truthy return is reached only through the normal end of the send loop" if ok else
                       f"`{r.text()}` is reachable without the send loop having finished",
                       key="success-after-loop " + r.text(), where=func.where)
        # the count applied to the buffer is the one of THIS pass: after a send that raised (EWOULDBLOCK) no old count is re-applied
        trims = [n for n in cfg.real_nodes() if isinstance(n.ast, (ast.Assign, ast.AugAssign)) and S.args and any(norm(t_) == norm(S.args[0]) for t_ in rules.assigned_targets(n.ast)) and rules.expr_depends_on(n.ast.value, tainted) and S not in n.calls]
        send_node = next(n for n in cfg.real_nodes() if S in n.calls)
        head_nodes = [n for n in cfg.nodes if n.kind == "test" and n.ast is loop.test]
        hnodes = [n for n in cfg.nodes if n.kind == "handler" and any(n.ast is h for t in _enclosing_try(fn, S) for h in t.handlers)]
        count_vars = {t_.id for n in [send_node] if isinstance(n.ast, ast.Assign) for t_ in n.ast.targets if isinstance(t_, ast.Name)}
        resets = [n for n in cfg.real_nodes() if n is not send_node and isinstance(n.ast, ast.Assign) and any(isinstance(t_, ast.Name) and t_.id in count_vars for t_ in n.ast.targets)]
        stale = [t_ for t_ in trims for h in hnodes if cfg.path_exists(h, t_, avoid=head_nodes + resets + [send_node])]
        ctx.ob("C10.P1", q, not stale, "the buffer is advanced only by the count of the send that just succeeded" if not stale else
               f"`{stale[0].text()}` is also reached from the exception handler of the send: after a send that raised (EWOULDBLOCK) the count of the previous partial write is applied again - bytes are skipped, the call still returns True",
               key="count-fresh " + key, where=func.where)
        # the first pass is always made, and the normal end of the loop is reported as success
        if isinstance(test, ast.Name):
            inits = [n for n in cfg.real_nodes() if isinstance(n.ast, ast.Assign) and any(isinstance(t_, ast.Name) and t_.id == test.id for t_ in n.ast.targets) and cfg.dominates(n, test_node) and not cfg.path_exists(test_node, n)]
            ok = bool(inits) and all(isinstance(n.ast.value, ast.Constant) and bool(n.ast.value.value) for n in inits)
            ctx.ob("C10.P1", q, ok, "the send loop is entered at least once" if ok else
                   f"the loop flag `{test.id}` is not initialised to a true constant: the loop body may never run, nothing is written and the call still reports success",
                   key="enters-loop " + key, where=func.where)
        after = [r for r in cfg.real_nodes() if isinstance(r.ast, ast.Return) and cfg.dominates(false_marker, r)]
        ok = bool(after) and all(isinstance(r.ast.value, ast.Constant) and r.ast.value.value is True for r in after)
        ctx.ob("C10.P1", q, ok, "when every byte was accepted the call returns True" if ok else
               f"after the send loop ended normally the call returns {[r.text() for r in after] or 'nothing'}: a completely written block is reported as failed (the sender resends or aborts the message)",
               key="success-value " + key, where=func.where)
        # ---------------- P2 error path
        tries = _enclosing_try(fn, S)
        handlers = []
        for t in tries:
            for h in t.handlers:
                tn = norm(h.type) if h.type is not None else ""
                if tn in ("", "OSError", "Exception", "BaseException", "socket.error", "IOError", "EnvironmentError") or "OSError" in tn:
                    handlers.append(h)
        ctx.ob("C10.P2", q, bool(handlers),
               "socket.send is guarded by a handler for OSError" if handlers else
               "an OSError from socket.send escapes send_data: the block is never resolved and the sender waits forever instead of getting False",
               key="guard " + key, where=func.where)
        for h in handlers[:1]:
            _check_error_handler(ctx, func, cfg, h, tainted, key)


def _exit_is_exact(fn, loop, test, tainted, S):
    """Loop continues while `test`; decide whether not-test implies 'nothing remains'."""
    if isinstance(test, ast.BoolOp) and isinstance(test.op, ast.And):
        # the loop ends as soon as ONE conjunct is false: every conjunct must be an exact remaining-bytes test,
        # otherwise the loop can end early and the constant success return that follows it is wrong
        verdicts = []
        for part in test.values:
            if not rules.expr_depends_on(part, tainted):
                verdicts.append(False)  # e.g. `and not self._stop_thread`: ends the loop with bytes remaining
            else:
                verdicts.append(_exit_is_exact(fn, loop, part, tainted, S))
        return all(v is True for v in verdicts)
    # idiom 1: flag variable assigned from an emptiness test of the remaining buffer
    if isinstance(test, ast.Name):
        flag = test.id
        assigns = [st for st in rules.func_stmts(loop) if isinstance(st, ast.Assign) and any(isinstance(t, ast.Name) and t.id == flag for t in st.targets)]
        if not assigns:
            return None
        verdicts = []
        for a in assigns:
            if isinstance(a.value, ast.Constant):
                # constant True keeps looping (fine); constant False ends the loop regardless of the count
                verdicts.append(bool(a.value.value))
                continue
            if any(isinstance(h, ast.ExceptHandler) and any(x is a for x in ast.walk(h)) for h in ast.walk(loop)):
                # in the error handler nothing was sent: any value but True can end the loop normally with bytes remaining
                verdicts.append(False)
                continue
            bufs = {d for d in tainted}
            rec, exact = rules.cond_is_emptiness_continue(a.value, bufs)
            if not rec:
                rec, exact = _offset_test(a.value, tainted, loop, a)
            if not rec:
                raise AnalysisError(f"send loop flag assignment `{norm(a)}` is not a recognised remaining-bytes test")
            verdicts.append(exact)
        return all(verdicts)
    rec, exact = rules.cond_is_emptiness_continue(test, set(tainted))
    if not rec:
        rec, exact = _offset_test(test, tainted, loop, None)
    if not rec:
        raise AnalysisError(f"send loop condition `{norm(test)}` is not a recognised remaining-bytes test")
    return exact


def _offset_test(test, tainted, loop=None, at=None):
    """`offset < len(data)` / `offset != len(data)` / `len(data) > offset` with offset tainted by the count.

    Two readings of the same spelling: `offset` accumulates the counts and `data` stays whole (exact), or `offset` is the
    count of this pass and `data` is the trimmed rest - then the test is exact only where it is evaluated BEFORE the
    trim of the same pass (count < len(what was offered)); after the trim it compares the count with what is left."""
    if isinstance(test, ast.Compare) and len(test.ops) == 1:
        left, op, right = test.left, test.ops[0], test.comparators[0]
        if loop is not None:
            off = left if isinstance(left, ast.Name) else right if isinstance(right, ast.Name) else None
            lens = right if off is left else left
            if off is not None and isinstance(lens, ast.Call) and dotted(lens.func) == "len" and len(lens.args) == 1 and off.id in tainted:
                buf = norm(lens.args[0])
                stmts = list(rules.func_stmts(loop))
                accumulates = any((isinstance(st, ast.AugAssign) and isinstance(st.op, ast.Add) and norm(st.target) == off.id) or
                                  (isinstance(st, ast.Assign) and any(norm(t) == off.id for t in st.targets) and isinstance(st.value, ast.BinOp) and isinstance(st.value.op, ast.Add)
                                   and off.id in (norm(st.value.left), norm(st.value.right))) for st in stmts)
                trims = [st for st in stmts if isinstance(st, (ast.Assign, ast.AugAssign)) and any(norm(t) == buf for t in rules.assigned_targets(st))]
                if accumulates and trims:
                    return True, False  # a growing offset against a shrinking rest
                if not accumulates and trims:
                    if at is None:
                        return True, False  # the loop condition is evaluated after the trim of the pass
                    before = all(_same_list_before(loop, at, t) for t in trims)
                    return True, before and isinstance(op, (ast.Lt, ast.NotEq) if off is left else (ast.Gt, ast.NotEq))
                if not accumulates and not trims:
                    raise AnalysisError(f"send loop test `{norm(test)}`: `{off.id}` neither accumulates nor is `{buf}` trimmed - unknown idiom")

        def is_len(e):
            return isinstance(e, ast.Call) and dotted(e.func) == "len" and len(e.args) == 1

        def is_off(e):
            return isinstance(e, ast.Name) and e.id in tainted

        if is_off(left) and is_len(right):
            return True, isinstance(op, (ast.Lt, ast.NotEq))
        if is_len(left) and is_off(right):
            return True, isinstance(op, (ast.Gt, ast.NotEq))
    return False, False


def _same_list_before(loop, first, second) -> bool:
    """Both statements sit in one statement list of the loop and `first` comes before `second`."""
    for node in ast.walk(loop):
        for field in ("body", "orelse", "finalbody"):
            lst = getattr(node, field, None)
            if isinstance(lst, list) and first in lst and second in lst:
                return lst.index(first) < lst.index(second)
    return False


def _check_error_handler(ctx, func, cfg, handler, tainted, key):
    q = func.qualname
    hnode = next(n for n in cfg.nodes if n.kind == "handler" and n.ast is handler)
    inside = [n for n in cfg.real_nodes() if n is not hnode and _within(handler, n.ast)]
    ret_false = []
    bad = []
    for n in inside:
        a = n.ast
        if isinstance(a, ast.Return):
            if isinstance(a.value, ast.Constant) and a.value.value is False:
                ret_false.append(n)
            else:
                bad.append((n, "returns a value other than False from the error path"))
        elif isinstance(a, ast.Break):
            bad.append((n, "breaks out of the retry loop on an error (falls through to the success return)"))
        elif isinstance(a, ast.Raise):
            bad.append((n, "re-raises: the block is never resolved and the sender waits forever instead of getting False"))
        elif isinstance(a, (ast.Assign, ast.AugAssign)):
            for t in rules.assigned_targets(a):
                d = dotted(t)
                if d in tainted and isinstance(getattr(a, "value", None), ast.Constant) and not a.value.value:
                    bad.append((n, f"clears the loop control `{d}` on an error: the loop ends and success is reported"))
    for n, why in bad:
        ctx.ob("C10.P2", q, False, f"error handler {why}", key=n.text(), where=func.where)
    # the return False must be taken exactly when the error is not EWOULDBLOCK
    good = False
    for r in ret_false:
        conds = [(t, v) for t, v in cfg.dominating_conditions(r) if _within(handler, t)]
        if not conds:
            # unconditional `return False` in the handler: EWOULDBLOCK is not retried -> a full socket buffer fails the send; that
            # is a failure report, which the property allows.
            good = True
            continue
        for t, v in conds:
            pol = _ewouldblock_polarity(t)
            if pol is None:
                continue
            # pol = truth value of the test when the error IS ewouldblock
            if v != pol:
                good = True
    ctx.ob("C10.P2", q, good and not bad,
           "an OSError other than EWOULDBLOCK returns False" if good else
           "no `return False` is taken for an OSError that is not EWOULDBLOCK: the error is swallowed and the loop retries forever or reports success",
           key="nonblocking-error " + key, where=func.where)


def _within(outer, inner) -> bool:
    return any(n is inner for n in ast.walk(outer))


def _ewouldblock_polarity(test):
    """Truth value of `test` when the error is EWOULDBLOCK; None if the test is about something else."""
    neg = False
    t = test
    while isinstance(t, ast.UnaryOp) and isinstance(t.op, ast.Not):
        neg = not neg
        t = t.operand
    if isinstance(t, ast.Call) and (dotted(t.func) or "").endswith("is_errorcode_ewouldblock"):
        return not neg
    if isinstance(t, ast.Compare) and len(t.ops) == 1:
        txt = norm(t)
        if "EWOULDBLOCK" in txt or "EAGAIN" in txt:
            op = t.ops[0]
            if isinstance(op, (ast.Eq, ast.In)):
                return not neg
            if isinstance(op, (ast.NotEq, ast.NotIn)):
                return neg
    return None


def check_helper(ctx):
    f = ctx.repo.module_func("secsgem.common.helpers", "is_errorcode_ewouldblock")
    ctx.touch(f)
    rets = [n for n in rules.func_stmts(f.node) if isinstance(n, ast.Return)]
    ctx.require(len(rets) == 1, "is_errorcode_ewouldblock: more than one return - unknown shape")
    v = rets[0].value
    ok = False
    members = set()
    if isinstance(v, ast.Compare) and len(v.ops) == 1 and isinstance(v.ops[0], (ast.In, ast.Eq)) and norm(v.left) == f.node.args.args[0].arg:
        rhs = v.comparators[0]
        elts = rhs.elts if isinstance(rhs, (ast.Tuple, ast.List, ast.Set)) else [rhs]
        members = {norm(e) for e in elts}
        ok = "errno.EWOULDBLOCK" in members and members <= {"errno.EWOULDBLOCK", "errno.EAGAIN"}
    ctx.ob("C10.P2", f.qualname, ok,
           "is_errorcode_ewouldblock is true exactly for EAGAIN/EWOULDBLOCK" if ok else
           f"is_errorcode_ewouldblock accepts {sorted(members)}: other errors would be retried as if the buffer were full",
           where=f.where, members=sorted(members))


def _all_to_loop(fn):
    """`ok = all(CALL(v) for v in L); REST` (a generator, so the calls stop at the first falsy result; `ok` is read only in
    REST, and REST with `ok = False` ends in a return) is the loop the packet rules read:
    `for v in L: if not CALL(v): REST[ok := False]` followed by `REST[ok := True]`, with the tests of the constant folded."""
    import copy

    def fold(stmts, name, value):
        class Sub(ast.NodeTransformer):
            def visit_Name(self, node):
                if node.id == name and isinstance(node.ctx, ast.Load):
                    return ast.copy_location(ast.Constant(value=value), node)
                return node

        out = []
        for st in stmts:
            st = Sub().visit(copy.deepcopy(st))
            if isinstance(st, ast.If):
                t = st.test
                neg = isinstance(t, ast.UnaryOp) and isinstance(t.op, ast.Not)
                c = t.operand if neg else t
                if isinstance(c, ast.Constant) and isinstance(c.value, bool):
                    out.extend(st.body if (c.value != neg) else st.orelse)
                    continue
            out.append(st)
        return out

    for owner, field, lst in normal._stmt_lists(fn):
        for i, st in enumerate(lst):
            if not (isinstance(st, ast.Assign) and len(st.targets) == 1 and isinstance(st.targets[0], ast.Name) and isinstance(st.value, ast.Call) and isinstance(st.value.func, ast.Name)
                    and st.value.func.id == "all" and len(st.value.args) == 1 and isinstance(st.value.args[0], ast.GeneratorExp)):
                continue
            gen = st.value.args[0]
            if len(gen.generators) != 1 or gen.generators[0].ifs or gen.generators[0].is_async or not isinstance(gen.elt, ast.Call):
                continue
            name = st.targets[0].id
            rest = lst[i + 1:]
            uses = [n for n in ast.walk(fn) if isinstance(n, ast.Name) and n.id == name]
            inside = [n for r in rest for n in ast.walk(r) if isinstance(n, ast.Name) and n.id == name]
            if len(uses) != len(inside) + 1 or any(isinstance(n.ctx, ast.Store) for n in inside):
                continue
            failed, passed = fold(rest, name, False), fold(rest, name, True)
            if not failed or not isinstance(failed[-1], ast.Return):
                continue
            test = ast.UnaryOp(op=ast.Not(), operand=gen.elt)
            loop = ast.For(target=gen.generators[0].target, iter=gen.generators[0].iter, body=[ast.If(test=test, body=failed, orelse=[])], orelse=[])
            ast.copy_location(loop, st)
            setattr(owner, field, lst[:i] + [loop] + passed)
            ast.fix_missing_locations(fn)
            return fn
    return fn


def check_process_send_queue(ctx):
    repo = ctx.repo
    func = repo.method("HsmsProtocol", "_process_send_queue", inherited=False)
    ctx.touch(func)
    fn = normal.normalised(ctx, func, comps=False, ifexp=False, aliases=False)
    fn = _all_to_loop(fn)
    normal.append_loops_to_comprehensions(fn)
    q = func.qualname
    cfg = cfg_of(fn)
    parts = rules.find_partitions(fn)
    ctx.require(len(parts) >= 1, f"{q}: no chunking comprehension found - unknown packet idiom")
    for node, facts in parts:
        ctx.ob("C10.P3", q, facts["ok"],
               "packets partition the block exactly (start 0, stop len, slice width = range step)" if facts["ok"] else
               "packet slicing is not an exact partition: " + "; ".join(facts["why"]),
               key="partition", where=func.where, **{k: v for k, v in facts.items() if k not in ("ok", "why")})
        step = facts.get("step") or ""
        if step.startswith("self."):
            val = repo.const("HsmsProtocol", step.split(".", 1)[1])
            ctx.ob("C10.P3", q, isinstance(val, int) and val > 0, f"packet size constant {step} = {val} is a positive integer", key="packet-size", where=func.where, value=val)
    # which variable holds the packets; iteration order
    part_vars = set()
    for st in rules.func_stmts(fn):
        if isinstance(st, ast.Assign) and any(st.value is p for p, _ in parts):
            part_vars |= {t.id for t in st.targets if isinstance(t, ast.Name)}
    fors = [st for st in rules.func_stmts(fn) if isinstance(st, ast.For)]
    sd_calls = [c for c in calls_in(fn) if (call_name(c) or "").endswith("send_data")]
    ctx.require(bool(sd_calls), f"{q}: no send_data call")
    for c in sd_calls:
        inside_comp = any(isinstance(x, (ast.GeneratorExp, ast.ListComp, ast.SetComp, ast.DictComp)) and any(y is c for y in ast.walk(x)) for x in ast.walk(fn))
        ctx.require(not inside_comp, f"{q}: send_data is called from inside a comprehension / generator (`all(send_data(p) for p in packets)`): how its results decide resolve() is not in the table of idioms")
        loops = _enclosing_loops(fn, c)
        floop = next((l for l in loops if isinstance(l, ast.For)), None)
        in_order = False
        if floop is not None and isinstance(floop.target, ast.Name) and c.args and isinstance(c.args[0], ast.Name) and c.args[0].id == floop.target.id:
            it = floop.iter
            in_order = (isinstance(it, ast.Name) and it.id in part_vars) or any(it is p for p, _ in parts)
        elif floop is not None and any(p is floop and any(x is fx.get("inline_slice") for x in ast.walk(c.args[0])) for p, fx in parts if c.args):
            in_order = True  # the loop over the offsets hands each slice to send_data as it cuts it
        ctx.ob("C10.P3", q, in_order,
               "each packet is passed to send_data once, in slicing order" if in_order else
               f"send_data({norm(c.args[0]) if c.args else ''}) is not fed from an in-order iteration over the packet list",
               key="order " + norm(c), where=func.where)
        if in_order and isinstance(floop.iter, ast.Name):
            # ... and the list is not changed while it is iterated (removing the current element makes the iterator skip the next)
            lst = floop.iter.id
            touched = [x for b in floop.body for x in ast.walk(b)
                       if (isinstance(x, ast.Call) and isinstance(x.func, ast.Attribute) and isinstance(x.func.value, ast.Name) and x.func.value.id == lst
                           and x.func.attr in ("remove", "pop", "insert", "append", "extend", "clear", "sort", "reverse"))
                       or (isinstance(x, ast.Subscript) and isinstance(x.ctx, (ast.Store, ast.Del)) and isinstance(x.value, ast.Name) and x.value.id == lst)
                       or (isinstance(x, ast.Name) and x.id == lst and isinstance(x.ctx, (ast.Store, ast.Del)))]
            ctx.ob("C10.P3", q, not touched, "the packet list is not changed while it is iterated" if not touched else
                   f"`{norm(touched[0])[:60]}` changes the packet list inside the loop over it: the iterator skips packets, the block is still resolved as sent", key="order-stable " + norm(c), where=func.where)
        tests = rules.truthiness_tests(cfg, fn, c)
        stmt = next(n for n in cfg.real_nodes() if c in n.calls)
        if not tests:
            ctx.ob("C10.P3", q, False, "the result of send_data is not examined: a failed write is reported as success", key="checked " + norm(c), where=func.where)
            continue
        res_true = [n for n in cfg.real_nodes() if any((call_name(k) or "").endswith(".resolve") and k.args and isinstance(k.args[0], ast.Constant) and k.args[0].value is True for k in n.calls)]
        res_false = [n for n in cfg.real_nodes() if any((call_name(k) or "").endswith(".resolve") and k.args and isinstance(k.args[0], ast.Constant) and k.args[0].value is False for k in n.calls)]
        for tnode, falsy in tests:
            fail_marker = rules.branch_marker(tnode, falsy)
            leak = any(cfg.path_exists(fail_marker, rt, avoid=[tnode]) for rt in res_true)
            reaches_false = any(cfg.path_exists(fail_marker, rf, avoid=[tnode]) for rf in res_false)
            ctx.ob("C10.P3", q, not leak and reaches_false,
                   "a falsy send_data leads to resolve(False) and never to resolve(True)" if (not leak and reaches_false) else
                   "after a failed send_data the block can still be resolved True (or is not resolved False)",
                   key="failure-path " + norm(c), where=func.where)
    # exactly one resolve and one dequeue per loop iteration
    whiles = [n for n in cfg.nodes if n.kind == "test" and n.label == "while"]
    ctx.require(len(whiles) >= 1, f"{q}: no drain loop")
    head = whiles[0]
    # a queued block is always worked on: nothing returns before the drain loop unless the queue is empty
    early = [r for r in cfg.real_nodes() if isinstance(r.ast, ast.Return) and not cfg.path_exists(head, r)]
    bad_early = [r for r in early if ("self._send_queue.empty()", True) not in cnd.facts(cfg, r)]
    ctx.ob("C10.P3", q, not bad_early, "the function returns before the drain loop only when the send queue is empty" if not bad_early else
           f"`return` before the drain loop under {cnd.describe(cfg, bad_early[0]) or 'no condition'}: queued blocks are never written and their senders wait for ever", key="early-return-empty", where=func.where)
    # a block whose packets were all written is reported as sent
    res_true_all = [n for n in cfg.real_nodes() if any((call_name(k) or "").endswith(".resolve") and k.args and rules.literal(fn, k.args[0]) == (True, True) for k in n.calls)]
    fail_markers = []
    for c in sd_calls:
        for tnode, falsy in rules.truthiness_tests(cfg, fn, c):
            fail_markers.append(rules.branch_marker(tnode, falsy))
    ok = bool(res_true_all) and any(cfg.path_exists(rules.branch_marker(head, "true"), rt, avoid=fail_markers) for rt in res_true_all)
    ctx.ob("C10.P3", q, ok, "a block whose packets were all accepted is resolved True" if ok else
           "no resolve(True) is reached when every packet was written: a delivered block is reported as failed (the sender aborts or repeats the message)", key="success-resolved", where=func.where)
    is_resolve = lambda n: any((x or "").endswith(".resolve") for x in n.call_names())  # noqa: E731
    counts = cfg.loop_iteration_counts(head, is_resolve, no_exc=True)
    ok = all(v == (1, 1) for v in counts.values()) and bool(counts)
    ctx.ob("C10.P3", q, ok,
           "exactly one resolve per dequeued block on every path of a drain-loop iteration" if ok else
           f"resolve calls per drain-loop iteration are {counts}, not exactly one on every path (a sender would wait forever or be answered twice)",
           key="one-resolve", where=func.where, counts=str(counts))
    is_get = lambda n: any((x or "").endswith("_send_queue.get") or (x or "").endswith("_send_queue.get_nowait") for x in n.call_names())  # noqa: E731
    counts = cfg.loop_iteration_counts(head, is_get, no_exc=True)
    ok = all(v == (1, 1) for v in counts.values()) and bool(counts)
    ctx.ob("C10.P3", q, ok, "exactly one block is dequeued per drain-loop iteration" if ok else f"dequeues per iteration: {counts}",
           key="one-dequeue", where=func.where)
    # the send queue is FIFO
    init = repo.method("Protocol", "__init__", inherited=False)
    ctor = None
    for st in rules.func_stmts(init.node):
        if isinstance(st, (ast.Assign, ast.AnnAssign)):
            tg = rules.assigned_targets(st)
            if any(dotted(t) == "self._send_queue" for t in tg) and isinstance(st.value, ast.Call):
                ctor = call_name(st.value)
    ctx.ob("C10.P3", "Protocol.__init__", ctor in ("queue.Queue", "queue.SimpleQueue"),
           f"the send queue is a FIFO ({ctor})" if ctor in ("queue.Queue", "queue.SimpleQueue") else f"the send queue is {ctor}, not a FIFO queue: blocks can overtake each other",
           key="fifo", where=init.where)


def check_send_message(ctx):
    repo = ctx.repo
    func = repo.method("Protocol", "send_message", inherited=False)
    ctx.touch(func)
    fn = func.node
    q = func.qualname
    cfg = cfg_of(fn)
    waits = [c for c in calls_in(fn) if (call_name(c) or "").endswith(".wait")]
    ctx.require(len(waits) >= 1, f"{q}: no wait() on the block send info")
    truthy_returns = [n for n in cfg.real_nodes() if isinstance(n.ast, ast.Return) and not (isinstance(n.ast.value, ast.Constant) and not n.ast.value.value) and n.ast.value is not None]
    for c in waits:
        tests = rules.truthiness_tests(cfg, fn, c)
        if not tests:
            # `return wait()` is fine for a single block, `return all(info.wait() for ...)` for many; anything else is unchecked
            stmt = next(n for n in cfg.real_nodes() if c in n.calls)
            ok = isinstance(stmt.ast, ast.Return) and stmt.ast.value is c and not cfg.in_loop(stmt)
            if isinstance(stmt.ast, ast.Return) and isinstance(stmt.ast.value, ast.Call) and call_name(stmt.ast.value) == "all" and stmt.ast.value.args and isinstance(stmt.ast.value.args[0], (ast.GeneratorExp, ast.ListComp)) and stmt.ast.value.args[0].elt is c:
                ok = True
            ctx.ob("C10.P4", q, ok, "the result of wait() decides the return value" if ok else "the result of BlockSendInfo.wait() is ignored: a failed block is reported as sent",
                   key="checked " + norm(c), where=func.where)
            continue
        for tnode, falsy in tests:
            fail_marker = rules.branch_marker(tnode, falsy)
            leak = [r for r in truthy_returns if cfg.path_exists(fail_marker, r, avoid=[tnode])]
            ctx.ob("C10.P4", q, not leak,
                   "a failed block never leads to a truthy return" if not leak else f"after a failed block `{leak[0].text()}` is still reachable",
                   key="failure-path " + norm(c), where=func.where)
    # every block is queued and awaited: the put and the wait are inside the loop over message.blocks
    fors = [st for st in rules.func_stmts(fn) if isinstance(st, ast.For)]
    over_blocks = [f for f in fors if norm(f.iter).endswith(".blocks")]
    comps = [n for n in walk_no_nested(fn) if isinstance(n, (ast.ListComp, ast.GeneratorExp)) and norm(n.generators[0].iter).endswith(".blocks")]
    ctx.ob("C10.P4", q, bool(over_blocks or comps), "blocks are sent by iterating message.blocks in order" if (over_blocks or comps) else "send_message does not iterate message.blocks",
           key="iterates-blocks", where=func.where)
    if not over_blocks:
        return  # comprehension idiom: queueing/await order is a C17 concern (multi-block), single-block semantics are covered above
    for f in over_blocks:
        puts = [c for c in calls_in(f) if (call_name(c) or "").endswith("_send_queue.put")]
        w = [c for c in calls_in(f) if (call_name(c) or "").endswith(".wait")]
        ok = len(puts) == 1 and len(w) >= 1
        ctx.ob("C10.P4", q, ok, "each block is queued once and awaited inside the loop" if ok else f"per block: {len(puts)} put(s), {len(w)} wait(s)",
               key="put-wait", where=func.where)
        # ... once: a loop around the put inside the loop over the blocks queues the same block again; what the transport
        # wrote of the failed attempt is already on the wire, so the peer reads the start of the block twice
        inner = [lp for lp in ast.walk(f) if lp is not f and isinstance(lp, (ast.For, ast.While)) and any(c in list(calls_in(lp)) for c in puts)]
        ctx.ob("C10.P4", q, not inner, "no block is queued a second time" if not inner else
               f"the put of a block is inside `{norm(inner[0]).splitlines()[0][:70]}` within the loop over the blocks: a block whose send failed is queued again from its first byte, although the bytes the transport had already written stay on the wire - the peer reads them twice, and the call reports success",
               key="queued-once", where=func.where)
        if puts and w:
            pn = next(n for n in cfg.real_nodes() if puts[0] in n.calls)
            wn = next(n for n in cfg.real_nodes() if w[0] in n.calls)
            ok = cfg.dominates(pn, wn)
            ctx.ob("C10.P4", q, ok, "the block is queued before it is awaited" if ok else "wait() can run before the block was queued (waits forever)", key="put-before-wait", where=func.where)
            trig = [n for n in cfg.real_nodes() if any((x or "").endswith("trigger_receiver") for x in n.call_names())]
            ok = any(cfg.dominates(pn, t) and cfg.dominates(t, wn) for t in trig)
            ctx.ob("C10.P4", q, ok, "the sender thread is triggered after queueing and before waiting" if ok else
                   "no trigger_receiver between put and wait: the block sits in the queue until unrelated traffic wakes the sender", key="trigger", where=func.where)


def check_send_queue_writers(ctx, rule="C10.P4"):
    """Every block handed to the send queue is awaited by the function that queued it: the answer of the transport
    (`resolve(False)` after a socket error) reaches a caller only through `wait()` on that very object.  A second way
    into the queue that returns at once reports success for bytes that may never be written."""
    repo = ctx.repo
    n = 0
    classes = [repo.cls("Protocol")] + repo.subclasses("Protocol")
    for cls in classes:
        for m in cls.methods.values():
            for c in calls_in(m.node):
                cn = call_name(c) or ""
                if not (cn.endswith("_send_queue.put") or cn.endswith("_send_queue.put_nowait")):
                    continue
                n += 1
                ctx.touch(m)
                arg = c.args[0] if c.args else None
                waited = isinstance(arg, ast.Name) and any(call_name(w) == f"{arg.id}.wait" for w in calls_in(m.node))
                ctx.ob(rule, m.qualname, waited, "the queued block is awaited by the function that queued it" if waited else
                       f"`{norm(c)[:80]}` queues a block that nobody waits for: the function returns before the transport has answered, so a send that fails afterwards (socket error, link reset) is still reported as successful",
                       key="queued-block-awaited", where=m.where)
    ctx.floor("writers of the send queue", n, 1)


def check_block_send_info(ctx):
    repo = ctx.repo
    cls = repo.cls("BlockSendInfo")
    resolve = repo.method("BlockSendInfo", "resolve", inherited=False)
    wait = repo.method("BlockSendInfo", "wait", inherited=False)
    ctx.touch(resolve)
    ctx.touch(wait)
    # resolve: self._result = OK if result else ERROR  (or if/else form)
    param = resolve.node.args.args[1].arg
    mapping = {}
    for st in rules.func_stmts(resolve.node):
        if isinstance(st, ast.Assign) and any(dotted(t) == "self._result" for t in st.targets):
            v = st.value
            if isinstance(v, ast.IfExp) and isinstance(v.test, ast.Name) and v.test.id == param:
                mapping[True] = norm(v.body)
                mapping[False] = norm(v.orelse)
            elif isinstance(v, ast.IfExp) and isinstance(v.test, ast.UnaryOp) and isinstance(v.test.op, ast.Not) and norm(v.test.operand) == param:
                mapping[False] = norm(v.body)
                mapping[True] = norm(v.orelse)
            else:
                cfg = cfg_of(resolve.node)
                node = next(n for n in cfg.real_nodes() if n.ast is st)
                conds = cfg.dominating_conditions(node)
                for t, val in conds:
                    if isinstance(t, ast.Name) and t.id == param:
                        mapping[val] = norm(v)
                    elif isinstance(t, ast.UnaryOp) and isinstance(t.op, ast.Not) and norm(t.operand) == param:
                        mapping[not val] = norm(v)
    ctx.require(set(mapping) == {True, False}, f"BlockSendInfo.resolve: cannot extract the result mapping ({mapping})")
    rets = [n for n in rules.func_stmts(normal.normalised(ctx, wait)) if isinstance(n, ast.Return)]
    ctx.require(len(rets) == 1, "BlockSendInfo.wait: unknown shape")
    rv = rets[0].value
    if isinstance(rv, ast.Name):
        rv = rules.expand_ast(wait.node, rv)  # the comparison may have been given a name first
    ok_member = None
    atoms = cnd.canon(rv, True)  # `not r != X`, `r == X`, `r is X` all read: r equals X
    if len(atoms) == 1:
        (text_, pol), = atoms
        if pol and text_.startswith("self._result == "):
            ok_member = text_[len("self._result == "):]
    ctx.require(ok_member is not None, f"BlockSendInfo.wait: return `{norm(rv)}` is not a comparison of the stored result")
    ok = mapping[True] == ok_member and mapping[False] != ok_member
    ctx.ob("C10.P5", "BlockSendInfo", ok,
           "wait() is True exactly for resolve(True)" if ok else f"resolve maps True->{mapping[True]}, False->{mapping[False]} but wait() reports success for {ok_member}",
           where=resolve.where, mapping={str(k): v for k, v in mapping.items()}, success=ok_member)
    # the trigger is set after the result is stored (otherwise the waiter can read NOT_SENT)
    cfg = cfg_of(resolve.node)
    store = [n for n in cfg.real_nodes() if isinstance(n.ast, ast.Assign) and any(dotted(t) == "self._result" for t in n.ast.targets)]
    setn = [n for n in cfg.real_nodes() if any((x or "").endswith("_result_trigger.set") for x in n.call_names())]
    ctx.require(bool(setn), "BlockSendInfo.resolve: no trigger set()")
    ok = all(not cfg.path_exists(cfg.entry, s, avoid=store) for s in setn)
    ctx.ob("C10.P5", "BlockSendInfo.resolve", ok, "the result is stored before the waiter is woken" if ok else "the waiter is woken before the result is stored: wait() can return the stale NOT_SENT state (False) for a block that was sent",
           key="store-before-set", where=resolve.where)
    # wait(): returns after the event wait
    wcfg = cfg_of(wait.node)
    waitn = [n for n in wcfg.real_nodes() if any((x or "").endswith("_result_trigger.wait") for x in n.call_names())]
    retn = [n for n in wcfg.real_nodes() if isinstance(n.ast, ast.Return)]
    ok = bool(waitn) and all(wcfg.dominates(waitn[0], r) for r in retn)
    ctx.ob("C10.P5", "BlockSendInfo.wait", ok, "wait() reads the result only after the trigger was awaited" if ok else "wait() can return without awaiting the result", key="wait-before-read", where=wait.where)


def check_linger(ctx):
    """Accepted bytes must survive close(): no abortive close (SO_LINGER on, timeout 0) on the connection sockets."""
    import struct

    repo = ctx.repo
    n = 0
    for cls in [repo.cls("TcpConnection")] + repo.subclasses("TcpConnection"):
        ctx.touch(cls)
        for call in calls_in(cls.node, nested=True):
            if not (isinstance(call.func, ast.Attribute) and call.func.attr == "setsockopt"):
                continue
            n += 1
            if any("TCP_USER_TIMEOUT" in norm(a) for a in call.args):
                ctx.ob("C10.P6", cls.name, False,
                       "TCP_USER_TIMEOUT is set on the connection socket: when accepted bytes stay unacknowledged (a peer that drains slowly or with a closed window) longer than that time the kernel resets the connection and discards the send queue - bytes send_data reported as sent never arrive",
                       key=norm(call)[:80], where=cls.where)
                continue
            if not any("SO_LINGER" in norm(a) for a in call.args):
                continue
            val = call.args[-1]
            onoff = linger = None
            if isinstance(val, ast.Call) and (call_name(val) or "").endswith("struct.pack"):
                try:
                    folded = [repo.fold(a, cls.module, cls) for a in val.args]
                    packed = struct.pack(*folded)
                    onoff, linger = struct.unpack("ii", packed[:8])
                except Exception as exc:
                    raise AnalysisError(f"{cls.name}: SO_LINGER value `{norm(val)}` cannot be folded: {exc}") from exc
            else:
                raise AnalysisError(f"{cls.name}: SO_LINGER value `{norm(val)}` is not a struct.pack constant")
            bad = onoff != 0 and linger == 0
            ctx.ob("C10.P6", cls.name, not bad,
                   "SO_LINGER keeps a graceful close" if not bad else
                   "SO_LINGER is enabled with timeout 0: close() resets the connection and discards bytes that send_data already reported as sent",
                   key=norm(call), where=cls.where, l_onoff=onoff, l_linger=linger)
    ctx.floor("setsockopt sites inspected", n, 2)
    ctx.ob("C10.P6", "TcpConnection cone", True, f"{n} setsockopt sites inspected for an abortive-close configuration", key="sites", where="secsgem/common", sites=n)


def check_all_send_data(ctx):
    repo = ctx.repo
    # send_data implementations in class cones that put the socket into non-blocking mode
    n_impl = 0
    for cls in [repo.cls("Connection")] + repo.subclasses("Connection"):
        if "send_data" not in cls.methods or any("abstractmethod" in (d or "") for d in cls.methods["send_data"].decorators):
            continue
        cone = [cls] + repo.subclasses(cls.name)
        nonblocking = False
        for c in cone:
            for call in calls_in(c.node, nested=True):
                if isinstance(call.func, ast.Attribute) and call.func.attr == "setblocking" and call.args and isinstance(call.args[0], ast.Constant) and not call.args[0].value:
                    nonblocking = True
        uses_socket = any(_is_socket_send(c) or _is_socket_send(c, "sendall") for c in calls_in(cls.methods["send_data"].node))
        if uses_socket or (nonblocking and cls.name.startswith("Tcp")):
            check_send_data(ctx, cls, cls.methods["send_data"])
            n_impl += 1
    ctx.floor("socket send_data implementations", n_impl, 1)


def check_single_writer(ctx):
    """send_data is an unlocked loop of partial writes: on the HSMS side it has exactly one caller, the send-queue
    function run by the one receiver thread.  A second writer's bytes land between two partial writes of a message."""
    repo = ctx.repo
    callers = []
    for cls in [repo.cls("HsmsProtocol")] + [c for c in repo.cls("HsmsProtocol").mro[1:] if c.name == "Protocol"]:
        for mname, m in cls.methods.items():
            if any((call_name(c) or "").endswith("_connection.send_data") or (call_name(c) or "").endswith("connection.send_data") for c in calls_in(m.node)):
                callers.append(m)
    # a private helper that only the send-queue function (or such a helper) calls is part of it
    cls0 = repo.cls("HsmsProtocol")

    def callers_of(name):
        short = name.split("__")[-1] if name.startswith("__") else name
        return [m for m in cls0.methods.values() if any((call_name(c) or "") in (f"self.{name}", f"self._HsmsProtocol{name}") for c in calls_in(m.node))]

    def part_of_send_queue(m, seen=()):
        if m.name == "_process_send_queue":
            return True
        if not m.name.startswith("_") or m.name in seen:
            return False
        cs = callers_of(m.name)
        return bool(cs) and all(part_of_send_queue(c, seen + (m.name,)) for c in cs)

    writers = len(callers)
    callers = [m for m in callers if not (m.name != "_process_send_queue" and part_of_send_queue(m))]
    names = sorted(m.qualname for m in callers)
    ok = writers >= 1 and set(names) <= {"HsmsProtocol._process_send_queue"}
    for m in callers:
        ctx.touch(m)
    extra = [x for x in names if x != "HsmsProtocol._process_send_queue"]
    ctx.ob("C10.P3", "HsmsProtocol", ok, "the connection is written to by the send-queue function only" if ok else
           f"{extra or names} write(s) to the connection directly: frames written from another thread interleave with the partial writes of a message in progress", key="single-writer", where=repo.cls("HsmsProtocol").where)


def check_writer_stopped(ctx):
    """C10.W3: the thread that drains the send queue is stopped on every path of the link-loss handler.  A writer that
    survives a disable() keeps running beside the one the next connection starts: two threads then drain the queue and
    interleave their partial writes on the non-blocking socket (rule shared with C09.P1)."""
    from . import c09

    sub = type(ctx)(ctx.prop, ctx.tier, ctx.seed, ctx.repo)
    c09.check_on_disconnected(sub)
    kept = [o for o in sub.obligations if o["key"] == "thread stop"]
    ctx.require(len(kept) >= 2, "C10.W3: the link-loss handlers of HSMS and SECS-I were not found")
    for o in kept:
        o = dict(o)
        o["rule"] = "C10.W3"
        ctx.obligations.append(o)
    for kind in ("files", "functions"):
        ctx.analysed[kind] |= sub.analysed[kind]


def run(ctx):
    check_single_writer(ctx)
    check_writer_stopped(ctx)
    # bytes the peer has already accepted into its socket survive the close only if our side keeps reading: a reader left
    # suspended (the `_disconnecting` flag raised and never lowered) leaves input unread, the close then sends RST and the
    # kernel drops the unsent tail of a send that was reported as successful (C09.P5)
    from .c09 import check_read_suspension

    check_read_suspension(ctx, "C10.W4")
    check_all_send_data(ctx)
    check_helper(ctx)
    from .. import refmodels

    check_process_send_queue(ctx)
    refmodels.guarded(ctx, "C10.P4", ["Protocol.send_message"], check_send_message)
    check_send_queue_writers(ctx)
    check_block_send_info(ctx)
    check_linger(ctx)
