"""C13 - status variables, equipment constants and alarms answer as a reference model predicts."""

from __future__ import annotations

import ast

from ..cfg import cfg_of
from ..model import AnalysisError, call_name, calls_in, dotted, norm, walk_no_nested
from .. import normal, rules
from .. import conds as cnd

META = {
    "explanation": "Shape rules (each a necessary condition of the stated clause) on the equipment-side request handlers, "
    "evaluated on a normal form of each handler (extracted helpers inlined, comprehensions spelled as loops, conditional "
    "expressions as if/else, once-assigned pure aliases replaced, branch conditions canonicalised): list replies are "
    "built by one in-order pass over the request with exactly one element per requested id on every path (empty item "
    "for unknown ids, whole table for an empty request); S2F15 validates every entry before the first write, compares "
    "both bounds unconditionally and applies only under EAC 0; S5F1 is sent exactly under the alarm's current enabled "
    "flag and only on a state change; S5F3/S5F5/S5F7 touch and list the right alarms.",
    "decides": [
        "C13.P1 S1F3/S1F11/S2F13/S2F29/S5F5: one reply element per requested id, in request order, on every path; unknown id => empty-item form; empty request => all entries in table order; the secondary carries the built list",
        "C13.P2 S2F15: every _set_ec_value is dominated by `eac == 0` evaluated after the complete validation loop; the validation loop writes nothing but EAC; both bounds are compared (strict) whenever they are declared, without further conditions; unknown id => EAC 1; the reply carries that EAC",
        "C13.P3 set_alarm/clear_alarm: S5F1 is sent iff the alarm is enabled at that moment, only on a change of the set state, with ALCD bit 7 set/cleared; S5F3 changes only known alarms; S5F7 lists exactly the enabled alarms",
        "C13.P4 values are read at request time (value_type(current value) or the user's callback)",
        "C13.P5 no capability method keeps state between requests in a mutable default argument that it changes or hands out",
    ],
    "does_not_decide": ["reply values against a reference model over whole histories", "clock values (the format of the Clock variable is decided by its reviewed model, C13.M1)", "text/number id equality in Python dict lookups"],
    "assumptions": ["StreamsFunctions.decode returns the request's items in wire order (C03)"],
}

LIST_HANDLERS = [
    # (class, method, secondary (S,F), table attr, value getter or None)
    ("StatusDataCollectionCapability", "_on_s01f03", (1, 4), "self._status_variables", "self._get_sv_value"),
    ("StatusDataCollectionCapability", "_on_s01f11", (1, 12), "self._status_variables", None),
    ("EquipmentConstantsCapability", "_on_s02f13", (2, 14), "self._equipment_constants", "self._get_ec_value"),
    ("EquipmentConstantsCapability", "_on_s02f29", (2, 30), "self._equipment_constants", None),
]

GETTERS = {"self._get_sv_value", "self._get_ec_value"}


def _decoded_var(fn):
    for st in rules.func_stmts(fn):
        if isinstance(st, ast.Assign) and isinstance(st.value, ast.Call) and (call_name(st.value) or "").endswith("streams_functions.decode") and isinstance(st.targets[0], ast.Name):
            param = fn.args.args[2].arg
            if st.value.args and norm(st.value.args[0]) == param:
                return st.targets[0].id
    return None


def _in_loop(cfg, loop, n) -> bool:
    return n is not loop and cfg.path_exists(rules.branch_marker(loop, "true"), n, avoid=[loop])


def _appends(cfg, loop=None):
    """[(node, call, list name)] for `<name>.append(x)` statements (inside loop when given)."""
    out = []
    for n in cfg.real_nodes():
        for c in n.calls:
            cn = call_name(c) or ""
            if cn.endswith(".append") and len(c.args) == 1 and (loop is None or _in_loop(cfg, loop, n)):
                out.append((n, c, cn.rsplit(".", 1)[0]))
    return out


def _reply_lists(cfg, S, F):
    """(return nodes, names carried) for `return self.stream_function(S, F)(<name>)`."""
    rets = [n for n in cfg.real_nodes() if isinstance(n.ast, ast.Return)]
    names = set()
    ok = bool(rets)
    for r in rets:
        v = r.ast.value
        if isinstance(v, ast.Call) and isinstance(v.func, ast.Call) and (call_name(v.func) or "").endswith("stream_function") and [norm(a) for a in v.func.args] == [str(S), str(F)] and len(v.args) == 1:
            names.add(norm(v.args[0]))
        else:
            ok = False
    return rets, names, ok and len(names) == 1


def check_list_handlers(ctx):
    repo = ctx.repo
    for cname, mname, (S, F), table, getter in LIST_HANDLERS:
        f = repo.method(cname, mname, inherited=False)
        ctx.touch(f)
        q = f.qualname
        fn = normal.normalised(ctx, f, keep=GETTERS and {g.split(".")[1] for g in GETTERS})
        cfg = cfg_of(fn)
        fv = _decoded_var(fn)
        ctx.require(fv is not None, f"{q}: `function = ...decode(message)` not found")
        rets, names, ok = _reply_lists(cfg, S, F)
        ctx.ob("C13.P1", q, ok, f"the reply is S{S}F{F} carrying the built list" if ok else f"returns {[norm(r.ast.value) for r in rets]}", key="reply", where=f.where)
        if not ok:
            continue
        resp = next(iter(names))
        fors = [n for n in cfg.nodes if n.kind == "iter" and norm(n.ast.iter) == fv]
        ok = len(fors) == 1
        ctx.ob("C13.P1", q, ok, "the reply is built by one pass over the request, in request order" if ok else f"{len(fors)} loops over the request `{fv}` (expected one, iterating the request itself)", key="one-pass", where=f.where)
        if not ok:
            continue
        L = fors[0]
        loopvar = L.ast.target.id if isinstance(L.ast.target, ast.Name) else None
        apps = [(n, c) for n, c, lst in _appends(cfg, L) if lst == resp]
        other_lists = sorted({lst for n, c, lst in _appends(cfg, L) if lst != resp})
        counts = cfg.loop_iteration_counts(L, lambda n: any(n is a for a, _ in apps), no_exc=True)
        ok = bool(counts) and all(v == (1, 1) for v in counts.values()) and not other_lists
        ctx.ob("C13.P1", q, ok, "exactly one reply element is appended per requested id on every path" if ok else
               f"reply elements appended to `{resp}` per requested id: {counts}{' (also appends to ' + str(other_lists) + ')' if other_lists else ''} - an id is skipped or answered twice, so the reply no longer lines up with the request", key="one-per-id", where=f.where)
        # known / unknown branches
        cases = []
        for n, call in apps:
            arg = call.args[0]
            here = (cnd.holds(cfg, n, f"{loopvar} in {table}"), cnd.holds(cfg, n, f"{loopvar} not in {table}"))
            if isinstance(arg, ast.Name) and not any(here):
                # the element was built in a local on the two branches and appended after the join: judge each value it
                # may hold under the conditions of its assignment
                for value, conds in rules.reaching_values(fn, cfg, n, arg):
                    fs = set()
                    for t, v in conds:
                        fs |= cnd.canon(t, v)
                    cases.append((n, value, ((f"{loopvar} in {table}", True) in fs, (f"{loopvar} in {table}", False) in fs)))
            else:
                cases.append((n, arg, here))
        for n, arg, (known, unknown) in cases:
            if unknown:
                ok = _is_empty_form(arg, loopvar)
                ctx.ob("C13.P1", q, ok, "an unknown id is answered with the empty-item form" if ok else f"unknown id is answered with `{norm(arg)[:80]}`", key="unknown-form", where=f.where)
            elif known:
                ok = _uses_entry(arg, f"{table}[{loopvar}]", getter) or _uses_entry(_local_entries_resolved(cfg, n, arg), f"{table}[{loopvar}]", getter)
                ctx.ob("C13.P1", q, ok, "a known id is answered from its own table entry" if ok else f"known id is answered with `{norm(arg)[:80]}`, not derived from {table}[{loopvar}]", key="known-form", where=f.where)
            else:
                ctx.ob("C13.P1", q, False, f"`{n.text()[:80]}` is appended without distinguishing known from unknown ids", key="branch", where=f.where)
        # empty request => all in table order
        ok = False
        why = "no loop over the whole table under an empty request"
        for A in [n for n in cfg.nodes if n.kind == "iter" and norm(n.ast.iter) == f"{table}.values()" and isinstance(n.ast.target, ast.Name)]:
            if not cnd.holds(cfg, A, f"not {fv}"):
                continue
            av = A.ast.target.id
            aapps = [(n, c) for n, c, lst in _appends(cfg, A) if lst == resp]
            cts = cfg.loop_iteration_counts(A, lambda n: any(n is a for a, _ in aapps), no_exc=True)
            unfiltered = bool(cts) and all(v == (1, 1) for v in cts.values())
            forms = all(_uses_entry(c.args[0], av, getter) for _, c in aapps)
            ok = unfiltered and forms and bool(aapps)
            why = "entries are filtered or answered twice" if not unfiltered else "an entry is not answered from itself"
        ctx.ob("C13.P1", q, ok, "an empty request lists every table entry, unfiltered, in table order" if ok else f"the empty-request branch does not list all entries of the table unfiltered ({why})", key="empty-all", where=f.where)


def _is_empty_form(arg, loopvar) -> bool:
    if isinstance(arg, ast.Call) and (call_name(arg) or "").endswith("variables.Array") and len(arg.args) == 2 and isinstance(arg.args[1], ast.List) and not arg.args[1].elts:
        return True
    if isinstance(arg, ast.Dict):
        vals = {k.value: v for k, v in zip(arg.keys, arg.values) if isinstance(k, ast.Constant)}
        ids = [k for k, v in vals.items() if norm(v) == loopvar]
        rest = [v for k, v in vals.items() if k not in ids]
        return len(ids) == 1 and all(isinstance(v, ast.Constant) and v.value == "" for v in rest)
    return False


def _local_entries_resolved(cfg, n, arg):
    """arg with every local that stands for one definition at n (an assignment that dominates n and is not followed by
    another binding of the name on the way to n) replaced by that definition - `entry = table[id]; {..: entry.name}` reads
    the table entry whatever else the function calls `entry` in another loop."""
    import copy

    names = {x.id for x in ast.walk(arg) if isinstance(x, ast.Name) and isinstance(x.ctx, ast.Load)}
    repl = {}
    for name in names:
        binds = [d for d in cfg.nodes if (d.kind == "stmt" and isinstance(d.ast, (ast.Assign, ast.AnnAssign, ast.AugAssign)) and any(isinstance(t, ast.Name) and t.id == name for t in rules.assigned_targets(d.ast)))
                 or (d.kind == "iter" and any(isinstance(t, ast.Name) and t.id == name for t in ast.walk(d.ast.target)))]
        doms = [d for d in binds if d.kind == "stmt" and isinstance(d.ast, ast.Assign) and len(d.ast.targets) == 1 and isinstance(d.ast.targets[0], ast.Name) and cfg.dominates(d, n)]
        if len(doms) != 1:
            continue
        d = doms[0]
        if any(o is not d and cfg.path_exists(d, o) and cfg.path_exists(o, n, avoid=[d]) for o in binds):
            continue
        repl[name] = d.ast.value
    if not repl:
        return arg

    class Sub(ast.NodeTransformer):
        def visit_Name(self, node):
            if node.id in repl and isinstance(node.ctx, ast.Load):
                return copy.deepcopy(repl[node.id])
            return node

    return ast.fix_missing_locations(Sub().visit(copy.deepcopy(arg)))


def _uses_entry(arg, entry_text, getter) -> bool:
    """The element is `getter(entry)` (value replies) or a record whose every field reads the entry (name lists)."""
    if getter:
        return isinstance(arg, ast.Call) and call_name(arg) == getter and len(arg.args) == 1 and norm(arg.args[0]) == entry_text
    def reads(v) -> bool:
        if isinstance(v, ast.IfExp):
            # `entry.x if entry.x is not None else ""` in either orientation: a test of the entry, one arm reads it, the other is a constant
            arms = (v.body, v.orelse)
            return entry_text in norm(v.test) and any(reads(a) for a in arms) and all(reads(a) or isinstance(a, ast.Constant) for a in arms)
        return norm(v).startswith(entry_text + ".") or norm(v) == entry_text

    if isinstance(arg, ast.Dict):
        return bool(arg.values) and all(reads(v) for v in arg.values)
    return entry_text in norm(arg)


def check_s02f15(ctx):
    repo = ctx.repo
    f = repo.method("EquipmentConstantsCapability", "_on_s02f15", inherited=False)
    ctx.touch(f)
    q = f.qualname
    fn = normal.normalised(ctx, f, keep={"_set_ec_value"})
    cfg = cfg_of(fn)
    fv = _decoded_var(fn)
    ctx.require(fv is not None, f"{q}: decode not found")
    loops = [n for n in cfg.nodes if n.kind == "iter" and norm(n.ast.iter) == fv]
    sets = [n for n in cfg.real_nodes() if any(c == "self._set_ec_value" for c in n.call_names())]
    ctx.require(len(sets) >= 1 and len(loops) >= 1, f"{q}: apply step / loops not found")
    # EAC variable = what is returned
    rets, eacs, ok = _reply_lists(cfg, 2, 16)
    ctx.ob("C13.P2", q, ok, "the reply is S2F16 carrying the validation result" if ok else f"returns {[r.text() for r in rets]}", key="reply", where=f.where)
    if not ok:
        return
    eac = next(iter(eacs))
    # every write happens after all validation
    val_loops = [l for l in loops if not any(_in_loop(cfg, l, s) for s in sets)]
    app_loops = [l for l in loops if l not in val_loops]
    ok = len(val_loops) >= 1 and len(app_loops) >= 1 and all(cfg.dominates(rules.branch_marker(v, "false"), s) for v in val_loops for s in sets)
    ctx.ob("C13.P2", q, ok, "no constant is written before the whole request has been validated" if ok else
           "a constant can be written while later entries of the same S2F15 are still unvalidated: a request that is refused has already changed the earlier constants (all-or-none is broken)",
           key="validate-all-first", where=f.where)
    for s in sets:
        ok = cnd.holds(cfg, s, f"{eac} == 0")
        ctx.ob("C13.P2", q, ok, "constants are written only under EAC 0" if ok else f"_set_ec_value runs under [{cnd.describe(cfg, s)}], not under `{eac} == 0`", key="apply-guard", where=f.where)
    # validation loop writes only eac
    for v in val_loops:
        body_nodes = [n for n in cfg.real_nodes() if _in_loop(cfg, v, n)]
        writes = set()
        for n in body_nodes:
            if isinstance(n.ast, (ast.Assign, ast.AugAssign)):
                for t in rules.assigned_targets(n.ast):
                    d = dotted(t) or norm(t)
                    if d.startswith("self.") or "[" in d or "." in d:
                        writes.add(d)
            for c in n.calls:
                cn = call_name(c) or ""
                if cn.startswith("self._set_") or cn.endswith(".update") or cn.endswith("on_ec_value_update"):
                    writes.add(cn)
        ctx.ob("C13.P2", q, not writes, "the validation pass has no side effect on the constants" if not writes else f"the validation pass writes {sorted(writes)}", key="validation-pure", where=f.where)
        breaks = [n for n in body_nodes if isinstance(n.ast, ast.Break)]
        ctx.ob("C13.P2", q, True, "validation visits the entries (an early break only shortens the check)", key="validation-loop", where=f.where, breaks=len(breaks))
        # bounds: `eac = 3` under exactly {bound declared, value beyond bound} (+ the id is known)
        assigns = [n for n in body_nodes if isinstance(n.ast, ast.Assign) and norm(n.ast.targets[0]) == eac]
        bound_tests = {"min": None, "max": None}
        for n in assigns:
            if not (isinstance(n.ast.value, ast.Constant) and n.ast.value.value == 3):
                continue
            fs = cnd.facts(cfg, n, within=v.ast)
            for kind, attr in (("min", "min_value"), ("max", "max_value")):
                if kind == "min":  # ecv < c.min_value
                    cmp_atoms = [(t, p) for t, p in fs if " < " in t and t.split(" < ", 1)[1].endswith("." + attr) and ".ECV" in t.split(" < ", 1)[0]]
                else:  # ecv > c.max_value  ==  c.max_value < ecv
                    cmp_atoms = [(t, p) for t, p in fs if " < " in t and t.split(" < ", 1)[0].endswith("." + attr) and ".ECV" in t.split(" < ", 1)[1]]
                if not cmp_atoms:
                    continue
                strict = all(p for _, p in cmp_atoms)
                extra = sorted((t, p) for t, p in fs if (t, p) not in cmp_atoms and not (t.endswith(f".{attr} is None") and not p) and not t.endswith(" in self._equipment_constants"))
                bound_tests[kind] = (strict and not extra, cmp_atoms[0][0], extra)
        for kind, res in bound_tests.items():
            ok = res is not None and res[0]
            ctx.ob("C13.P2", q, ok,
                   f"a value {'below the declared minimum' if kind == 'min' else 'above the declared maximum'} sets EAC 3 whenever the bound is declared" if ok else
                   (f"no strict comparison of the new value with the declared {kind} bound sets EAC 3" if res is None else
                    f"the {kind}-bound check `{res[1]}` is not strict or is subject to further conditions [{cnd.show(res[2])}]: some values (e.g. text or multi-value items, or the bound itself) bypass the range check and leave the constant outside its limits"),
                   key="bound " + kind, where=f.where)
        unk = [n for n in assigns if isinstance(n.ast.value, ast.Constant) and n.ast.value.value == 1]
        ok = any(any(t.endswith(" in self._equipment_constants") and not p for t, p in cnd.facts(cfg, n)) for n in unk)
        ctx.ob("C13.P2", q, ok, "an unknown ECID sets EAC 1" if ok else "no EAC 1 for an unknown ECID", key="unknown-ecid", where=f.where)
    # apply loop writes every entry with its own value
    for s in sets:
        c = next(c for c in s.calls if call_name(c) == "self._set_ec_value")
        lv = None
        for l in app_loops:
            if _in_loop(cfg, l, s) and isinstance(l.ast.target, ast.Name):
                lv = l.ast.target.id
        ok = lv is not None and len(c.args) == 2 and rules.expand(fn, c.args[0]) in (f"self._equipment_constants[{lv}.ECID]", f"self._equipment_constants[{lv}.ECID.get()]", f"self.equipment_constants[{lv}.ECID.get()]", f"self.equipment_constants[{lv}.ECID]") and rules.expand(fn, c.args[1]) == f"{lv}.ECV.get()"
        ctx.ob("C13.P2", q, ok, "each entry's constant receives that entry's value" if ok else f"`{norm(c)}` does not write entry.ECV to the constant named by entry.ECID", key="apply-args", where=f.where)
    init_eac = [n for n in cfg.real_nodes() if isinstance(n.ast, ast.Assign) and norm(n.ast.targets[0]) == eac and not any(n.loops)]
    ok = any(isinstance(n.ast.value, ast.Constant) and n.ast.value.value == 0 for n in init_eac)
    ctx.ob("C13.P2", q, ok, "EAC starts at 0" if ok else "EAC is not initialised to 0", key="eac-init", where=f.where)
    # _set_ec_value stores
    sv = repo.method("EquipmentConstantsCapability", "_set_ec_value", inherited=False)
    ctx.touch(sv)
    scfg = cfg_of(sv.node)
    p_ec, p_val = [a.arg for a in sv.node.args.args[1:3]]
    stores = [n for n in scfg.real_nodes() if (isinstance(n.ast, ast.Assign) and norm(n.ast.targets[0]) == f"{p_ec}.value" and norm(n.ast.value) == p_val) or any(c == "self.on_ec_value_update" for c in n.call_names())]
    ok = bool(stores) and not scfg.path_exists(scfg.entry, scfg.exit, avoid=stores, no_exc=True)
    ctx.ob("C13.P2", sv.qualname, ok, "_set_ec_value stores the value (or hands it to the user's update hook) on every path" if ok else "_set_ec_value has a path that neither stores the value nor calls the update hook", where=sv.where)


def _alarm_entry_forms(p):
    return (f"self.alarms[{p}]", f"self._alarms[{p}]")


def _alarm_body(elt, lv):
    """{ALID, ALTX, ALCD} of a record expression, normalised text."""
    if not isinstance(elt, ast.Dict):
        return None
    return {k.value: norm(v) for k, v in zip(elt.keys, elt.values) if isinstance(k, ast.Constant)}


def check_alarms(ctx):
    repo = ctx.repo
    for mname, newval, setbit in (("set_alarm", True, True), ("clear_alarm", False, False)):
        f = repo.method("AlarmCapability", mname, inherited=False)
        ctx.touch(f)
        q = f.qualname
        fn = normal.normalised(ctx, f)
        cfg = cfg_of(fn)
        p = fn.args.args[1].arg
        entries = _alarm_entry_forms(p)
        sends = [(n, c) for n in cfg.real_nodes() for c in n.calls if call_name(c) in ("self.send_and_waitfor_response", "self.send_stream_function")]
        ok = len(sends) == 1
        ctx.ob("C13.P3", q, ok, "one S5F1 send site" if ok else f"{len(sends)} send sites", key="one-send", where=f.where)
        if not ok:
            continue
        n, c = sends[0]
        fs = cnd.facts(cfg, n)
        is_enabled = lambda t: any(t == e + ".enabled" for e in entries)  # noqa: E731
        is_set = lambda t: any(t == e + ".set" for e in entries)  # noqa: E731
        is_member = lambda t: t in (f"{p} in self.alarms", f"{p} in self._alarms")  # noqa: E731
        enabled_ok = any(is_enabled(t) and pol for t, pol in fs)
        other = sorted((t, pol) for t, pol in fs if not (is_enabled(t) or is_set(t) or is_member(t)))
        ctx.ob("C13.P3", q, enabled_ok and not other, "S5F1 is sent iff the alarm is enabled at that moment" if (enabled_ok and not other) else
               f"the S5F1 send is guarded by [{cnd.show(fs)}]: it must depend on the alarm's current `enabled` flag alone (a report for a disabled alarm, or none for an enabled one, follows an S5F3 between set and clear)",
               key="enabled-guard", where=f.where)
        # only on change: the send (and the state write) happen only where the alarm is known NOT to be in the new state
        ok = any(is_set(t) and pol == (not newval) for t, pol in fs)
        ctx.ob("C13.P3", q, ok, "nothing is sent when the alarm already is in the requested state" if ok else "S5F1 can be sent although the set state does not change", key="only-on-change", where=f.where)
        # body
        a0 = c.args[0] if c.args else None
        if isinstance(a0, ast.Name):
            a0 = rules.expand_ast(fn, a0)  # the report built in a local first
        sf_ok = isinstance(a0, ast.Call) and isinstance(a0.func, ast.Call) and [norm(x) for x in a0.func.args] == ["5", "1"] and a0.args and isinstance(a0.args[0], ast.Dict)
        body = {k.value: v for k, v in zip(a0.args[0].keys, a0.args[0].values)} if sf_ok else {}
        alcd = norm(body.get("ALCD")) if "ALCD" in body else ""
        bit_ok = (("ALCD.ALARM_SET" in alcd and "|" in alcd) if setbit else ("ALARM_SET" not in alcd)) and any(e + ".code" in alcd for e in entries)
        ok = sf_ok and bit_ok and norm(body.get("ALID")) == p and norm(body.get("ALTX")) in [e + ".text" for e in entries]
        ctx.ob("C13.P3", q, ok, f"S5F1 carries ALID, ALTX and ALCD with bit 7 {'set' if setbit else 'clear'}" if ok else f"S5F1 body is {norm(a0)[:120] if a0 is not None else None}", key="body", where=f.where)
        # state write: every normal path ends with the state written, or never left the "already in that state" branch
        writes = [w for w in cfg.real_nodes() if isinstance(w.ast, ast.Assign) and norm(w.ast.targets[0]) in [e + ".set" for e in entries] and norm(w.ast.value) == str(newval)]
        already = [m for m in cfg.nodes if any(is_set(t) and pol == newval for t, pol in cnd.facts(cfg, m))]
        ok = len(writes) == 1 and not cfg.path_exists(cfg.entry, cfg.exit, avoid=writes + already, no_exc=True) and not cfg.path_exists(n, cfg.exit, avoid=writes, no_exc=True)
        ctx.ob("C13.P3", q, ok, f"the alarm's set state becomes {newval}" if ok else f"the set state is not updated to {newval} on every path", key="state-write", where=f.where)
        unk = [r for r in cfg.real_nodes() if isinstance(r.ast, ast.Raise)]
        ok = any(any(is_member(t) and not pol for t, pol in cnd.facts(cfg, r)) for r in unk)
        ctx.ob("C13.P3", q, ok, "an unknown alarm id raises" if ok else "an unknown alarm id is not refused", key="unknown", where=f.where)
    # S5F3
    f = repo.method("AlarmCapability", "_on_s05f03", inherited=False)
    ctx.touch(f)
    fn = normal.normalised(ctx, f)
    cfg = cfg_of(fn)
    writes = [n for n in cfg.real_nodes() if isinstance(n.ast, ast.Assign) and norm(n.ast.targets[0]).endswith(".enabled")]
    ok = len(writes) == 1
    if ok:
        w = writes[0]
        tgt = norm(w.ast.targets[0])
        key = tgt[tgt.index("[") + 1:tgt.rindex("]")] if "[" in tgt else None
        known = key is not None and any(t in (f"{key} in self._alarms", f"{key} in self.alarms") and pol for t, pol in cnd.facts(cfg, w))
        val = rules.expand(fn, w.ast.value)  # through a local, if the comparison was given a name
        ok = known and "ALED.get() == " in val and "ALED.ENABLE" in val and tgt in (f"self.alarms[{key}].enabled", f"self._alarms[{key}].enabled") and "ALID" in rules.expand(fn, ast.parse(key, mode="eval").body)
    ctx.ob("C13.P3", f.qualname, ok, "S5F3 sets the enabled flag of the named, known alarm from ALED" if ok else "S5F3 does not set exactly the named known alarm's enabled flag from ALED == ENABLE", key="s5f3-write", where=f.where)
    errs = [n for n in cfg.real_nodes() if isinstance(n.ast, ast.Assign) and "ACKC5.ERROR" in norm(n.ast.value)]
    ok = any(any(t.endswith((" in self._alarms", " in self.alarms")) and not pol for t, pol in cnd.facts(cfg, n)) for n in errs)
    ctx.ob("C13.P3", f.qualname, ok, "an unknown ALID is acknowledged with an error code" if ok else "an unknown ALID is not answered with ACKC5 error", key="s5f3-unknown", where=f.where)
    # S5F5 / S5F7: the list handlers are pure transformations of the table: where the path rules object to a spelling while
    # both handlers have exactly the summaries of their reviewed models, the models decide
    from .. import refmodels

    refmodels.deferred(ctx, "C13.P3", ["AlarmCapability._on_s05f05", "AlarmCapability._on_s05f07"], check_alarm_lists)


def check_alarm_lists(ctx):
    repo = ctx.repo
    # S5F5 / S5F7: list bodies, filter, order
    for hname, (S, F) in (("_on_s05f05", (5, 6)), ("_on_s05f07", (5, 8))):
        f = repo.method("AlarmCapability", hname, inherited=False)
        ctx.touch(f)
        fn = normal.normalised(ctx, f)
        cfg = cfg_of(fn)
        rets, names, ok = _reply_lists(cfg, S, F)
        resp = next(iter(names)) if ok else None
        loops = [n for n in cfg.nodes if n.kind == "iter" and isinstance(n.ast.target, ast.Name) and any(lst == resp for _, _, lst in _appends(cfg, n))]
        ok = ok and len(loops) == 1
        body_ok = filt_ok = order_ok = False
        if ok:
            L = loops[0]
            lv = L.ast.target.id
            apps = [(n, c) for n, c, lst in _appends(cfg, L) if lst == resp]
            cts = cfg.loop_iteration_counts(L, lambda n: any(n is a for a, _ in apps), no_exc=True)
            at_most_one = bool(cts) and all(v[1] == 1 for v in cts.values())
            exactly_one = bool(cts) and all(v == (1, 1) for v in cts.values())
            body_ok = bool(apps)
            member = {(f"{lv} in self.alarms", False), (f"{lv} in self._alarms", False)}
            member_true = {(t, True) for t, _ in member}
            if hname == "_on_s05f07" and norm(L.ast.iter) in ("list(self.alarms.keys())", "self.alarms.keys()", "self.alarms", "list(self.alarms)"):
                # the ids are the table's own keys: an arm for an id the table does not have (a shared entry builder) is never taken
                apps = [(n, c) for n, c in apps if not (cnd.facts(cfg, n, within=L.ast) & member)]
                cts = cfg.loop_iteration_counts(L, lambda n: any(n is a for a, _ in apps), no_exc=True)
                at_most_one = bool(cts) and all(v[1] == 1 for v in cts.values())
            unknown_apps = [(n, c) for n, c in apps if hname == "_on_s05f05" and cnd.facts(cfg, n, within=L.ast) & member]
            for n, c in unknown_apps:
                # a requested id the table does not have: its own id with zero-length code and text (E5: a zero-length ALCD / ALTX means the value does not exist)
                body = _alarm_body(c.args[0], lv) or {}
                body_ok = body_ok and body.get("ALID") == lv and body.get("ALCD") in ("b''", "''", "[]", "bytes()", "None") and body.get("ALTX") in ("''", "None")
            for n, c in apps:
                if (n, c) in unknown_apps:
                    continue
                body = _alarm_body(c.args[0], lv) or {}
                alcd = body.get("ALCD", "")
                # ALCD = code | (ALARM_SET if set else 0), spelled as a conditional expression or as two branches
                cond_bit = ("ALARM_SET if" in alcd and f"self.alarms[{lv}].set else 0" in alcd) or (cnd.holds(cfg, n, f"self.alarms[{lv}].set") and "ALARM_SET" in alcd) or (cnd.holds(cfg, n, f"not self.alarms[{lv}].set") and "ALARM_SET" not in alcd)
                body_ok = body_ok and body.get("ALID") == lv and body.get("ALTX") == f"self.alarms[{lv}].text" and f"self.alarms[{lv}].code" in alcd and cond_bit
            if hname == "_on_s05f07":
                it = norm(L.ast.iter)
                over_all = it in ("list(self.alarms.keys())", "self.alarms.keys()", "self.alarms", "list(self.alarms)", "self._alarms", "list(self._alarms.keys())", "self._alarms.keys()", "list(self._alarms)")
                filt_ok = over_all and at_most_one and all(cnd.facts(cfg, n, within=L.ast) - member_true == {(f"self.alarms[{lv}].enabled", True)} or cnd.facts(cfg, n, within=L.ast) - member_true == {(f"self._alarms[{lv}].enabled", True)} for n, _ in apps)
            else:
                # requested ids in request order; all ids for an empty request
                it = L.ast.iter
                if isinstance(it, ast.Name):
                    alls = [n for n in cfg.real_nodes() if isinstance(n.ast, ast.Assign) and norm(n.ast.targets[0]) == it.id and ("self.alarms.keys()" in norm(n.ast.value) or norm(n.ast.value) in ("list(self.alarms)", "list(self._alarms)"))]
                    src = [n for n in cfg.real_nodes() if isinstance(n.ast, ast.Assign) and norm(n.ast.targets[0]) == it.id and norm(n.ast.value).endswith(".get()")]
                    known_facts = [cnd.facts(cfg, n, within=L.ast) for n, c in apps if (n, c) not in unknown_apps]
                    order_ok = exactly_one and len(alls) == 1 and cnd.holds(cfg, alls[0], f"not {it.id}") and len(src) == 1 and all(fs <= {(f"{lv} in self.alarms", True), (f"{lv} in self._alarms", True)} for fs in known_facts)
                    # the ids come from the host: an id the table does not have must not be looked up
                    guarded = all(fs & {(f"{lv} in self.alarms", True), (f"{lv} in self._alarms", True)} for fs in known_facts)
                    ctx.ob("C13.P1", f.qualname, guarded, "an alarm is looked up only when the table has the requested id" if guarded else
                           f"`self.alarms[{lv}]` is read for every requested id: an S5F5 that names an id the equipment does not have raises KeyError in the handler, the request is aborted (S5F0) and the known alarms it also asked for are not listed",
                           key="s5f5-unknown-id", where=f.where)
        ctx.ob("C13.P3", f.qualname, body_ok, "each listed alarm carries its id, text and ALCD with bit 7 = current set state" if body_ok else "the alarm list entries do not carry id/text/current set state", key="list-body", where=f.where)
        if hname == "_on_s05f07":
            ctx.ob("C13.P3", f.qualname, filt_ok, "S5F8 lists exactly the alarms whose enabled flag is set" if filt_ok else "S5F7 does not filter the alarm table by the enabled flag (and nothing else)", key="s5f7-filter", where=f.where)
        else:
            ctx.ob("C13.P1", f.qualname, order_ok, "S5F6 lists exactly the requested alarms in request order (all for an empty request)" if order_ok else "S5F5 does not answer exactly the requested ids in order", key="s5f5-order", where=f.where)


REF_VALUES = {
    "_get_sv_value": """
def _get_sv_value(self, status_variable):
    if status_variable.svid == StatusVariableId.CLOCK.value:
        return status_variable.value_type(self._get_clock())
    if status_variable.svid == StatusVariableId.CONTROL_STATE.value:
        return status_variable.value_type(self._get_control_state_id())
    if status_variable.svid == StatusVariableId.EVENTS_ENABLED.value:
        return status_variable.value_type(self.settings.data_items.SV, self._get_events_enabled())
    if status_variable.svid == StatusVariableId.ALARMS_ENABLED.value:
        return status_variable.value_type(self.settings.data_items.SV, self._get_alarms_enabled())
    if status_variable.svid == StatusVariableId.ALARMS_SET.value:
        return status_variable.value_type(self.settings.data_items.SV, self._get_alarms_set())
    if status_variable.use_callback:
        return self.on_sv_value_request(status_variable.id_type(status_variable.svid), status_variable)
    return status_variable.value_type(status_variable.value)
""",
    "_get_ec_value": """
def _get_ec_value(self, equipment_constant):
    if equipment_constant.ecid == EquipmentConstantId.ESTABLISH_COMMUNICATIONS_TIMEOUT.value:
        return equipment_constant.value_type(self.settings.establish_communication_timeout)
    if equipment_constant.ecid == EquipmentConstantId.TIME_FORMAT.value:
        return equipment_constant.value_type(self._time_format)
    if equipment_constant.use_callback:
        return self.on_ec_value_request(equipment_constant.id_type(equipment_constant.ecid), equipment_constant)
    return equipment_constant.value_type(equipment_constant.value)
""",
    "_set_ec_value": """
def _set_ec_value(self, equipment_constant, value):
    if equipment_constant.ecid == EquipmentConstantId.ESTABLISH_COMMUNICATIONS_TIMEOUT.value:
        self.settings.establish_communication_timeout = int(value)
    if equipment_constant.ecid == EquipmentConstantId.TIME_FORMAT.value:
        self._time_format = int(value)
    if equipment_constant.use_callback:
        self.on_ec_value_update(equipment_constant.id_type(equipment_constant.ecid), equipment_constant, value)
    else:
        equipment_constant.value = value
""",
    "_on_s05f03": """
def _on_s05f03(self, _handler, message):
    function = self.settings.streams_functions.decode(message)
    alid = function.ALID.get()
    if alid not in self._alarms:
        return self.stream_function(5, 4)(self.settings.data_items.ACKC5.ERROR)
    self.alarms[alid].enabled = function.ALED.get() == self.settings.data_items.ALED.ENABLE
    return self.stream_function(5, 4)(self.settings.data_items.ACKC5.ACCEPTED)
""",
    "_on_s02f29": """
def _on_s02f29(self, _handler, message):
    function = self.settings.streams_functions.decode(message)
    responses = []
    if len(function) == 0:
        for eq_constant in self._equipment_constants.values():
            responses.append({"ECID": eq_constant.ecid, "ECNAME": eq_constant.name, "ECMIN": eq_constant.min_value if eq_constant.min_value is not None else "",
                              "ECMAX": eq_constant.max_value if eq_constant.max_value is not None else "", "ECDEF": eq_constant.default_value, "UNITS": eq_constant.unit})
    else:
        for ecid in function:
            if ecid not in self._equipment_constants:
                responses.append({"ECID": ecid, "ECNAME": "", "ECMIN": "", "ECMAX": "", "ECDEF": "", "UNITS": ""})
            else:
                eq_constant = self._equipment_constants[ecid]
                responses.append({"ECID": eq_constant.ecid, "ECNAME": eq_constant.name, "ECMIN": eq_constant.min_value if eq_constant.min_value is not None else "",
                                  "ECMAX": eq_constant.max_value if eq_constant.max_value is not None else "", "ECDEF": eq_constant.default_value, "UNITS": eq_constant.unit})
    return self.stream_function(2, 30)(responses)
""",
    "_on_s01f11": """
def _on_s01f11(self, _handler, message):
    function = self.settings.streams_functions.decode(message)
    responses = []
    if len(function) == 0:
        for status_variable in self._status_variables.values():
            responses.append({"SVID": status_variable.svid, "SVNAME": status_variable.name, "UNITS": status_variable.unit})
    else:
        for status_variable_id in function:
            if status_variable_id not in self._status_variables:
                responses.append({"SVID": status_variable_id, "SVNAME": "", "UNITS": ""})
            else:
                status_variable = self._status_variables[status_variable_id]
                responses.append({"SVID": status_variable.svid, "SVNAME": status_variable.name, "UNITS": status_variable.unit})
    return self.stream_function(1, 12)(responses)
""",
}


def check_reference_models(ctx):
    """The value accessors and the remaining handlers against their reference models (summaries, sa.summary)."""
    from . import _codec

    repo = ctx.repo
    keep = {"_get_clock", "_get_control_state_id", "_get_events_enabled", "_get_alarms_enabled", "_get_alarms_set", "_get_sv_value", "_get_ec_value", "_set_ec_value"}
    for cname, mname, rule, what in (
        ("StatusDataCollectionCapability", "_get_sv_value", "C13.P4", {"returns": "a status variable answers with its current value: clock, control state, enabled events, enabled/set alarms for the predefined ids, the user's callback when configured, else value_type(stored value)"}),
        ("EquipmentConstantsCapability", "_get_ec_value", "C13.P4", {"returns": "an equipment constant answers with its current value: the live establish-communications timeout / time format for the predefined ids, the user's callback when configured, else value_type(stored value)"}),
        ("EquipmentConstantsCapability", "_set_ec_value", "C13.P2", {"stores": "a written constant reaches the live setting (predefined ids) and the constant itself (or the user's update hook)"}),
        ("AlarmCapability", "_on_s05f03", "C13.P3", {"stores": "S5F3 sets the enabled flag of the named, known alarm from ALED == ENABLE and touches nothing else", "returns": "S5F4 acknowledges a known alarm with ACCEPTED and an unknown one with ERROR"}),
        ("EquipmentConstantsCapability", "_on_s02f29", "C13.P1", {"returns": "S2F30 names every requested constant with its name, limits ('' when undeclared), default and unit; an unknown id gets empty texts"}),
        ("StatusDataCollectionCapability", "_on_s01f11", "C13.P1", {"returns": "S1F12 names every requested status variable with its name and unit; an unknown id gets empty texts"}),
    ):
        f = repo.method(cname, mname, inherited=False)
        _codec.agree(ctx, rule, f, REF_VALUES[mname], what, keep=keep, key_prefix=f"model {mname} ")


def check_current_values(ctx):
    repo = ctx.repo
    for cname, mname, entry in (("StatusDataCollectionCapability", "_get_sv_value", "status_variable"), ("EquipmentConstantsCapability", "_get_ec_value", "equipment_constant"), ("DataValueCapability", "_get_dv_value", "data_value")):
        f = repo.method(cname, mname, inherited=False)
        ctx.touch(f)
        fn = normal.normalised(ctx, f)
        p = fn.args.args[1].arg
        cfg = cfg_of(fn)
        plain = [n for n in cfg.real_nodes() if f"{p}.value_type({p}.value)" in n.text()]
        cb = [n for n in cfg.real_nodes() if any(c.startswith("self.on_") and c.endswith("_value_request") for c in n.call_names())]
        ok = bool(plain) and bool(cb) and any(cnd.holds(cfg, n, f"{p}.use_callback") for n in cb) and all(not cnd.holds(cfg, n, f"{p}.use_callback") for n in plain)
        ctx.ob("C13.P4", f.qualname, ok, "the value is the entry's current value (or the user's callback when configured)" if ok else "the reply value is not value_type(entry.value) / the use_callback hook", where=f.where)


CAPABILITIES = ("StatusDataCollectionCapability", "EquipmentConstantsCapability", "AlarmCapability", "DataValueCapability", "ClockCapability")


def check_no_state_between_requests(ctx):
    """C13.P5: a request is answered from the tables and the request alone: no method of the capability classes keeps a
    mutable default argument that it changes or hands out (one list shared by every call and every handler object - what a
    rejected request collected is applied by the next accepted one)."""
    repo = ctx.repo
    n = 0
    for cname in CAPABILITIES:
        cls = repo.cls(cname)
        bad = rules.shared_default_state(repo, cls)
        n += len(cls.methods)
        for f, pname, how in bad:
            ctx.touch(f)
            ctx.ob("C13.P5", f.qualname, False, f"the default of parameter `{pname}` is one mutable object for all calls and {how}: values collected for an earlier request are seen (and applied) by later ones",
                   key="default " + pname, where=f.where)
        ctx.ob("C13.P5", cname, not bad, f"{cname}: no method carries state in a mutable default argument" if not bad else f"{cname}: {len(bad)} method(s) carry state in a mutable default argument", key="no-shared-default", where=cls.where)
    ctx.floor("capability methods inspected for shared defaults", n, 30)


def run(ctx):
    check_no_state_between_requests(ctx)
    check_list_handlers(ctx)
    check_s02f15(ctx)
    check_alarms(ctx)
    check_current_values(ctx)
    check_reference_models(ctx)
