"""C13 - status variables, equipment constants and alarms answer as a reference model predicts."""

from __future__ import annotations

import ast

from ..cfg import cfg_of
from ..model import AnalysisError, call_name, calls_in, dotted, norm, walk_no_nested
from .. import rules

META = {
    "explanation": "Shape rules (each a necessary condition of the stated clause) on the equipment-side request handlers: list "
    "replies are built by one in-order pass over the request with exactly one element per requested id on every path "
    "(empty item for unknown ids, whole table for an empty request); S2F15 validates every entry before the first write, "
    "compares both bounds unconditionally and applies only under EAC 0; S5F1 is sent exactly under the alarm's current "
    "enabled flag and only on a state change; S5F3/S5F5/S5F7 touch and list the right alarms.",
    "decides": [
        "C13.P1 S1F3/S1F11/S2F13/S2F29/S5F5: one reply element per requested id, in request order, on every path; unknown id => empty-item form; empty request => all entries in table order; the secondary carries the built list",
        "C13.P2 S2F15: every _set_ec_value is dominated by `eac == 0` evaluated after the complete validation loop; the validation loop writes nothing but EAC; both bounds are compared (strict) whenever they are declared, without further conditions; unknown id => EAC 1; the reply carries that EAC",
        "C13.P3 set_alarm/clear_alarm: S5F1 is sent iff the alarm is enabled at that moment, only on a change of the set state, with ALCD bit 7 set/cleared; S5F3 changes only known alarms; S5F7 lists exactly the enabled alarms",
        "C13.P4 values are read at request time (value_type(current value) or the user's callback)",
    ],
    "does_not_decide": ["reply values against a reference model over whole histories", "clock formats", "text/number id equality in Python dict lookups"],
    "assumptions": ["StreamsFunctions.decode returns the request's items in wire order (C03)"],
}

LIST_HANDLERS = [
    # (class, method, secondary (S,F), table attr, value getter or None)
    ("StatusDataCollectionCapability", "_on_s01f03", (1, 4), "self._status_variables", "self._get_sv_value"),
    ("StatusDataCollectionCapability", "_on_s01f11", (1, 12), "self._status_variables", None),
    ("EquipmentConstantsCapability", "_on_s02f13", (2, 14), "self._equipment_constants", "self._get_ec_value"),
    ("EquipmentConstantsCapability", "_on_s02f29", (2, 30), "self._equipment_constants", None),
]


def _decoded_var(f):
    for st in rules.func_stmts(f.node):
        if isinstance(st, ast.Assign) and isinstance(st.value, ast.Call) and (call_name(st.value) or "").endswith("streams_functions.decode") and isinstance(st.targets[0], ast.Name):
            param = f.node.args.args[2].arg
            if st.value.args and norm(st.value.args[0]) == param:
                return st.targets[0].id
    return None


def check_list_handlers(ctx):
    repo = ctx.repo
    for cname, mname, (S, F), table, getter in LIST_HANDLERS:
        f = repo.method(cname, mname, inherited=False)
        ctx.touch(f)
        q = f.qualname
        fn = f.node
        cfg = cfg_of(fn)
        fv = _decoded_var(f)
        ctx.require(fv is not None, f"{q}: `function = ...decode(message)` not found")
        fors = [n for n in cfg.nodes if n.kind == "iter" and norm(n.ast.iter) == fv]
        ok = len(fors) == 1
        ctx.ob("C13.P1", q, ok, "the reply is built by one pass over the request" if ok else f"{len(fors)} loops over the request (expected one)", key="one-pass", where=f.where)
        if not ok:
            continue
        L = fors[0]
        loopvar = L.ast.target.id if isinstance(L.ast.target, ast.Name) else None
        appends = [n for n in cfg.real_nodes() if any(c.endswith(".append") for c in n.call_names()) and cfg.path_exists(rules.branch_marker(L, "true"), n, avoid=[L])]
        lists = {call_name(c).rsplit(".", 1)[0] for n in appends for c in n.calls if (call_name(c) or "").endswith(".append")}
        counts = cfg.loop_iteration_counts(L, lambda n: n in appends, no_exc=True)
        ok = bool(counts) and all(v == (1, 1) for v in counts.values()) and len(lists) == 1
        ctx.ob("C13.P1", q, ok, "exactly one reply element is appended per requested id on every path" if ok else
               f"reply elements appended per requested id: {counts} into {sorted(lists)} - an id is skipped or answered twice, so the reply no longer lines up with the request", key="one-per-id", where=f.where)
        if len(lists) != 1:
            continue
        resp = next(iter(lists))
        # known / unknown branches
        for n in appends:
            conds = [(norm(t), v) for t, v in cfg.dominating_conditions(n)]
            unknown = (f"{loopvar} not in {table}", True) in conds or (f"{loopvar} in {table}", False) in conds
            known = (f"{loopvar} not in {table}", False) in conds or (f"{loopvar} in {table}", True) in conds
            call = next(c for c in n.calls if (call_name(c) or "").endswith(".append"))
            arg = call.args[0]
            if unknown:
                ok = _is_empty_form(arg, loopvar)
                ctx.ob("C13.P1", q, ok, "an unknown id is answered with the empty-item form" if ok else f"unknown id is answered with `{norm(arg)[:80]}`", key="unknown-form", where=f.where)
            elif known:
                ok = _uses_entry_of(fn, arg, table, loopvar, getter)
                ctx.ob("C13.P1", q, ok, "a known id is answered from its own table entry" if ok else f"known id is answered with `{norm(arg)[:80]}`, not derived from {table}[{loopvar}]", key="known-form", where=f.where)
            else:
                ctx.ob("C13.P1", q, False, f"`{n.text()[:80]}` is appended without distinguishing known from unknown ids", key="branch", where=f.where)
        # empty request => all in table order
        allb = [n for n in cfg.real_nodes() if isinstance(n.ast, ast.Assign) and norm(n.ast.targets[0]) == resp and isinstance(n.ast.value, ast.ListComp)]
        ok = False
        for n in allb:
            comp = n.ast.value
            conds = [(norm(t), v) for t, v in cfg.dominating_conditions(n)]
            if (f"len({fv}) == 0", True) in conds or (f"not {fv}", True) in conds:
                g = comp.generators[0]
                ok = len(comp.generators) == 1 and not g.ifs and norm(g.iter) == f"{table}.values()"
        ctx.ob("C13.P1", q, ok, "an empty request lists every table entry, unfiltered, in table order" if ok else "the empty-request branch does not list all entries of the table unfiltered", key="empty-all", where=f.where)
        # loop runs only for non-empty requests and in request order (no sorted/reversed/set)
        ok = isinstance(L.ast.iter, ast.Name)
        ctx.ob("C13.P1", q, ok, "ids are visited in request order" if ok else f"the loop iterates `{norm(L.ast.iter)}`", key="order", where=f.where)
        rets = [n for n in cfg.real_nodes() if isinstance(n.ast, ast.Return)]
        ok = len(rets) == 1 and _is_sf_instance(rets[0].ast.value, S, F, resp)
        ctx.ob("C13.P1", q, ok, f"the reply is S{S}F{F} carrying the built list" if ok else f"returns `{norm(rets[0].ast.value) if rets else None}`", key="reply", where=f.where)


def _is_sf_instance(expr, S, F, arg_txt) -> bool:
    return (isinstance(expr, ast.Call) and isinstance(expr.func, ast.Call) and (call_name(expr.func) or "").endswith("stream_function")
            and [norm(a) for a in expr.func.args] == [str(S), str(F)] and len(expr.args) == 1 and norm(expr.args[0]) == arg_txt)


def _is_empty_form(arg, loopvar) -> bool:
    if isinstance(arg, ast.Call) and (call_name(arg) or "").endswith("variables.Array") and len(arg.args) == 2 and isinstance(arg.args[1], ast.List) and not arg.args[1].elts:
        return True
    if isinstance(arg, ast.Dict):
        vals = {k.value: v for k, v in zip(arg.keys, arg.values) if isinstance(k, ast.Constant)}
        ids = [k for k, v in vals.items() if norm(v) == loopvar]
        rest = [v for k, v in vals.items() if k not in ids]
        return len(ids) == 1 and all(isinstance(v, ast.Constant) and v.value == "" for v in rest)
    return False


def _uses_entry_of(fn, arg, table, loopvar, getter) -> bool:
    entry_vars = {t.id for st in rules.func_stmts(fn) if isinstance(st, ast.Assign) and norm(st.value) == f"{table}[{loopvar}]" for t in st.targets if isinstance(t, ast.Name)}
    names = {n.id for n in ast.walk(arg) if isinstance(n, ast.Name)}
    direct = f"{table}[{loopvar}]" in norm(arg)
    if getter:
        return isinstance(arg, ast.Call) and call_name(arg) == getter and len(arg.args) == 1 and (norm(arg.args[0]) in entry_vars or norm(arg.args[0]) == f"{table}[{loopvar}]")
    return bool(names & entry_vars) or direct


def check_s02f15(ctx):
    repo = ctx.repo
    f = repo.method("EquipmentConstantsCapability", "_on_s02f15", inherited=False)
    ctx.touch(f)
    q = f.qualname
    fn = f.node
    cfg = cfg_of(fn)
    fv = _decoded_var(f)
    ctx.require(fv is not None, f"{q}: decode not found")
    loops = [n for n in cfg.nodes if n.kind == "iter" and norm(n.ast.iter) == fv]
    sets = [n for n in cfg.real_nodes() if any(c == "self._set_ec_value" for c in n.call_names())]
    ctx.require(len(sets) >= 1 and len(loops) >= 1, f"{q}: apply step / loops not found")
    # EAC variable = what is returned
    rets = [n for n in cfg.real_nodes() if isinstance(n.ast, ast.Return)]
    eacs = {norm(r.ast.value.args[0]) for r in rets if isinstance(r.ast.value, ast.Call) and r.ast.value.args}
    ok = len(rets) == 1 and len(eacs) == 1 and _is_sf_instance(rets[0].ast.value, 2, 16, next(iter(eacs)))
    ctx.ob("C13.P2", q, ok, "the reply is S2F16 carrying the validation result" if ok else f"returns {[r.text() for r in rets]}", key="reply", where=f.where)
    if not ok:
        return
    eac = next(iter(eacs))
    # every write happens after all validation
    val_loops = [l for l in loops if not any(cfg.path_exists(rules.branch_marker(l, "true"), s, avoid=[l]) for s in sets)]
    app_loops = [l for l in loops if l not in val_loops]
    ok = len(val_loops) >= 1 and len(app_loops) >= 1 and all(cfg.dominates(rules.branch_marker(v, "false"), s) for v in val_loops for s in sets)
    ctx.ob("C13.P2", q, ok, "no constant is written before the whole request has been validated" if ok else
           "a constant can be written while later entries of the same S2F15 are still unvalidated: a request that is refused has already changed the earlier constants (all-or-none is broken)",
           key="validate-all-first", where=f.where)
    for s in sets:
        conds = [(norm(t), v) for t, v in cfg.dominating_conditions(s)]
        ok = (f"{eac} == 0", True) in conds or (f"{eac} != 0", False) in conds or (f"not {eac}", True) in conds
        ctx.ob("C13.P2", q, ok, "constants are written only under EAC 0" if ok else f"_set_ec_value runs under {conds}, not under `{eac} == 0`", key="apply-guard", where=f.where)
    # validation loop writes only eac
    for v in val_loops:
        body_nodes = [n for n in cfg.real_nodes() if cfg.path_exists(rules.branch_marker(v, "true"), n, avoid=[v]) and n is not v]
        writes = set()
        for n in body_nodes:
            if isinstance(n.ast, (ast.Assign, ast.AugAssign)):
                for t in rules.assigned_targets(n.ast):
                    d = dotted(t) or norm(t)
                    if d.startswith("self.") or "[" in d or "." in d:
                        writes.add(d)
            for c in n.calls:
                cn = call_name(c) or ""
                if cn.startswith("self._set_") or cn.endswith(".update") or cn.endswith("on_ec_value_update"):
                    writes.add(cn)
        ctx.ob("C13.P2", q, not writes, "the validation pass has no side effect on the constants" if not writes else f"the validation pass writes {sorted(writes)}", key="validation-pure", where=f.where)
        breaks = [n for n in body_nodes if isinstance(n.ast, ast.Break)]
        ctx.ob("C13.P2", q, True, "validation visits the entries (an early break only shortens the check)", key="validation-loop", where=f.where, breaks=len(breaks))
        # bounds
        assigns = [n for n in body_nodes if isinstance(n.ast, ast.Assign) and norm(n.ast.targets[0]) == eac]
        bound_tests = {"min": None, "max": None}
        for n in assigns:
            val = n.ast.value.value if isinstance(n.ast.value, ast.Constant) else None
            conds = cfg.dominating_conditions(n)
            inner = [(t, tv) for t, tv in conds if any(t is x or _contains(t, x) for x in [t]) and _within_loop(cfg, v, t)]
            txts = [(norm(t), tv) for t, tv in inner]
            if val == 3:
                for kind, attr, op in (("min", "min_value", ast.Lt), ("max", "max_value", ast.Gt)):
                    hit = [(t, tv) for t, tv in inner if f".{attr}" in norm(t)]
                    if not hit:
                        continue
                    t, tv = hit[-1]
                    parts = t.values if isinstance(t, ast.BoolOp) and isinstance(t.op, ast.And) else [t]
                    cmp_ok = any(isinstance(p, ast.Compare) and len(p.ops) == 1 and isinstance(p.ops[0], op) and f".{attr}" in norm(p.comparators[0]) and ".ECV" in rules.expand(fn, p.left) for p in parts)
                    guard_only_none = all((isinstance(p, ast.Compare) and ((isinstance(p.ops[0], ast.IsNot) and f".{attr} is not None" in norm(p)) or isinstance(p.ops[0], op))) for p in parts)
                    extra = [x for x in txts if x[0] != norm(t) and not (" not in self._equipment_constants" in x[0] or " in self._equipment_constants" in x[0])]
                    bound_tests[kind] = (cmp_ok and tv and guard_only_none and not extra, norm(t), extra)
        for kind, res in bound_tests.items():
            ok = res is not None and res[0]
            ctx.ob("C13.P2", q, ok,
                   f"a value {'below the declared minimum' if kind == 'min' else 'above the declared maximum'} sets EAC 3 whenever the bound is declared" if ok else
                   (f"no strict comparison of the new value with the declared {kind} bound sets EAC 3" if res is None else
                    f"the {kind}-bound check `{res[1]}` is subject to further conditions {res[2]}: some values (e.g. text or multi-value items) bypass the range check and leave the constant outside its limits"),
                   key="bound " + kind, where=f.where)
        unk = [n for n in assigns if isinstance(n.ast.value, ast.Constant) and n.ast.value.value == 1]
        ok = any(any((" not in self._equipment_constants" in norm(t) and tv) or (" in self._equipment_constants" in norm(t) and " not in " not in norm(t) and not tv) for t, tv in cfg.dominating_conditions(n)) for n in unk)
        ctx.ob("C13.P2", q, ok, "an unknown ECID sets EAC 1" if ok else "no EAC 1 for an unknown ECID", key="unknown-ecid", where=f.where)
    # apply loop writes every entry with its own value
    for s in sets:
        c = next(c for c in s.calls if call_name(c) == "self._set_ec_value")
        lv = None
        for l in app_loops:
            if cfg.path_exists(rules.branch_marker(l, "true"), s, avoid=[l]) and isinstance(l.ast.target, ast.Name):
                lv = l.ast.target.id
        ok = lv is not None and len(c.args) == 2 and rules.expand(fn, c.args[0]) in (f"self._equipment_constants[{lv}.ECID]", f"self._equipment_constants[{lv}.ECID.get()]", f"self.equipment_constants[{lv}.ECID.get()]", f"self.equipment_constants[{lv}.ECID]") and rules.expand(fn, c.args[1]) == f"{lv}.ECV.get()"
        ctx.ob("C13.P2", q, ok, "each entry's constant receives that entry's value" if ok else f"`{norm(c)}` does not write entry.ECV to the constant named by entry.ECID", key="apply-args", where=f.where)
    init_eac = [n for n in cfg.real_nodes() if isinstance(n.ast, ast.Assign) and norm(n.ast.targets[0]) == eac and not any(n.loops)]
    ok = any(isinstance(n.ast.value, ast.Constant) and n.ast.value.value == 0 for n in init_eac)
    ctx.ob("C13.P2", q, ok, "EAC starts at 0" if ok else "EAC is not initialised to 0", key="eac-init", where=f.where)
    # _set_ec_value stores
    sv = repo.method("EquipmentConstantsCapability", "_set_ec_value", inherited=False)
    ctx.touch(sv)
    scfg = cfg_of(sv.node)
    p_ec, p_val = [a.arg for a in sv.node.args.args[1:3]]
    stores = [n for n in scfg.real_nodes() if (isinstance(n.ast, ast.Assign) and norm(n.ast.targets[0]) == f"{p_ec}.value" and norm(n.ast.value) == p_val) or any(c == "self.on_ec_value_update" for c in n.call_names())]
    ok = bool(stores) and not scfg.path_exists(scfg.entry, scfg.exit, avoid=stores, no_exc=True)
    ctx.ob("C13.P2", sv.qualname, ok, "_set_ec_value stores the value (or hands it to the user's update hook) on every path" if ok else "_set_ec_value has a path that neither stores the value nor calls the update hook", where=sv.where)


def _contains(outer, inner) -> bool:
    return any(n is inner for n in ast.walk(outer))


def _within_loop(cfg, loop_node, test_expr) -> bool:
    return any(n is test_expr for n in ast.walk(loop_node.ast))


def check_alarms(ctx):
    repo = ctx.repo
    for mname, newval, setbit in (("set_alarm", True, True), ("clear_alarm", False, False)):
        f = repo.method("AlarmCapability", mname, inherited=False)
        ctx.touch(f)
        q = f.qualname
        cfg = cfg_of(f.node)
        p = f.node.args.args[1].arg
        entry = f"self.alarms[{p}]"
        sends = [(n, c) for n in cfg.real_nodes() for c in n.calls if call_name(c) in ("self.send_and_waitfor_response", "self.send_stream_function")]
        ok = len(sends) == 1
        ctx.ob("C13.P3", q, ok, "one S5F1 send site" if ok else f"{len(sends)} send sites", key="one-send", where=f.where)
        if not ok:
            continue
        n, c = sends[0]
        conds = cfg.dominating_conditions(n)
        txts = [(norm(t), v) for t, v in conds]
        enabled_ok = (f"{entry}.enabled", True) in txts or (f"self._alarms[{p}].enabled", True) in txts
        other = [(t, v) for t, v in txts if ".enabled" not in t and ".set" not in t and " not in self.alarms" not in t and " not in self._alarms" not in t]
        ctx.ob("C13.P3", q, enabled_ok and not other, "S5F1 is sent iff the alarm is enabled at that moment" if (enabled_ok and not other) else
               f"the S5F1 send is guarded by {txts}: it must depend on the alarm's current `enabled` flag alone (a report for a disabled alarm, or none for an enabled one, follows an S5F3 between set and clear)",
               key="enabled-guard", where=f.where)
        # only on change
        want_early = (f"{entry}.set", True) if newval else (f"not {entry}.set", True)
        early = [r for r in cfg.real_nodes() if isinstance(r.ast, ast.Return) and want_early in [(norm(t), v) for t, v in cfg.dominating_conditions(r)]]
        ok = bool(early) and not cfg.path_exists(early[0], n) and all(cfg.path_exists(cfg.entry, n, avoid=[]) for _ in [0])
        no_change_path = any(v for t, v in txts if t == want_early[0] and v == want_early[1])
        ctx.ob("C13.P3", q, ok and not no_change_path, "nothing is sent when the alarm already is in the requested state" if (ok and not no_change_path) else "S5F1 can be sent although the set state does not change", key="only-on-change", where=f.where)
        # body
        a0 = c.args[0] if c.args else None
        sf_ok = isinstance(a0, ast.Call) and isinstance(a0.func, ast.Call) and [norm(x) for x in a0.func.args] == ["5", "1"] and a0.args and isinstance(a0.args[0], ast.Dict)
        body = {k.value: v for k, v in zip(a0.args[0].keys, a0.args[0].values)} if sf_ok else {}
        alcd = norm(body.get("ALCD")) if "ALCD" in body else ""
        bit_ok = (("ALCD.ALARM_SET" in alcd and "|" in alcd) if setbit else ("ALARM_SET" not in alcd)) and f"{entry}.code" in alcd
        ok = sf_ok and bit_ok and norm(body.get("ALID")) == p and norm(body.get("ALTX")) == f"{entry}.text"
        ctx.ob("C13.P3", q, ok, f"S5F1 carries ALID, ALTX and ALCD with bit 7 {'set' if setbit else 'clear'}" if ok else f"S5F1 body is {norm(a0)[:120] if a0 is not None else None}", key="body", where=f.where)
        # state write after, on every non-early path
        writes = [w for w in cfg.real_nodes() if isinstance(w.ast, ast.Assign) and norm(w.ast.targets[0]) in (f"{entry}.set", f"self._alarms[{p}].set") and norm(w.ast.value) == str(newval)]
        ok = len(writes) == 1 and not cfg.path_exists(n, cfg.exit, avoid=writes, no_exc=True)
        ctx.ob("C13.P3", q, ok, f"the alarm's set state becomes {newval}" if ok else f"the set state is not updated to {newval} on every path", key="state-write", where=f.where)
        unk = [r for r in cfg.real_nodes() if isinstance(r.ast, ast.Raise)]
        ok = any(any(" not in self.alarms" in norm(t) and v for t, v in cfg.dominating_conditions(r)) for r in unk)
        ctx.ob("C13.P3", q, ok, "an unknown alarm id raises" if ok else "an unknown alarm id is not refused", key="unknown", where=f.where)
    # S5F3
    f = repo.method("AlarmCapability", "_on_s05f03", inherited=False)
    ctx.touch(f)
    cfg = cfg_of(f.node)
    writes = [n for n in cfg.real_nodes() if isinstance(n.ast, ast.Assign) and norm(n.ast.targets[0]).endswith(".enabled")]
    ok = len(writes) == 1
    if ok:
        w = writes[0]
        conds = [(norm(t), v) for t, v in cfg.dominating_conditions(w)]
        known = any((" not in self._alarms" in t or " not in self.alarms" in t) and not v for t, v in conds)
        val = norm(w.ast.value)
        ok = known and "ALED.get() == " in val and "ALED.ENABLE" in val and "alid]" in norm(w.ast.targets[0])
    ctx.ob("C13.P3", f.qualname, ok, "S5F3 sets the enabled flag of the named, known alarm from ALED" if ok else "S5F3 does not set exactly the named known alarm's enabled flag from ALED == ENABLE", key="s5f3-write", where=f.where)
    errs = [n for n in cfg.real_nodes() if isinstance(n.ast, ast.Assign) and "ACKC5.ERROR" in norm(n.ast.value)]
    ok = any(any((" not in self._alarms" in norm(t) or " not in self.alarms" in norm(t)) and v for t, v in cfg.dominating_conditions(n)) for n in errs)
    ctx.ob("C13.P3", f.qualname, ok, "an unknown ALID is acknowledged with an error code" if ok else "an unknown ALID is not answered with ACKC5 error", key="s5f3-unknown", where=f.where)
    # S5F7 filter
    f = repo.method("AlarmCapability", "_on_s05f07", inherited=False)
    ctx.touch(f)
    comps = [n for n in walk_no_nested(f.node) if isinstance(n, ast.ListComp)]
    ok = len(comps) == 1 and len(comps[0].generators) == 1 and [norm(i) for i in comps[0].generators[0].ifs] == ["self.alarms[alid].enabled"] and "self.alarms.keys()" in norm(comps[0].generators[0].iter)
    ctx.ob("C13.P3", f.qualname, ok, "S5F8 lists exactly the alarms whose enabled flag is set" if ok else "S5F7 does not filter the alarm table by the enabled flag", key="s5f7-filter", where=f.where)
    for hname in ("_on_s05f05", "_on_s05f07"):
        f = repo.method("AlarmCapability", hname, inherited=False)
        comps = [n for n in walk_no_nested(f.node) if isinstance(n, ast.ListComp)]
        ok = False
        for comp in comps:
            if isinstance(comp.elt, ast.Dict):
                body = {k.value: norm(v) for k, v in zip(comp.elt.keys, comp.elt.values)}
                lv = comp.generators[0].target.id
                ok = body.get("ALID") == lv and body.get("ALTX") == f"self.alarms[{lv}].text" and "ALARM_SET if" in body.get("ALCD", "") and f"self.alarms[{lv}].set else 0" in body.get("ALCD", "") and f"self.alarms[{lv}].code" in body.get("ALCD", "")
        ctx.ob("C13.P3", f.qualname, ok, "each listed alarm carries its id, text and ALCD with bit 7 = current set state" if ok else "the alarm list entries do not carry id/text/current set state", key="list-body", where=f.where)
    f = repo.method("AlarmCapability", "_on_s05f05", inherited=False)
    ctx.touch(f)
    comps = [n for n in walk_no_nested(f.node) if isinstance(n, ast.ListComp)]
    cfg = cfg_of(f.node)
    ok = len(comps) == 1 and not comps[0].generators[0].ifs and isinstance(comps[0].generators[0].iter, ast.Name)
    if ok:
        it = comps[0].generators[0].iter.id
        alls = [n for n in cfg.real_nodes() if isinstance(n.ast, ast.Assign) and norm(n.ast.targets[0]) == it and "self.alarms.keys()" in norm(n.ast.value)]
        ok = len(alls) == 1 and (f"len({it}) == 0", True) in [(norm(t), v) for t, v in cfg.dominating_conditions(alls[0])]
        src = [n for n in cfg.real_nodes() if isinstance(n.ast, ast.Assign) and norm(n.ast.targets[0]) == it and norm(n.ast.value).endswith(".get()")]
        ok = ok and len(src) == 1
    ctx.ob("C13.P1", f.qualname, ok, "S5F6 lists exactly the requested alarms in request order (all for an empty request)" if ok else "S5F5 does not answer exactly the requested ids in order", key="s5f5-order", where=f.where)


def check_current_values(ctx):
    repo = ctx.repo
    for cname, mname, entry in (("StatusDataCollectionCapability", "_get_sv_value", "status_variable"), ("EquipmentConstantsCapability", "_get_ec_value", "equipment_constant"), ("DataValueCapability", "_get_dv_value", "data_value")):
        f = repo.method(cname, mname, inherited=False)
        ctx.touch(f)
        p = f.node.args.args[1].arg
        cfg = cfg_of(f.node)
        plain = [n for n in cfg.real_nodes() if f"{p}.value_type({p}.value)" in n.text()]
        cb = [n for n in cfg.real_nodes() if any(c.startswith("self.on_") and c.endswith("_value_request") for c in n.call_names())]
        ok = bool(plain) and bool(cb) and any((f"{p}.use_callback", True) in [(norm(t), v) for t, v in cfg.dominating_conditions(n)] for n in cb)
        ctx.ob("C13.P4", f.qualname, ok, "the value is the entry's current value (or the user's callback when configured)" if ok else "the reply value is not value_type(entry.value) / the use_callback hook", where=f.where)


def run(ctx):
    check_list_handlers(ctx)
    check_s02f15(ctx)
    check_alarms(ctx)
    check_current_values(ctx)
