"""C11 - GEM control state follows the E30 control model."""

from __future__ import annotations

import ast
import json
import os

from ..cfg import cfg_of
from ..model import AnalysisError, call_name, calls_in, dotted, norm
from .. import fde, inline, machines, rules
from .. import conds as cnd

REF = os.path.join(os.path.dirname(os.path.dirname(__file__)), "reference", "e30_control.json")

META = {
    "explanation": "Table rule on the ControlStateMachine declaration (17 transitions) and its three forwarding enter handlers, "
    "finite-domain evaluation of the S1F15 / S1F17 handlers and of _get_control_state_id for every ControlState member "
    "(which transition is requested, which acknowledge code is returned, which collection event is triggered - compared "
    "with the E30/E5 table), legality of each requested transition in the state under which it is requested, "
    "registration table of the control-state collection events, and path rules on the attempt-online probe.",
    "decides": [
        "C11.T1 ControlStateMachine declaration = E30 control model; forwarding handlers select the configured/remembered sub-state; the remembered LOCAL/REMOTE sub-state is updated on every operator switch",
        "C11.P1 per current state: transition requested, ONLACK/OFLACK returned and event triggered by _on_s01f15/_on_s01f17 = reference table; read-set of the handlers is the control state only",
        "C11.S1 each transition requested by the handlers and operator methods is declared and legal in the state under which it is requested",
        "C11.T2 _get_control_state_id maps each state to the E30 CONTROLSTATE value; control-state collection events are attached to exactly the prescribed transitions / call sites",
        "C11.P2 attempt-online probe: exactly one transition per path, success only for an S1F2 reply while communicating",
    ],
    "does_not_decide": ["the S6F11 frames themselves (C12)", "timing of the S1F1 probe"],
    "assumptions": ["transition semantics of the engine (C18)"],
}


def _ref():
    with open(REF, encoding="utf-8") as handle:
        return json.load(handle)


def check_machine(ctx):
    ref = _ref()
    repo = ctx.repo
    m = machines.extract(repo, "ControlStateMachine")
    ctx.touch(m.cls.methods["__init__"])
    where = m.cls.where
    names = sorted(s["name"] for s in m.states.values())
    ok = names == sorted(ref["states"]) and all(s["parent"] is None for s in m.states.values())
    ctx.ob("C11.T1", "ControlStateMachine", ok, "declared states = E30 control states" if ok else f"declared states {names} differ from {sorted(ref['states'])}", key="states", where=where)
    init = [s["name"] for s in m.states.values() if s["initial"]]
    ok = init == [ref["initial"]] and m.initial_current and m.states[m.initial_current]["name"] == ref["initial"]
    ctx.ob("C11.T1", "ControlStateMachine", ok, "the machine starts in INIT" if ok else f"initial state(s) {init}", key="initial", where=where)
    declared = {t["name"]: t for t in m.transitions}
    ok = set(declared) == set(ref["transitions"])
    ctx.ob("C11.T1", "ControlStateMachine", ok, "declared transitions = E30 transitions" if ok else f"transitions differ: missing {sorted(set(ref['transitions']) - set(declared))}, extra {sorted(set(declared) - set(ref['transitions']))}", key="transitions", where=where)
    for name, spec in ref["transitions"].items():
        t = declared.get(name)
        if t is None:
            continue
        srcs = sorted(m.states[s]["name"] for s in t["sources"] if s in m.states)
        dst = m.states[t["dest"]]["name"] if t["dest"] in m.states else None
        ok = srcs == sorted(spec["sources"]) and dst == spec["dest"]
        ctx.ob("C11.T1", "ControlStateMachine", ok, f"{name}: {srcs} -> {dst} (E30 transition {spec['e30']})" if ok else f"{name}: declared {srcs} -> {dst}; E30 transition {spec['e30']} is {sorted(spec['sources'])} -> {spec['dest']}", key="transition " + name, where=where)
    # forwarding handlers
    regs = {(r["on"], r["event"]): r["handler"] for r in m.registrations}
    want = {("control", "enter"): "ctl", ("offline", "enter"): "off", ("online", "enter"): "on"}
    for key, kind in want.items():
        h = regs.get(key)
        ok = h is not None and h in m.cls.methods
        ctx.ob("C11.T1", "ControlStateMachine", ok, f"{key[0].upper()} forwards on enter ({h})" if ok else f"no enter handler on {key[0]}: the machine gets stuck in the transient state", key="forward " + key[0], where=where)
        if not ok:
            continue
        hm = m.cls.methods[h]
        ctx.touch(hm)
        if kind == "ctl":
            table = _eval_forward(repo, hm, "self._initial_control_state", ["EQUIPMENT_OFFLINE", "ATTEMPT_ONLINE", "HOST_OFFLINE", "ONLINE"])
            exp = {"EQUIPMENT_OFFLINE": "initial_offline", "ATTEMPT_ONLINE": "initial_offline", "HOST_OFFLINE": "initial_offline", "ONLINE": "initial_online"}
        elif kind == "off":
            table = _eval_forward(repo, hm, "self._initial_control_state", ["EQUIPMENT_OFFLINE", "ATTEMPT_ONLINE", "HOST_OFFLINE"])
            exp = {"EQUIPMENT_OFFLINE": "initial_equipment_offline", "ATTEMPT_ONLINE": "initial_attempt_online", "HOST_OFFLINE": "initial_host_offline"}
        else:
            table = _eval_forward(repo, hm, "self._online_control_state", ["LOCAL", "REMOTE"])
            exp = {"LOCAL": "initial_online_local", "REMOTE": "initial_online_remote"}
        ok = table == exp
        ctx.ob("C11.T1", hm.qualname, ok, f"forwarding by configuration: {table}" if ok else f"forwarding table {table} differs from {exp}", key="forward-table", where=hm.where)
    # remembered sub-state updated by the operator switches
    for meth, trans, val in (("switch_online_local", "switch_online_local", "LOCAL"), ("switch_online_remote", "switch_online_remote", "REMOTE")):
        f = m.cls.methods.get(meth)
        ctx.require(f is not None, f"ControlStateMachine.{meth} not found")
        ctx.touch(f)
        ok = m.methods.get(meth) == [trans]
        ctx.ob("C11.T1", f.qualname, ok, f"{meth}() performs {trans}" if ok else f"{meth}() performs {m.methods.get(meth)}", key="performs", where=f.where)
        stores = _always_stores(repo, f, "self._online_control_state", val, after_call="self._perform_transition")
        ctx.ob("C11.T1", f.qualname, stores, f"after the switch the remembered sub-state is {val} on every path" if stores else
               f"{meth}() does not store '{val}' as the remembered ONLINE sub-state on every path: the next entry into ONLINE (after S1F15/S1F17 or an operator off/on cycle) returns to the previously configured sub-state",
               key="remember", where=f.where)
    ctor = m.cls.methods["__init__"]
    assigned = {dotted(t): norm(s.value) for s in rules.func_stmts(ctor.node) if isinstance(s, ast.Assign) for t in s.targets}
    ok = assigned.get("self._initial_control_state") == "initial_control_state" and assigned.get("self._online_control_state") == "initial_online_control_state"
    ctx.ob("C11.T1", ctor.qualname, ok, "the configured initial states are stored" if ok else "the constructor does not store initial_control_state / initial_online_control_state", key="config", where=ctor.where)
    return m


def _eval_forward(repo, hm, attr, values):
    table = {}
    for v in values:
        ev = fde.FDE(repo, hm, {attr: v})
        tr = ev.run()
        performed = [a[0] for name, a in tr.calls if name == "self._perform_transition" and a]
        table[v] = performed[0] if len(performed) == 1 else performed
    return table


def _always_stores(repo, f, field, value, after_call=None, depth=0) -> bool:
    """Every normal path of f (after the first call of `after_call`) assigns field = value, directly or through a
    self-method that does so on every path."""
    cfg = cfg_of(inline.expand(repo, f, keep={"_perform_transition"})[0])
    setters = []
    for n in cfg.real_nodes():
        if isinstance(n.ast, ast.Assign) and any(dotted(t) == field for t in n.ast.targets) and isinstance(n.ast.value, ast.Constant) and n.ast.value.value == value:
            setters.append(n)
        elif isinstance(n.ast, ast.Assign) and any(dotted(t) == field for t in n.ast.targets) and isinstance(n.ast.value, ast.Name) and depth > 0:
            setters.append(n)  # parameter forwarded from the caller (checked at the call site)
        for c in n.calls:
            cn = call_name(c) or ""
            if cn.startswith("self.") and cn.count(".") == 1 and depth < 2 and f.cls is not None and cn != after_call:
                callee = f.cls.find_method(cn.split(".")[1])
                if callee is not None and callee is not f and any(isinstance(a, ast.Constant) and a.value == value for a in c.args):
                    if _always_stores(repo, callee, field, value, None, depth + 1):
                        setters.append(n)
    if not setters:
        return False
    start = cfg.entry
    if after_call:
        firsts = [n for n in cfg.real_nodes() if any(c == after_call for c in n.call_names())]
        if not firsts:
            return False
        start = firsts[0]
    return not cfg.path_exists(start, cfg.exit, avoid=setters, no_exc=True)


def _eval_handler(repo, f, state, extra_attr=None):
    attr = {"self._control_state.current": fde.Enum("ControlState", state)}
    attr.update(extra_attr or {})
    ev = fde.FDE(repo, f, attr, enum_classes={"ControlState", "CollectionEventId", "CommunicationState"})
    tr = ev.run()
    trans = [name.split(".")[-1] for name, a in tr.calls if name and name.startswith("self._control_state.")]
    events = []
    for name, a in tr.calls:
        if name == "self.trigger_collection_events" and a and isinstance(a[0], list):
            for x in a[0]:
                if isinstance(x, fde.Enum):
                    events.append(x.member)
                elif isinstance(x, int):
                    events.append(_ceid_name(repo, x))
                else:
                    events.append(repr(x))
    ack = None
    r = tr.returned
    if isinstance(r, tuple) and r[0] == "instance" and r[2]:
        ack = r[2][0]
        sf = r[1]
        sfargs = sf[2] if isinstance(sf, tuple) and sf[0] == "call" else None
    else:
        sfargs = None
    return {"transitions": trans, "events": events, "ack": ack, "sf": sfargs, "reads": None}


def _ceid_name(repo, value):
    for k, v in repo.enum_members("CollectionEventId").items():
        if v == value:
            return k
    return str(value)


def called_event_registrations(repo):
    """{transition name: [collection event names]} registered on `transition(<name>).events.called` in
    StateModelsCapability.__init__, plus the raw state-entry registrations."""
    cls = repo.cls("StateModelsCapability")
    init = cls.methods["__init__"]
    found = {}
    state_regs = []
    from .. import normal

    init_n = normal.normalise(repo, init)[0]  # registrations written as a loop over constant names are the single statements
    for c in calls_in(init_n):
        if isinstance(c.func, ast.Attribute) and c.func.attr == "register" and c.args:
            recv = c.func.value
            txt = norm(recv)
            h = dotted(c.args[0]) or norm(c.args[0])
            if ".transition(" in txt and txt.endswith(").events.called"):
                tcall = next(x for x in calls_in(recv) if (call_name(x) or "").endswith(".transition"))
                hm = cls.methods.get(h.split(".")[-1])
                evs = []
                if hm is not None:
                    for k in calls_in(hm.node):
                        if call_name(k) == "self.trigger_collection_events" and k.args and isinstance(k.args[0], ast.List):
                            evs += [norm(e).replace("CollectionEventId.", "").replace(".value", "") for e in k.args[0].elts]
                known, tname = rules.literal(init_n, tcall.args[0]) if tcall.args else (False, None)
                if not known:
                    raise AnalysisError(f"StateModelsCapability.__init__: transition name `{norm(tcall.args[0]) if tcall.args else ''}` of a `called` registration is not a literal")
                found.setdefault(tname, []).extend(evs)
            else:
                state_regs.append((txt, h))
    return found, state_regs


def check_host_requests(ctx, m):
    ref = _ref()
    repo = ctx.repo
    declared = {t["name"]: t for t in m.transitions}
    on_called, _ = called_event_registrations(repo)
    for hname, table_key, sec in (("_on_s01f15", "s1f15", 16), ("_on_s01f17", "s1f17", 18)):
        f = repo.method("StateModelsCapability", hname, inherited=False)
        ctx.touch(f)
        q = f.qualname
        for state, exp in ref[table_key].items():
            try:
                got = _eval_handler(repo, f, state)
            except fde.Undecided as exc:
                raise AnalysisError(str(exc)) from exc
            trans = got["transitions"]
            for t in trans:  # events attached to the requested transition's `called` event count as triggered by it
                got["events"] = got["events"] + [e for e in on_called.get(t, []) if e not in got["events"]]
            ok_t = trans == ([exp["transition"]] if exp["transition"] else [])
            ok_a = got["ack"] == exp["ack"]
            ok_e = got["events"] == exp["events"]
            ok_sf = got["sf"] == [1, sec]
            ok = ok_t and ok_a and ok_e and ok_sf
            what = f"in {state}: transition {trans or None}, ack {got['ack']}, events {got['events']}"
            ctx.ob("C11.P1", q, ok, what if ok else
                   what + f" - the E30/E5 table prescribes transition {exp['transition']}, ack {exp['ack']}, events {exp['events']}" + ("" if ok_sf else f" in S1F{sec}"),
                   key=f"{table_key} {state}", where=f.where)
            for t in trans:
                d = declared.get(t)
                legal = d is not None and any(m.states[s]["name"] == state for s in d["sources"])
                ctx.ob("C11.S1", q, legal, f"{t}() is legal in {state}" if legal else f"{t}() is requested in {state} but its sources are {[m.states[s]['name'] for s in d['sources']] if d else 'undeclared'}: WrongSourceStateError turns the acknowledge into S1F0",
                       key=f"{table_key} {state} {t}", where=f.where)
        # read-set: only the control state
        reads = set()
        for n in ast.walk(f.node):
            if isinstance(n, ast.Attribute):
                d = dotted(n)
                if d and d.startswith("self._") and not d.startswith("self._control_state"):
                    reads.add(d)
        ctx.ob("C11.P1", q, not reads, "the handler's answer depends on the control state only" if not reads else f"the handler also reads {sorted(reads)}: the acknowledge is not a function of the state in which the request arrived", key=f"{table_key} read-set", where=f.where)


def check_state_id(ctx):
    ref = _ref()
    repo = ctx.repo
    f = repo.method("StateModelsCapability", "_get_control_state_id", inherited=False)
    ctx.touch(f)
    for state, exp in ref["control_state_id"].items():
        ev = fde.FDE(repo, f, {"self._control_state.current": fde.Enum("ControlState", state)}, enum_classes={"ControlState"})
        try:
            tr = ev.run()
        except fde.Undecided as exc:
            raise AnalysisError(str(exc)) from exc
        ok = tr.returned == exp
        ctx.ob("C11.T2", f.qualname, ok, f"{state} is reported as CONTROLSTATE {exp}" if ok else f"{state} is reported as {tr.returned}; E30 prescribes {exp}", key="id " + state, where=f.where)
    sv = repo.method("StatusDataCollectionCapability", "_get_sv_value", inherited=False)
    ctx.touch(sv)
    cfg = cfg_of(sv.node)
    n = [x for x in cfg.real_nodes() if any(c == "self._get_control_state_id" for c in x.call_names())]
    ok = len(n) == 1 and any("StatusVariableId.CONTROL_STATE.value" in norm(t) and v for t, v in cfg.dominating_conditions(n[0]))
    ctx.ob("C11.T2", sv.qualname, ok, "the CONTROL_STATE status variable is computed from the current control state on every request" if ok else "the CONTROL_STATE status variable is not computed by _get_control_state_id()", where=sv.where)


def check_events(ctx):
    ref = _ref()
    repo = ctx.repo
    cls = repo.cls("StateModelsCapability")
    init = cls.methods["__init__"]
    ctx.touch(init)
    on_called, state_regs = called_event_registrations(repo)
    got = {t: (evs[0] if len(evs) == 1 else evs) for t, evs in on_called.items() if t in ref["events_on_transitions"] or any(e.startswith("CONTROL_STATE") for e in evs)}
    ok = got == ref["events_on_transitions"]
    ctx.ob("C11.T2", "StateModelsCapability.__init__", ok, "LOCAL/REMOTE collection events are attached to exactly the transitions into ONLINE_LOCAL / ONLINE_REMOTE" if ok else
           f"control-state events are attached to {got}; the model prescribes {ref['events_on_transitions']}", key="event-registrations", where=init.where)
    # state-entry registrations may only be the attempt-online probe
    extra = [(t, h) for t, h in state_regs if not (t == "self._control_state.attempt_online.events.enter" and h == "self._on_control_state_attempt_online")]
    triggering = []
    for t, h in extra:
        hm = cls.methods.get(h.split(".")[-1])
        if hm is not None and any(call_name(c) == "self.trigger_collection_events" for c in calls_in(hm.node)):
            triggering.append((t, h))
    ctx.ob("C11.T2", "StateModelsCapability.__init__", not triggering, "no collection event is attached to a state entry (entries happen on several transitions)" if not triggering else
           f"collection events attached to state entries {triggering}: an event reported on entry fires for every transition into that state, e.g. Equipment OFF-LINE after a failed attempt-online (transition 4) of equipment that never was on-line", key="no-entry-events", where=init.where)
    # EQUIPMENT_OFFLINE: reported exactly after the transitions that leave ON-LINE
    after = set(t for t, evs in on_called.items() if "EQUIPMENT_OFFLINE" in evs)
    for name, meth in cls.methods.items():
        cfg = cfg_of(meth.node)
        for n in cfg.real_nodes():
            for c in n.calls:
                if call_name(c) == "self.trigger_collection_events" and any("EQUIPMENT_OFFLINE" in rules.expand(meth.node, a) for a in c.args):
                    prev = [x for x in cfg.real_nodes() if any(k.startswith("self._control_state.") and k.split(".")[-1] != "current" for k in x.call_names()) and cfg.dominates(x, n)]
                    after.add(prev[-1].call_names()[-1].split(".")[-1] if prev else f"<no transition, in {name}>")
    want = set(ref["equipment_offline_event_after"].values())
    ok = after == want
    ctx.ob("C11.T2", "StateModelsCapability", ok, "Equipment OFF-LINE is reported exactly after switch_offline (operator) and remote_offline (S1F15)" if ok else
           f"Equipment OFF-LINE is reported after {sorted(after)}; the model prescribes {sorted(want)}", key="equipment-offline-sites", where=cls.where)
    # operator wrappers
    for meth, trans in (("control_switch_online", "switch_online"), ("control_switch_offline", "switch_offline"), ("control_switch_online_local", "switch_online_local"), ("control_switch_online_remote", "switch_online_remote")):
        f = cls.methods[meth]
        ctx.touch(f)
        from .. import normal

        t = [call_name(c).split(".")[-1] for c in calls_in(normal.normalised(ctx, f)) if (call_name(c) or "").startswith("self._control_state.")]  # a local for the machine is the machine
        ok = t == [trans]
        ctx.ob("C11.S1", f.qualname, ok, f"{meth}() requests {trans}" if ok else f"{meth}() requests {t}", where=f.where)


def check_probe(ctx):
    repo = ctx.repo
    cls = repo.cls("StateModelsCapability")
    f = cls.methods["_on_control_state_attempt_online"]
    ctx.touch(f)
    q = f.qualname
    cfg = cfg_of(f.node)
    trans = [n for n in cfg.real_nodes() if any(c.startswith("self._control_state.") and c.split(".")[-1] != "current" for c in n.call_names())]
    cnt = cfg.count_on_paths(lambda n: n in trans, cfg.entry, cfg.exit, no_exc=True)
    ok = cnt == (1, 1)
    ctx.ob("C11.P2", q, ok, "the probe ends with exactly one transition on every path" if ok else f"transitions per path of the probe: {cnt} (0 = stuck in ATTEMPT_ONLINE, 2 = WrongSourceStateError)", key="one-transition", where=f.where)
    succ = [n for n in trans if any(c.endswith("attempt_online_success") for c in n.call_names())]
    fail = [n for n in trans if n not in succ]
    ok = len(succ) == 1 and all(any(c.endswith("attempt_online_fail_host_offline") or c.endswith("attempt_online_fail_equipment_offline") for c in n.call_names()) for n in fail) and len(fail) >= 1
    ctx.ob("C11.P2", q, ok, "one success exit and the failure exits request the fail transition" if ok else f"probe exits: {[t.text() for t in trans]}", key="exits", where=f.where)
    if succ:
        rvars = [t.id for s_ in rules.func_stmts(f.node) if isinstance(s_, ast.Assign) and isinstance(s_.value, ast.Call) and call_name(s_.value) == "self.are_you_there" for t in s_.targets if isinstance(t, ast.Name)]
        rv = rvars[0] if rvars else "response"
        need = ["self._communication_state.current == CommunicationState.COMMUNICATING", f"{rv} is not None", f"{rv}.header.stream == 1", f"{rv}.header.function == 2"]
        ok = all(cnd.holds(cfg, succ[0], c) for c in need)
        conds = cnd.describe(cfg, succ[0])
        ctx.ob("C11.P2", q, ok, "ONLINE is entered only while communicating and after an S1F2 reply" if ok else f"success guard is {conds}", key="success-guard", where=f.where)
    probe = [n for n in cfg.real_nodes() if any(c == "self.are_you_there" for c in n.call_names())]
    ok = len(probe) == 1 and all(cfg.dominates(probe[0], s) for s in succ)
    ctx.ob("C11.P2", q, ok, "the probe sends S1F1 (are_you_there) before success" if ok else "success does not follow an S1F1 probe", key="probe", where=f.where)
    init = cls.methods["__init__"]
    from .. import normal

    init_n = normal.normalised(ctx, init)
    starts = [c for c in calls_in(init_n) if call_name(c) == "self._control_state.start"]
    cfgi = cfg_of(init_n)
    sn = [n for n in cfgi.real_nodes() if any(c == "self._control_state.start" for c in n.call_names())]
    regs = [n for n in cfgi.real_nodes() if any(isinstance(c.func, ast.Attribute) and c.func.attr == "register" for c in n.calls)]
    ok = len(starts) == 1 and all(cfgi.dominates(r, sn[0]) for r in regs)
    ctx.ob("C11.P2", init.qualname, ok, "handlers are registered before the machine is started" if ok else "the control state machine is started before all handlers are registered: the initial forwarding misses events", key="start-last", where=init.where)


def run(ctx):
    m = check_machine(ctx)
    check_host_requests(ctx, m)
    check_state_id(ctx)
    check_events(ctx)
    check_probe(ctx)
