"""C08 - every primary expecting a reply is answered exactly once, with the same system bytes."""

from __future__ import annotations

import ast
import re

from ..cfg import cfg_of
from ..model import AnalysisError, call_name, calls_in, dotted, norm, walk_no_nested
from .. import callgraph, normal, rules
from .. import conds as cnd

META = {
    "explanation": "Path rules on SecsHandler._handle_stream_function/_handle_unknown_functions (one reply per path, "
    "system bytes taken from the request header, abort on callback failure, S9F5 with the offending header), a "
    "callback->secondary table over every _on_sXXfYY method of the handler classes, argument-provenance rules from "
    "send_response down to the header constructors of both protocols, and the decode-before-dispatch escape rule.",
    "decides": [
        "C08.P1 _handle_stream_function: unknown callback => S9F5(header) under W-bit; callback result sent once with message.header.system; callback failure => SxF0 with message.header.system",
        "C08.P2 a reply is sent only if the primary has the W-bit",
        "C08.T1 every _on_sAAfBB returns None or an instance of stream_function(AA, BB+1) on every return path; inline replies happen once and nothing that can raise follows them outside a try",
        "C08.A1 system bytes flow unchanged: send_response -> _create_message_for_function -> header constructor (both protocols, positional/keyword binding checked against the constructor signature)",
        "C08.X1 nothing that can raise precedes the message_received hand-over in the protocol layer (uncatalogued S/F and malformed bodies must reach the handler)",
        "C08.C1 CallbackHandler: membership test and call use the same lookup (registered callback, else _on_<name> of the target)",
        "C08.G1 every message received while COMMUNICATING is handed to the callback dispatcher, unchanged and under no other condition (shared with C07.P1)",
        "C08.S1 on the serial line a queued (reply) block is dequeued only when it is about to be transferred and is resolved exactly once (shared with C17.P2); HSMS frames are cut from the byte stream exactly (shared with C04.P1), the HSMS header is laid out and read back bit by bit (C04.B1), a reply is written completely or reported failed (C10.P1/P2)",
        "C08.R1 no request function leaves its response queue registered (a stale entry swallows a later primary carrying the same system bytes, which then gets no reply)",
    ],
    "does_not_decide": ["the content of the secondary beyond its class", "whether communication is established (C07.P1)"],
    "assumptions": ["callbacks are dispatched only through CallbackHandler name lookup (checked: no other getattr with a computed name in the handler classes)"],
}

SF_NAME = re.compile(r"^_on_s(\d\d)f(\d\d)$")


def _sys_arg(param):
    return f"{param}.header.system"


def check_handle_stream_function(ctx):
    repo = ctx.repo
    f = repo.method("SecsHandler", "_handle_stream_function", inherited=False)
    ctx.touch(f)
    from .. import inline

    fn = inline.expanded(ctx, f, keep={"_handle_unknown_functions", "_generate_sf_callback_name"})  # e.g. an extracted "send the abort" helper
    q = f.qualname
    cfg = cfg_of(fn)
    param = fn.args.args[1].arg
    # callback name derivation
    g = repo.method("SecsHandler", "_generate_sf_callback_name", inherited=False)
    rets = [s for s in rules.func_stmts(g.node) if isinstance(s, ast.Return)]
    ok = len(rets) == 1 and rules.text_template(rets[0].value) == [("lit", "s"), ("fmt", "stream", "02d"), ("lit", "f"), ("fmt", "function", "02d")]
    ctx.ob("C08.P1", g.qualname, ok, "callback names are s<SS>f<FF> with two digits each" if ok else f"callback name format is {norm(rets[0].value) if rets else None}: handlers named _on_sSSfFF are not found", where=g.where)
    idx = [n for n in cfg.real_nodes() if any(c == "self._generate_sf_callback_name" for c in n.call_names())]
    ctx.require(len(idx) == 1, f"{q}: callback index computation not found")
    c = next(c for c in idx[0].calls if call_name(c) == "self._generate_sf_callback_name")
    ok = [norm(a) for a in c.args] == [f"{param}.header.stream", f"{param}.header.function"]
    ctx.ob("C08.P1", q, ok, "the callback is selected by the stream and function of the received header" if ok else f"`{norm(c)}` does not use (message.header.stream, message.header.function)", key="index", where=f.where)
    idxvar = idx[0].ast.targets[0].id if isinstance(idx[0].ast, ast.Assign) else None
    # unknown branch
    unk = [n for n in cfg.real_nodes() if any(c == "self._handle_unknown_functions" for c in n.call_names())]
    ok = len(unk) == 1
    ctx.ob("C08.P1", q, ok, "a message without callback goes to _handle_unknown_functions" if ok else f"{len(unk)} calls of _handle_unknown_functions", key="unknown-call", where=f.where)
    if ok:
        good = cnd.holds(cfg, unk[0], f"{idxvar} not in self._callback_handler")
        ctx.ob("C08.P1", q, good, "unknown = the callback name is not in the callback handler" if good else f"unknown-function branch guard is: {cnd.describe(cfg, unk[0])}", key="unknown-guard", where=f.where)
        uc = next(c for c in unk[0].calls if call_name(c) == "self._handle_unknown_functions")
        ok2 = [norm(a) for a in uc.args] == [param]
        ctx.ob("C08.P1", q, ok2, "the unknown-function handler receives the message" if ok2 else f"`{norm(uc)}`", key="unknown-arg", where=f.where)
    # known branch
    cb_calls = [n for n in cfg.real_nodes() if isinstance(n.ast, ast.Assign) and isinstance(n.ast.value, ast.Call) and len(n.ast.value.args) == 2 and norm(n.ast.value.args[1]) == param
                and (isinstance(n.ast.value.func, ast.Name) or (isinstance(n.ast.value.func, ast.Call) and call_name(n.ast.value.func) == "getattr"))]
    ctx.require(len(cb_calls) == 1, f"{q}: `result = callback(self, message)` not found")
    CB = cb_calls[0]
    cbcall = CB.ast.value
    resvar = CB.ast.targets[0].id
    ok = callgraph.broadly_guarded(fn, cbcall)
    ctx.ob("C08.P1", q, ok, "the callback runs inside a broad try (a failing callback is answered with an abort)" if ok else "a callback exception escapes: the primary gets no SxF0 abort", key="callback-guarded", where=f.where)
    # callback is fetched by the computed name
    fetched = rules.expand(fn, cbcall.func)  # the callee, a local bound to the getattr or the getattr itself
    ok = fetched == f"getattr(self._callback_handler, {idxvar})" or (idxvar is not None and fetched == f"getattr(self._callback_handler, {rules.expand(fn, ast.Name(id=idxvar, ctx=ast.Load()))})")
    ctx.ob("C08.P1", q, ok, "the callback that runs is the one registered under the computed name" if ok else "the invoked callback is not fetched from the callback handler by the computed name", key="callback-fetch", where=f.where)
    sends = [(n, c) for n in cfg.real_nodes() for c in n.calls if call_name(c) == "self.send_response"]
    handlers = [n for n in cfg.nodes if n.kind == "handler"]
    normal_sends = [(n, c) for n, c in sends if not any(cfg.dominates(h, n) for h in handlers)]
    abort_sends = [(n, c) for n, c in sends if any(cfg.dominates(h, n) for h in handlers)]
    for n, c in sends:
        ok = len(c.args) == 2 and norm(c.args[1]) == _sys_arg(param)
        ctx.ob("C08.P1", q, ok, "the reply carries the system bytes of the request header" if ok else f"`{norm(c)}` does not reply with {param}.header.system", key="system " + norm(c.args[0] if c.args else c), where=f.where)
    ok = len(normal_sends) == 1 and norm(normal_sends[0][1].args[0]) == resvar
    ctx.ob("C08.P1", q, ok, "the callback's result is what is sent" if ok else f"normal-path sends: {[norm(c) for _, c in normal_sends]} (expected one send of the callback result)", key="sends-result", where=f.where)
    if ok:
        n = normal_sends[0][0]
        ok2 = cnd.holds(cfg, n, f"{resvar} is not None")
        ctx.ob("C08.P1", q, ok2, "a reply is sent iff the callback returned one" if ok2 else f"guard of the reply is: {cnd.describe(cfg, n)}", key="result-guard", where=f.where)
        cnt = cfg.count_on_paths(lambda x: x is n, CB, cfg.exit, no_exc=True)
        ok3 = cnt is not None and cnt[1] == 1
        ctx.ob("C08.P1", q, ok3, "at most one reply on the normal path" if ok3 else f"replies per normal path: {cnt}", key="one-reply", where=f.where)
    ok = len(abort_sends) == 1
    ctx.ob("C08.P1", q, ok, "a failing callback is answered by one abort" if ok else f"{len(abort_sends)} sends in the exception handler", key="one-abort", where=f.where)
    for n, c in abort_sends:
        a0 = c.args[0] if c.args else None
        if isinstance(a0, ast.Name):
            a0 = rules.expand_ast(fn, a0)  # built in a local first
        ok = isinstance(a0, ast.Call) and isinstance(a0.func, ast.Call) and call_name(a0.func) == "self.stream_function" and [norm(x) for x in a0.func.args] == [f"{param}.header.stream", "0"] and not a0.args
        ctx.ob("C08.P1", q, ok, "the abort is function 0 of the request's stream" if ok else f"abort `{norm(a0)}` is not stream_function(message.header.stream, 0)()", key="abort-class", where=f.where)
        if ok:
            # "for all stream/function numbers (catalogued or not)": the lookup of the abort class must not itself fail
            look = repo.method("SecsHandler", "stream_function")
            ctx.touch(look)
            can_raise = any(isinstance(x, ast.Raise) for x in walk_no_nested(look.node))
            inner_try = any(isinstance(t, ast.Try) and any(x is c for x in ast.walk(t)) for h in ast.walk(fn) if isinstance(h, ast.ExceptHandler) for t in ast.walk(h))
            total = not can_raise or inner_try
            ctx.ob("C08.P1", q, total, "the abort class is available for every stream" if total else
                   "the abort class is looked up with stream_function(), which raises KeyError for a stream without a catalogued function 0: inside the exception handler this escapes and the primary gets no reply at all "
                   "(input: a W-bit primary of a user-registered stream, e.g. S64F1 with S64F1/S64F2 added to the catalogue, whose callback raises)", key="abort-total", where=f.where)
    # the lookup both replies are built with: for numbers the catalogue has it hands out exactly the catalogue's class
    from .. import summary

    look = repo.method("SecsHandler", "stream_function")
    ctx.touch(look)
    lfn, _ = normal.normalise(repo, look, comps=False, ifexp=False)
    want = "self.settings.streams_functions.function(" + ", ".join(a.arg for a in lfn.args.args[1:]) + ")"
    found = [p_ for p_ in summary.summarise(lfn) if (f"{want} is None", False) in p_.conds or not any(want in a for a, _ in p_.conds)]
    ok = bool(found) and all(p_.kind == "return" and p_.value == want for p_ in found)
    ctx.ob("C08.P1", look.qualname, ok, "for catalogued numbers stream_function returns the catalogue's class" if ok else
           f"for numbers the catalogue has, stream_function does not return {want}: the S9F5 / abort / secondary built with it is not the catalogued function", key="lookup", where=look.where)
    # P2: W-bit
    for n, c in normal_sends:  # the property speaks about messages handled without error; the abort path is not constrained
        ok = any("require_response" in t and v for t, v in cnd.facts(cfg, n))
        ctx.ob("C08.P2", q, ok, "the reply is sent only for a primary with W-bit" if ok else
               "the reply is sent without looking at the W-bit: a primary that does not expect a reply is answered anyway", key="wbit " + ("abort" if (n, c) in abort_sends else "reply"), where=f.where)
    # nothing replies outside these (e.g. a second unconditional send)
    others = [n for n in cfg.real_nodes() for c in n.calls if (call_name(c) or "") in ("self.send_stream_function", "self.protocol.send_response", "self.send_and_waitfor_response")]
    ctx.ob("C08.P1", q, not others, "no other message is sent from the dispatch function" if not others else f"additional sends: {[o.text() for o in others]}", key="no-extra-send", where=f.where)

    # unknown functions
    u = repo.method("SecsHandler", "_handle_unknown_functions", inherited=False)
    ctx.touch(u)
    ufn = normal.normalised(ctx, u)
    ucfg = cfg_of(ufn)
    up = u.node.args.args[1].arg
    usends = [(n, c) for n in ucfg.real_nodes() for c in n.calls if call_name(c) == "self.send_response"]
    ok = len(usends) == 1
    ctx.ob("C08.P1", u.qualname, ok, "one S9F5 reply for an unknown function" if ok else f"{len(usends)} replies", key="one-s9f5", where=u.where)
    for n, c in usends:
        a0 = c.args[0] if c.args else None
        if isinstance(a0, ast.Name):
            a0 = rules.expand_ast(ufn, a0)  # built in a local first
        cls_ok = isinstance(a0, ast.Call) and isinstance(a0.func, ast.Call) and call_name(a0.func) == "self.stream_function" and [norm(x) for x in a0.func.args] == ["9", "5"]
        body_ok = cls_ok and len(a0.args) == 1 and norm(a0.args[0]) == f"{up}.header.encode()"
        sys_ok = len(c.args) == 2 and norm(c.args[1]) == _sys_arg(up)
        ctx.ob("C08.P1", u.qualname, cls_ok and body_ok and sys_ok, "unknown function => S9F5 carrying the offending header, same system bytes" if (cls_ok and body_ok and sys_ok) else f"`{norm(c)}` is not S9F5(message.header.encode()) with message.header.system", key="s9f5", where=u.where)
        ok = cnd.holds(ucfg, n, f"{up}.header.require_response")
        ctx.ob("C08.P1", u.qualname, ok, "S9F5 is sent only when the W-bit is set" if ok else f"S9F5 is sent under: {cnd.describe(ucfg, n)}", key="s9f5-wbit", where=u.where)
    # SecsHandler._on_message_received hands the message on unchanged
    m = repo.method("SecsHandler", "_on_message_received", inherited=False)
    calls = [c for c in calls_in(m.node) if call_name(c) == "self._handle_stream_function"]
    dp = m.node.args.args[1].arg
    msgvars = {t.id for s in rules.func_stmts(m.node) if isinstance(s, ast.Assign) and norm(s.value) == f"{dp}['message']" for t in s.targets if isinstance(t, ast.Name)}
    ok = len(calls) == 1 and (norm(calls[0].args[0]) in msgvars or norm(calls[0].args[0]) == f"{dp}['message']")
    ctx.ob("C08.P1", m.qualname, ok, "the received message is handed to the dispatch function" if ok else "SecsHandler._on_message_received does not pass data['message'] on", where=m.where)


def _return_values(func):
    """[(Return node, value expr)] - a returned name stands for every value assigned to it (one pair per assignment)."""
    cfg = cfg_of(func.node)
    out = []
    for n in cfg.real_nodes():
        if isinstance(n.ast, ast.Return):
            if n.ast.value is None:
                out.append((n.ast, None))
                continue
            for v, _ in rules.reaching_values(func.node, cfg, n, n.ast.value):
                out.append((n.ast, v))
    return out


def _sf_of(expr):
    """(S, F) if expr is self.stream_function(S, F)(...)."""
    if isinstance(expr, ast.Call) and isinstance(expr.func, ast.Call) and (call_name(expr.func) or "").endswith("stream_function"):
        a = expr.func.args
        if len(a) == 2 and all(isinstance(x, ast.Constant) and isinstance(x.value, int) for x in a):
            return a[0].value, a[1].value
    return None


def check_callbacks(ctx):
    repo = ctx.repo
    cg = callgraph.get(repo)
    n_cb = 0
    classes = [c for c in repo.classes.values() if c.is_subclass_of("SecsHandler")]
    from . import c03

    catalogue = c03.function_classes(repo)
    for cls in classes:
        for name, meth in cls.methods.items():
            m = SF_NAME.match(name)
            if not m:
                continue
            n_cb += 1
            ctx.touch(meth)
            S, F = int(m.group(1)), int(m.group(2))
            q = meth.qualname
            rets = _return_values(meth)
            bad = []
            for st, v in rets:
                if v is None or (isinstance(v, ast.Constant) and v.value is None):
                    continue
                sf = _sf_of(v)
                if sf != (S, F + 1):
                    bad.append((st, sf, v))
            # falling off the end returns None - fine
            ok = not bad
            ctx.ob("C08.T1", q, ok, f"every return is None or S{S}F{F + 1}" if ok else
                   f"returns {('S%dF%d' % bad[0][1]) if bad[0][1] else norm(bad[0][2])} for a primary S{S}F{F}: the secondary must be S{S}F{F + 1}", key="secondary", where=meth.where)
            # inline replies
            cfg = cfg_of(meth.node)
            inl = [(n, c) for n in cfg.real_nodes() for c in n.calls if call_name(c) in ("self.send_response", "self.protocol.send_response")]
            # a primary that expects a reply is answered on every path: a value is returned or the reply was sent inline
            pcls = catalogue.get((S, F))
            if pcls is not None and repo.const(pcls, "_has_reply"):
                answering = [x for x in cfg.real_nodes() if isinstance(x.ast, ast.Return) and x.ast.value is not None and not (isinstance(x.ast.value, ast.Constant) and x.ast.value.value is None)] + [n for n, _ in inl]
                silent = cfg.path_exists(cfg.entry, cfg.exit, avoid=answering, no_exc=True)
                ctx.ob("C08.T1", q, not silent, f"every path of the S{S}F{F} callback produces the reply" if not silent else
                       f"a path of the S{S}F{F} callback ends without returning a reply (returns None): the primary's W-bit request is never answered and the peer runs into its T3", key="always-replies", where=meth.where)
            if inl:
                param = meth.node.args.args[2].arg
                cnt = cfg.count_on_paths(lambda x: any(x is n for n, _ in inl), cfg.entry, cfg.exit, no_exc=True)
                ok = cnt is not None and cnt[1] <= 1
                ctx.ob("C08.T1", q, ok, "at most one inline reply per path" if ok else f"inline replies per path: {cnt}", key="inline-once", where=meth.where)
                for n, c in inl:
                    sf = _sf_of(c.args[0]) if c.args else None
                    ok = sf == (S, F + 1) and len(c.args) == 2 and norm(c.args[1]) == _sys_arg(param)
                    ctx.ob("C08.T1", q, ok, f"the inline reply is S{S}F{F + 1} with the request's system bytes" if ok else f"`{norm(c)}` is not the secondary with {param}.header.system", key="inline-reply", where=meth.where)
                    # after the inline reply the function must return None and nothing may raise outside a try (else SxF0 follows the reply)
                    after_rets = [st for st, v in rets if cfg.path_exists(n, next(x for x in cfg.real_nodes() if x.ast is st)) and not (v is None or (isinstance(v, ast.Constant) and v.value is None))]
                    ctx.ob("C08.T1", q, not after_rets, "after an inline reply the callback returns None (no second reply)" if not after_rets else "a value is returned after the inline reply: two replies are sent", key="inline-then-none", where=meth.where)
                    risky = []
                    for x in cfg.real_nodes():
                        if x is n or not cfg.path_exists(n, x):
                            continue
                        for k in x.calls:
                            kn = call_name(k) or ""
                            if isinstance(k.func, ast.Name) and k.func.id not in ("getattr", "isinstance", "len", "str", "int", "list", "dict"):
                                if not callgraph.broadly_guarded(meth.node, k):
                                    risky.append(k)  # a call of a fetched (user) callback
                    ctx.ob("C08.T1", q, not risky, "nothing that can raise follows the inline reply" if not risky else
                           f"`{norm(risky[0])}` (the user's callback) runs after the inline reply outside a try: if it raises, _handle_stream_function sends S{S}F0 as a second message with the same system bytes",
                           key="after-inline", where=meth.where)
    ctx.floor("_on_sXXfYY callbacks", n_cb, 20)


def _bind(call: ast.Call, init_node):
    """{param name: arg expr text} for a constructor call bound against the constructor's signature."""
    params = [a.arg for a in init_node.args.args[1:]]
    bound = {}
    for i, a in enumerate(call.args):
        if i < len(params):
            bound[params[i]] = norm(a)
    for k in call.keywords:
        if k.arg:
            bound[k.arg] = norm(k.value)
    return bound


def check_system_flow(ctx):
    repo = ctx.repo
    # SecsHandler.send_response -> protocol.send_response
    f = repo.method("SecsHandler", "send_response", inherited=False)
    ctx.touch(f)
    params = [a.arg for a in f.node.args.args[1:]]
    inner = [c for c in calls_in(f.node) if (call_name(c) or "").endswith("protocol.send_response")]
    ok = len(inner) == 1 and [norm(a) for a in inner[0].args] == params
    ctx.ob("C08.A1", f.qualname, ok, "handler.send_response forwards (function, system) unchanged" if ok else "handler.send_response does not forward its arguments unchanged", where=f.where)
    g = repo.method("Protocol", "send_response", inherited=False)
    ctx.touch(g)
    p_fn, p_sys = [a.arg for a in g.node.args.args[1:3]]
    mk = [c for c in calls_in(g.node) if call_name(c) == "self._create_message_for_function"]
    ok = len(mk) == 1 and [norm(a) for a in mk[0].args] == [p_fn, p_sys]
    ctx.ob("C08.A1", g.qualname, ok, "send_response builds the message with exactly the system bytes it was given" if ok else
           f"`{norm(mk[0]) if mk else '?'}`: the system bytes of the reply are not the ones passed in (e.g. a falsy 0 replaced by a fresh counter value)", key="system-unchanged", where=g.where)
    # no other expression derives a new system value
    fresh = [c for c in calls_in(g.node) if call_name(c) == "self.get_next_system_counter"]
    ctx.ob("C08.A1", g.qualname, not fresh, "a reply never draws fresh system bytes" if not fresh else "send_response can draw fresh system bytes from the counter", key="no-fresh-id", where=g.where)
    cfgg = cfg_of(g.node)
    sm = [n for n in cfgg.real_nodes() if any(c == "self.send_message" for c in n.call_names())]
    ok = len(sm) == 1 and cfgg.count_on_paths(lambda n: n in sm, cfgg.entry, cfgg.exit, no_exc=True) == (1, 1)
    ctx.ob("C08.A1", g.qualname, ok, "the reply is sent exactly once" if ok else "send_response does not send exactly once per call", key="sent-once", where=g.where)
    expect = {
        "HsmsProtocol": ("HsmsStreamFunctionHeader", {"system": "SYS", "stream": "FN.stream", "function": "FN.function", "require_response": "FN.is_reply_required", "device_id": "self._settings.device_id"}),
        "SecsIProtocol": ("SecsIHeader", {"system": "SYS", "stream": "FN.stream", "function": "FN.function", "require_response": "FN.is_reply_required", "device_id": "self._settings.device_id"}),
    }
    for cname, (hname, want) in expect.items():
        m = repo.method(cname, "_create_message_for_function", inherited=False)
        ctx.touch(m)
        fnp, sysp = [a.arg for a in m.node.args.args[1:3]]
        hc = [c for c in calls_in(m.node) if call_name(c) == hname]
        ctx.require(len(hc) == 1, f"{m.qualname}: header construction {hname} not found")
        init = repo.cls(hname).find_method("__init__")
        bound = _bind(hc[0], init.node)
        wanted = {k: v.replace("SYS", sysp).replace("FN", fnp) for k, v in want.items()}
        bad = {k: (bound.get(k), v) for k, v in wanted.items() if bound.get(k) != v}
        ctx.ob("C08.A1", m.qualname, not bad, f"{hname} receives system bytes, stream, function, W-bit and device id in the right slots" if not bad else
               f"{hname} is built with " + ", ".join(f"{k}={got} (expected {exp})" for k, (got, exp) in bad.items()), key="header-binding", where=m.where)
        # body = function.encode()
        msg = [c for c in calls_in(m.node) if (call_name(c) or "") in ("HsmsMessage", "SecsIMessage")]
        ok = len(msg) == 1 and len(msg[0].args) >= 2 and norm(msg[0].args[1]) == f"{fnp}.encode()" and msg[0].args[0] is hc[0]
        ctx.ob("C08.A1", m.qualname, ok, "the message is (header, function.encode())" if ok else "the message is not built from the header and function.encode()", key="message", where=m.where)
    # header base classes store what they are given
    for cname, field_map in (("Header", {"system": "_system", "device_id": "_device_id", "stream": "_stream", "function": "_function", "require_response": "_require_response"}),):
        init = repo.method(cname, "__init__", inherited=False)
        assigned = {dotted(t): norm(s.value) for s in rules.func_stmts(init.node) if isinstance(s, ast.Assign) for t in s.targets}
        bad = {p: assigned.get(f"self.{fld}") for p, fld in field_map.items() if assigned.get(f"self.{fld}") != p}
        ctx.ob("C08.A1", init.qualname, not bad, "Header stores each constructor argument in its own field" if not bad else f"Header.__init__ stores {bad}", where=init.where)
        for p, fld in field_map.items():
            prop = repo.method(cname, p, inherited=False)
            rets = [s for s in rules.func_stmts(prop.node) if isinstance(s, ast.Return)]
            ok = len(rets) == 1 and norm(rets[0].value) == f"self.{fld}"
            ctx.ob("C08.A1", prop.qualname, ok, f"Header.{p} returns self.{fld}" if ok else f"Header.{p} returns {norm(rets[0].value) if rets else None}", where=prop.where)
    for hname in ("HsmsStreamFunctionHeader", "HsmsHeader", "SecsIHeader"):
        init = repo.cls(hname).methods["__init__"]
        sup = [c for c in calls_in(init.node) if call_name(c) == "super().__init__"]
        ctx.require(len(sup) == 1, f"{hname}.__init__: super().__init__ not found")
        parent = next(c for c in repo.cls(hname).mro[1:] if "__init__" in c.methods)
        bound = _bind(sup[0], parent.methods["__init__"].node)
        own = [a.arg for a in init.node.args.args[1:]]
        alias = {"requires_response": "require_response"}
        bad = {}
        for p in ("system", "device_id", "stream", "function"):
            if p in own and bound.get(p) != p:
                bad[p] = bound.get(p)
        for p in own:
            tgt = alias.get(p, p)
            if tgt in ("require_response", "requires_response") and bound.get("require_response", bound.get("requires_response")) != p:
                bad[p] = bound.get("require_response", bound.get("requires_response"))
        ctx.ob("C08.A1", f"{hname}.__init__", not bad, f"{hname} passes system/device/stream/function/W-bit to the matching base parameters" if not bad else f"{hname}.__init__ passes {bad} to {parent.name}.__init__", where=init.where)


def check_escape(ctx):
    repo = ctx.repo
    cg = callgraph.get(repo)
    for cname in ("HsmsProtocol", "SecsIProtocol"):
        f = repo.method(cname, "_on_connection_message_received", inherited=False)
        ctx.touch(f)
        cfg = cfg_of(f.node)
        fires = [n for n in cfg.real_nodes() if any(c.endswith("events.fire") for c in n.call_names()) and "message_received" in n.text()]
        ctx.require(len(fires) == 1, f"{f.qualname}: message_received fire not found")
        F = fires[0]
        found = False
        for n in cfg.real_nodes():
            if n is F or not cfg.path_exists(n, F):
                continue
            for c in n.calls:
                cn = call_name(c) or ""
                why = None
                if cn.endswith("streams_functions.decode"):
                    why = "decoding an arbitrary body can raise any exception"
                else:
                    rs = cg.call_raises(c, f) - {"NotImplementedError"}
                    if rs and not cn.startswith("self.send_") and "__handle_hsms_requests" not in cn:
                        why = f"can raise {sorted(rs)}"
                if why:
                    found = True
                    ok = callgraph.broadly_guarded(f.node, c)
                    ctx.ob("C08.X1", f.qualname, ok, f"`{norm(c)}` before the hand-over is inside a broad try" if ok else
                           f"`{norm(c)}` runs before the message is handed to the handler and {why}: an uncatalogued or malformed primary is dropped instead of being answered with S9F5 / SxF0",
                           key=norm(c), where=f.where)
        if not found:
            ctx.ob("C08.X1", f.qualname, True, "nothing that can raise precedes the hand-over", key="none", where=f.where)


def check_callback_handler(ctx):
    repo = ctx.repo
    cont = repo.method("CallbackHandler", "__contains__", inherited=False)
    call = repo.method("CallbackHandler", "_call", inherited=False)
    ctx.touch(cont)
    ctx.touch(call)
    facts = {}
    for m in (cont, call):
        p = m.node.args.args[1].arg
        cfg = cfg_of(m.node)
        tests = [norm(n.ast) for n in cfg.nodes if n.kind == "test"]
        ga = [c for c in calls_in(m.node) if call_name(c) == "getattr"]
        prefix = None
        target = None
        if ga and isinstance(ga[0].args[1], ast.BinOp) and isinstance(ga[0].args[1].left, ast.Constant) and norm(ga[0].args[1].right) == p:
            prefix = ga[0].args[1].left.value
            target = norm(ga[0].args[0])
        # the delegate is looked up exactly when no callback is registered under the name
        first = None
        for n in cfg.real_nodes():
            if ga and any(c is ga[0] for c in n.calls):
                part = n.expr_part if not isinstance(n.expr_part, list) else None
                inner = cnd.expr_facts(part, ga[0]) if part is not None else set()
                first = sorted((re.sub(rf"\b{re.escape(p)}\b", "NAME", t), pol) for t, pol in cnd.facts(cfg, n) | inner)
        facts[m.name] = (first, prefix, target)
    ok = facts["__contains__"] == facts["_call"] and facts["_call"][1] == "_on_" and facts["_call"][2] == "self.target" and facts["_call"][0] == [("NAME in self._callbacks", False)]
    ctx.ob("C08.C1", "CallbackHandler", ok, "membership and call use the same lookup: registered callback first, else target._on_<name>" if ok else f"__contains__ and _call look callbacks up differently: {facts}", where=cont.where)
    # _call: registered callback result is returned; delegate result is returned; else None
    cfg = cfg_of(call.node)
    rets = [n for n in cfg.real_nodes() if isinstance(n.ast, ast.Return)]
    vals = [norm(r.ast.value) for r in rets]
    p = call.node.args.args[1].arg
    ok = f"self._callbacks[{p}](*args, **kwargs)" in vals and "delegate_handler(*args, **kwargs)" in vals
    if not ok:
        ok = sum(1 for v in vals if v.endswith("(*args, **kwargs)")) >= 2
    ctx.ob("C08.C1", call.qualname, ok, "the callback's return value is passed back (it becomes the reply)" if ok else f"_call returns {vals}: the callback's result is lost", where=call.where)
    w = repo.method("_CallbackCallWrapper", "__call__", inherited=False)
    ok = any(norm(s.value) == "self.handler._call(self.name, *args, **kwargs)" for s in rules.func_stmts(w.node) if isinstance(s, ast.Return))
    ctx.ob("C08.C1", w.qualname, ok, "the call wrapper forwards name and arguments and returns the result" if ok else "the call wrapper does not forward to _call(name, *args, **kwargs)", where=w.where)
    sh = repo.method("SecsHandler", "__init__", inherited=False)
    ok = any(isinstance(s, ast.Assign) and norm(s.targets[0]) == "self._callback_handler.target" and norm(s.value) == "self" for s in rules.func_stmts(sh.node))
    ctx.ob("C08.C1", sh.qualname, ok, "the handler is the delegate target of its callback handler" if ok else "callback_handler.target is not set to the handler: inherited _on_sXXfYY methods are not found", where=sh.where)
    reg = [c for c in calls_in(sh.node) if isinstance(c.func, ast.Attribute)]
    ok = any(isinstance(s, ast.AugAssign) and norm(s.target).endswith("events.message_received") and norm(s.value) == "self._on_message_received" for s in rules.func_stmts(sh.node)) or any(
        norm(c.func).endswith("events.message_received.register") and c.args and norm(c.args[0]) == "self._on_message_received" for c in reg)
    ctx.ob("C08.C1", sh.qualname, ok, "the handler subscribes to message_received" if ok else "the handler does not subscribe _on_message_received to the protocol's message_received event", key="subscribed", where=sh.where)


def check_stale_registrations(ctx):
    """A response queue that stays registered swallows a later primary with the same system bytes (no reply at all):
    the removal rules of C06.P1/P1e are necessary conditions of C08 as well."""
    from . import c06

    sub = type(ctx)(ctx.prop, ctx.tier, ctx.seed, ctx.repo)
    c06.check_requests(sub)
    for o in sub.obligations:
        if o["rule"] == "C06.P1e" or (o["rule"] == "C06.P1" and o["key"] in ("remove-on-exit", "remove-id")):
            o = dict(o)
            o["rule"] = "C08.R1"
            ctx.obligations.append(o)
    for fn in sub.analysed["functions"]:
        ctx.analysed["functions"].add(fn)


def run(ctx):
    # a reply is a queued block: on the serial line it is transferred (or reported failed) exactly once, whatever the
    # line contention (rules shared with C17.P2)
    from .. import report
    from .c17 import check_send

    report.share(ctx, "C08.S1", check_send)
    # a primary is handed to its handler only in the SELECTED state: an accepted select is final - the transition writes
    # the new state once and nothing takes it back when a listener of the entered state fails (C18.P1)
    from .c18 import check_perform

    report.share(ctx, "C08.S1", check_perform, only={"C18.P1"})
    # a primary is answered only if it is framed, reassembled and dispatched: wake-ups of the receiver/dispatcher threads are
    # not lost (shared with C04/C06/C09/C17) and a multi-block primary is complete with its last block (shared with C16.P3)
    from ._dispatch import check_dispatcher
    from .c16 import check_reassembly

    check_dispatcher(ctx, "C08.S1", wakeups=True, consumers=True, reconnect=False)  # incl. the unbounded dispatch queue: a burst of primaries must not park the thread that writes the replies
    report.share(ctx, "C08.S1", check_reassembly)
    # a header-only message (S1F1 W, the SxF0 abort) is one block on the serial line, and the bytes of a primary are waited
    # for without a deadline that would hand a short read to the decoder (C16.P1, byte-queue group of C04/C17)
    from .c04 import check_byte_queue
    from .c09 import check_bytequeue_wait
    from .c16 import check_split

    report.share(ctx, "C08.S1", check_split)
    check_byte_queue(ctx, "C08.S1")
    check_bytequeue_wait(ctx, "C08.S1")
    # ... and only if its frame is cut from the byte stream exactly, complete and without leaving frames behind (shared with C04.P1)
    from .c04 import check_framing

    report.share(ctx, "C08.S1", check_framing)
    # ... its header is read back bit by bit as it was written (C04.B1: the stream and function the reply is derived from),
    # and the reply is written to the socket completely or reported as failed (C10.P1/P2)
    from .c04 import check_header
    from .c10 import check_all_send_data

    report.share(ctx, "C08.S1", check_header)
    report.share(ctx, "C08.S1", check_all_send_data)
    # "while communication is established, each primary ... is answered": every message received in COMMUNICATING reaches the
    # callback dispatcher, unchanged and under no further condition (the gate rules of C07.P1)
    from .c07 import check_message_received

    sub = type(ctx)(ctx.prop, ctx.tier, ctx.seed, ctx.repo)
    check_message_received(sub)
    kept = [o for o in sub.obligations if o["key"] in ("gate-open", "dispatch-arg", "one-dispatch")]
    ctx.require(len(kept) >= 3, "C08.G1: the gate rules of GemHandler._on_message_received were not produced")
    for o in kept:
        o = dict(o)
        o["rule"] = "C08.G1"
        ctx.obligations.append(o)
    for kind in ("files", "functions"):
        ctx.analysed[kind] |= sub.analysed[kind]
    check_stale_registrations(ctx)
    check_handle_stream_function(ctx)
    check_callbacks(ctx)
    check_system_flow(ctx)
    check_escape(ctx)
    check_callback_handler(ctx)
