"""C02 - every valid SEMI E5 item encoding is decoded to the value it denotes (variables API, decoding side)."""

from __future__ import annotations

import ast

from ..cfg import cfg_of
from ..model import AnalysisError, ClassInfo, call_name, calls_in, dotted, norm, walk_no_nested
from .. import fde, rules, summary
from . import _codec, _items
from .c01 import NUMERIC, VAR_ATTRS

CONCRETE = ["Array", "Binary", "Boolean", "String", "JIS8", "I1", "I2", "I4", "I8", "F4", "F8", "U1", "U2", "U4", "U8"]
ANY_MIN = ["Array", "Binary", "Boolean", "String", "I1", "I2", "I4", "I8", "F4", "F8", "U1", "U2", "U4", "U8"]

META = {
    "explanation": "Bit-provenance evaluation of Base.decode_item_header with every branch over the length value explored (a "
    "header is accepted for each number of length bytes 1..3 whatever the length value - non-minimal encodings included), "
    "table rules on Dynamic.decode (format-code table covers every concrete item class, an unrestricted Dynamic supports "
    "each of them, lists decode as Array(ANYVALUE), decoding restarts at the item start, the only refusal is an "
    "unsupported format code), the numeric table against the exact struct ranges, and the exact rejection predicate of the "
    "range re-validation (strict on both sides).",
    "decides": [
        "C02.B2 decode_item_header accepts 1, 2 and 3 length bytes independently of the length value and yields the big-endian length (canonical re-encoding then follows from C01.B1, the decoded object stores no length-byte count)",
        "C02.T1 Dynamic.decode: table covers all concrete item classes; Dynamic([]) supports every table entry; ANYVALUE allows list/binary/boolean/ASCII and every integer and float width; list => Array(ANYVALUE); sub-decode restarts at `start`; refusal only for an unsupported code",
        "C02.T2 every finite value of each numeric struct code lies inside [_min, _max] (bounds are the exact representable range)",
        "C02.P1 re-validation rejects exactly x < _min or x > _max (strict, both bounds) in set/_set_list/_set_bytearray",
    ],
    "does_not_decide": ["value equality for text under the codecs beyond C01.T2", "semantic equality of decoded floats"],
    "assumptions": ["struct.unpack returns the IEEE 754 / two's complement value (stdlib)"],
}


def _type_table(repo, f, expr, depth=0):
    """Evaluate an expression denoting a format-code -> class mapping to the set of class names."""
    if depth > 4:
        return None
    if isinstance(expr, ast.Dict):
        out = set()
        for k, v in zip(expr.keys, expr.values):
            if isinstance(v, ast.Name) and norm(k) == f"{v.id}.format_code":
                out.add(v.id)
            else:
                return None
        return out
    if isinstance(expr, ast.DictComp) and len(expr.generators) == 1:
        g = expr.generators[0]
        if isinstance(g.target, ast.Name) and not g.ifs and norm(expr.key) == f"{g.target.id}.format_code" and norm(expr.value) == g.target.id:
            ev = fde.FDE(repo, f, {}, inline=True)
            v = ev.ev(g.iter)
            if isinstance(v, list) and all(isinstance(x, fde.ClsTok) for x in v):
                return {x.name for x in v}
        return None
    if isinstance(expr, ast.Name):
        defs = rules.single_assignments(f.node)
        if expr.id in defs:
            return _type_table(repo, f, defs[expr.id], depth + 1)
        target = repo.resolve(f.module, expr.id)
        if isinstance(target, ast.AST):
            return _type_table(repo, f, target, depth + 1)
    return None


def codes_inv(codes, name):
    return next(fc for fc, c in codes.items() if c == name)


def check_dynamic(ctx, rule="C02.T1"):
    repo = ctx.repo
    f = repo.method("Dynamic", "decode", inherited=False)
    ctx.touch(f)
    q = f.qualname
    params = [a.arg for a in f.node.args.args[1:]]
    ctx.require(len(params) >= 2, f"{q}: decode(data, start) expected")
    codes = {repo.const(c, "format_code"): c for c in CONCRETE}

    def evaluate(fc, types):
        """Outcome of decode for one received format code: exact evaluation over the finite domain of the 6-bit code."""
        seen = []

        def hook(args):
            seen.append(args)
            return [fde.Unknown("cursor"), fc, fde.Unknown("length")]  # nothing but the format code may decide

        def make(dec):
            seen.clear()
            return fde.FDE(repo, f, {"self.types": types, "self.count": "<count>"}, env={params[0]: "<data>", params[1]: "<start>"}, inline=True, hooks={"self.decode_item_header": hook}, decisions=dec)

        try:
            outs = fde.explore(make)
        except fde.Undecided as exc:
            raise AnalysisError(f"{q}: cannot evaluate for format code {fc}: {exc}")
        # branches that the format code does not decide: the outcome must not depend on them
        tr = outs[0][1]
        for dec, other in outs[1:]:
            if (other.raised is None) != (tr.raised is None) or repr(other.assigned.get("self.value")) != repr(tr.assigned.get("self.value")) or repr(other.returned) != repr(tr.returned):
                extra.setdefault(" / ".join(t for t, _ in dec), set()).add(fc)
                if tr.raised and not other.raised:
                    tr = other  # keep the accepting outcome as the primary one; the dependence itself is reported once
        return tr, list(seen)

    extra: dict = {}
    outcomes = {fc: evaluate(fc, []) for fc in range(64)}
    # ... and a Dynamic restricted to one type: the same table, and again nothing but the format code decides
    only_u1 = {fc for fc in range(64) if not evaluate(fc, [fde.ClsTok("U1")])[0].raised}
    known_extra = {c: sorted(v) for c, v in extra.items()}
    table = {codes[fc] for fc, (tr, _) in outcomes.items() if fc in codes and not tr.raised and tr.assigned.get("self.value") is not None}
    missing = [c for c in CONCRETE if c not in table]
    ctx.ob(rule, q, not missing, f"all {len(CONCRETE)} concrete item classes are decodable by their format code" if not missing else
           f"no class is instantiated for the format codes of {missing}: a Dynamic that may hold such an item encodes it but cannot decode its own bytes (ValueError: Unsupported format)", key="table", where=f.where, table=sorted(table))
    wrong = {fc: tr.assigned.get("self.value") for fc, (tr, _) in outcomes.items() if fc in codes and not tr.raised and not (isinstance(tr.assigned.get("self.value"), tuple) and tr.assigned["self.value"][1] == codes[fc])}
    wrong = {fc: v for fc, v in wrong.items() if v is not None}
    ctx.ob(rule, q, not wrong, "the class is selected by the received format code" if not wrong else f"format codes decoded by the wrong class: { {oct(fc): (codes[fc], v[1] if isinstance(v, tuple) else v) for fc, v in wrong.items()} }", key="select", where=f.where)
    lst = outcomes[codes_inv(codes, "Array")][0].assigned.get("self.value")
    ok = isinstance(lst, tuple) and lst[:3] == ("new", "Array", (fde.ClsTok("ANYVALUE"),))
    ctx.ob(rule, q, ok, "a list item decodes as Array(ANYVALUE), i.e. arbitrarily nested" if ok else f"a list item is decoded as {lst}, not Array(ANYVALUE)", key="nested", where=f.where)
    bad = {codes[fc]: tr.assigned.get("self.value") for fc, (tr, _) in outcomes.items() if fc in codes and codes[fc] != "Array" and not tr.raised and not (isinstance(tr.assigned.get("self.value"), tuple) and tr.assigned["self.value"][2:] == ((), (("count", "<count>"),)))}
    ctx.ob(rule, q, not bad, "other items are decoded by a fresh instance of the table's class with this item's count" if not bad else f"scalar items are not decoded by typ(count=self.count): {bad}", key="scalar", where=f.where)
    rets = {repr(tr.returned) for fc, (tr, _) in outcomes.items() if not tr.raised}
    ok = rets == {repr(("call", "self.value.decode", ["<data>", "<start>"]))}
    ctx.ob(rule, q, ok, "the chosen class decodes from the item's own start and its cursor is returned" if ok else f"returns {sorted(rets)}", key="restart", where=f.where)
    peeks = {repr(seen) for _, (tr, seen) in outcomes.items()}
    ok = peeks == {repr([["<data>", "<start>"]])}
    ctx.ob(rule, q, ok, "the format code is read from the header at `start`" if ok else f"the format code is not read by one decode_item_header(data, start): {sorted(peeks)[:2]}", key="peek-header", where=f.where)
    refused = sorted(fc for fc, (tr, _) in outcomes.items() if tr.raised)
    want = sorted(fc for fc in range(64) if fc not in codes)
    ok = refused == want and only_u1 == {repo.const("U1", "format_code")} and not known_extra
    ctx.ob(rule, q, ok, "the only refusal is an unsupported or disallowed format code" if ok else
           (f"whether Dynamic.decode accepts an item, and as what, also depends on {list(known_extra)[:2]} (format codes {[oct(x) for x in list(known_extra.values())[0][:4]]}...): valid items of an allowed format are rejected (e.g. a byte length compared with an element count)" if known_extra else "") +
           f"Dynamic.decode refuses format codes {[oct(x) for x in refused if x not in want]} of defined items / accepts undefined {[oct(x) for x in want if x not in refused]}; a Dynamic([U1]) accepts {sorted(oct(x) for x in only_u1)}: valid items of an allowed format are rejected or disallowed ones accepted", key="only-refusal", where=f.where)
    # the header reader itself refuses a code that differs from the receiving object's own `format_code` unless that is the
    # wildcard -1: for a Dynamic (and every data item built on it) it must stay the class constant of Base, whatever it holds
    redefined = []
    dyn_classes = [repo.cls("Dynamic")] + list(repo.subclasses("Dynamic"))
    # data items take their variable type from `__type__` (the metaclass makes it a base class)
    dyn_classes += [c for c in repo.classes.values() if "__type__" in c.consts and norm(c.consts["__type__"]).rsplit(".", 1)[-1] == "Dynamic"]
    for c in dyn_classes:
        for k in c.mro:
            if k.name == "Base":
                break
            if "format_code" in k.methods or ("format_code" in k.consts and repo.fold(k.consts["format_code"], k.module, k) != -1):
                redefined.append(f"{c.name} (via {k.name})" if k is not c else c.name)
    ctx.floor("classes built on Dynamic", len(dyn_classes), 20)
    ok = not redefined and repo.const("Base", "format_code") == -1
    ctx.ob(rule, "Dynamic.format_code", ok, f"Dynamic and its {len(dyn_classes) - 1} subclasses keep the wildcard format code -1: decode_item_header lets every code through to the type table" if ok else
           f"{sorted(set(redefined))[:4]} give a Dynamic a format code of its own: decode_item_header then refuses every item of another format (e.g. a re-used ANYVALUE that held a U1 refuses a valid A item)",
           key="wildcard", where=repo.cls("Dynamic").where)
    # an unrestricted Dynamic supports every entry
    ts = repo.cls("Dynamic").methods.get("__type_supported") or repo.cls("Dynamic").methods.get("_Dynamic__type_supported")
    ctx.require(ts is not None, "Dynamic.__type_supported not found")
    ctx.touch(ts)
    p = ts.node.args.args[1].arg
    refused = []
    undecided = []
    for c in sorted(table):
        ev = fde.FDE(repo, ts, {"self.types": []}, env={p: fde.ClsTok(c)}, inline=True)
        try:
            r = ev.run().returned
        except fde.Undecided as exc:
            undecided.append(str(exc))
            continue
        if r is True:
            continue
        if r is False:
            refused.append(c)
        else:
            undecided.append(f"{c}: {r!r}")
    ctx.require(not undecided, f"{ts.qualname}: cannot evaluate for an unrestricted Dynamic: {undecided[:2]}")
    ctx.ob(rule, ts.qualname, not refused, "an unrestricted Dynamic (types == []) supports every decodable item class" if not refused else
           f"an unrestricted Dynamic([]) refuses {refused} although the documented meaning of an empty type list is 'all types'", key="unrestricted", where=ts.where)
    restricted_ok = True
    for c in ("U1", "String"):
        ev = fde.FDE(repo, ts, {"self.types": [fde.ClsTok("U1")]}, env={p: fde.ClsTok(c)}, inline=True)
        r = ev.run().returned
        if r is not (c == "U1"):
            restricted_ok = False
    ctx.ob(rule, ts.qualname, restricted_ok, "a restricted Dynamic supports exactly its listed types" if restricted_ok else "a restricted Dynamic does not support exactly its listed types", key="restricted", where=ts.where)
    # ANYVALUE
    init = repo.method("ANYVALUE", "__init__", inherited=False)
    ctx.touch(init)
    sup = [c for c in calls_in(init.node) if call_name(c) == "super().__init__"]
    ctx.require(len(sup) == 1 and sup[0].args, "ANYVALUE.__init__: super().__init__([...]) not found")
    ev = fde.FDE(repo, init, {}, inline=True)
    v = ev.ev(sup[0].args[0])
    names = {x.name for x in v if isinstance(x, fde.ClsTok)} if isinstance(v, list) else set()
    missing = [c for c in ANY_MIN if c not in names]
    ctx.ob(rule, "ANYVALUE", not missing, "ANYVALUE allows lists, binary, boolean, ASCII and every integer/float width" if not missing else f"ANYVALUE does not allow {missing}", where=init.where, allowed=sorted(names))
    # Dynamic.encode / get delegate
    enc = repo.method("Dynamic", "encode", inherited=False)
    rets = [s for s in rules.func_stmts(enc.node) if isinstance(s, ast.Return)]
    ok = len(rets) == 1 and norm(rets[0].value) == "self.value.encode()"
    ctx.ob(rule, enc.qualname, ok, "re-encoding is done by the decoded item (canonical form by C01.B1)" if ok else "Dynamic.encode does not delegate to the held item", where=enc.where)


REF_SET = {
    "_set_list": """
def _set_list(self, value):
    if 0 <= self.count < len(value):
        raise ValueError()
    new_list = []
    for item in value:
        item = self._base_type(item)
        if item < self._min or item > self._max:
            raise ValueError()
        new_list.append(item)
    self.value = new_list
""",
    "_set_bytearray": """
def _set_bytearray(self, value):
    if 0 <= self.count < len(value):
        raise ValueError()
    new_list = []
    for item in value:
        if item < self._min or item > self._max:
            raise ValueError()
        new_list.append(item)
    self.value = new_list
""",
}


def check_revalidation(ctx):
    repo = ctx.repo
    for mname, ref in REF_SET.items():
        if repo.cls("BaseNumber").find_method(mname) is None:
            # the helper has been inlined into set(): the clause is carried by set() agreeing with its reviewed model with
            # this helper's reviewed model inlined (the same predicate, the same stores)
            from .. import refmodels

            ctx.require(refmodels._inlined_into_callers(ctx, f"BaseNumber.{mname}"), f"BaseNumber.{mname} not found and set() does not contain its reviewed behaviour")
            ctx.ob("C02.P1", f"BaseNumber.{mname}", True, "inlined into set(), which agrees with its reviewed model with this helper's model inlined", key="predicate inlined")
            continue
        f = repo.method("BaseNumber", mname, inherited=False)
        _codec.agree(ctx, "C02.P1", f, ref, {
            "raises": "an element is rejected exactly when x < _min or x > _max (the boundary values themselves are valid encodings); too many elements are refused",
            "stores": "every accepted element is stored, in order",
        }, key_prefix="predicate ")
    # scalar path of set(): the same predicate on the converted value
    f = repo.method("BaseNumber", "set", inherited=False)
    ctx.touch(f)
    paths = _codec.paths_of(ctx, f, keep={"_set_list", "_set_bytearray"})
    p = f.node.args.args[1].arg
    x = f"self._base_type({p})"
    lo, hi = (f"{x} < self._min", False), (f"self._max < {x}", False)
    rejecting = [q for q in paths if q.kind == "raise" and any(t.startswith("ALL[") and "self._min" in t and "self._max" in t for t, _ in q.conds)]
    storing = [q for q in paths if q.kind != "raise" and any(e[0] == "store" and e[1] == "self.value" and e[2] == f"[{x}]" for e, _ in summary.flat_effects(q.effects))]
    ok = bool(rejecting) and all((f"ALL[-{x} < self._min;-self._max < {x}]", False) in q.conds for q in rejecting) and bool(storing) and all(lo in q.conds and hi in q.conds for q in storing)
    ctx.ob("C02.P1", f.qualname, ok, "a scalar is rejected exactly when x < _min or x > _max and stored otherwise" if ok else
           f"the scalar path of set() does not reject exactly `x < _min or x > _max`: refusing paths {[q.conds for q in rejecting]}, storing paths {[q.conds for q in storing]}: the boundary encodings (0xFF.., 0x80.., largest finite float) are refused or out-of-range values pass",
           key="predicate scalar", where=f.where)
    from .c01 import check_range_tests_agree

    check_range_tests_agree(ctx, "C02.P1")
    dec = repo.method("BaseNumber", "decode", inherited=False)
    ok = any(call_name(c) == "self.set" for c in calls_in(dec.node))
    ctx.ob("C02.P1", dec.qualname, ok, "decoded numbers are stored through the validating set()" if ok else "decode bypasses set()", where=dec.where)


def check_decoders(ctx):
    """Every valid body is decoded to the value it denotes: the decode side of the payload codecs against the same
    reference models C01 uses (a non-zero boolean byte is true, element i comes from its own bytes, ...)."""
    from . import c01

    repo = ctx.repo
    n = 0
    for rule, cname, meth, what in c01.CODEC_RULES:
        if meth != "decode":
            continue
        f = repo.method(cname, meth, inherited=False)
        _codec.agree(ctx, "C02.P2", f, c01.REF[f"{cname}.{meth}"], what, params=_codec.decode_params(), key_prefix=f"{meth}-")
        n += 1
    ctx.floor("payload decoders compared with their reference model", n, 6)


def check_start_defaults(ctx, rule="C02.B2"):
    """decode(data) without a position decodes from the first byte: every decoder's `start` (and the header decoder's
    `text_pos`) defaults to 0 - the callers that decode a whole message body give no position."""
    repo = ctx.repo
    n = 0
    for cls in [repo.cls("Base")] + repo.subclasses("Base"):
        for mname in ("decode", "decode_item_header"):
            m = cls.methods.get(mname)
            if m is None:
                continue
            args = m.node.args
            names = [a.arg for a in args.args]
            dflt = dict(zip(names[len(names) - len(args.defaults):], args.defaults))
            pos = [a for a in names if a in ("start", "text_pos")]
            if not pos:
                continue
            n += 1
            ctx.touch(m)
            d = dflt.get(pos[0])
            ok = d is not None and isinstance(d, ast.Constant) and d.value == 0 and not isinstance(d.value, bool)
            ctx.ob(rule, m.qualname, ok, f"`{pos[0]}` defaults to 0" if ok else f"`{pos[0]}` defaults to {norm(d) if d is not None else 'nothing'}: decoding a body without a position skips or misreads its first byte", key="start-default", where=m.where)
    ctx.floor("decoders with a start position", n, 8)


def run(ctx):
    check_decoders(ctx)
    check_start_defaults(ctx)
    _items.check_header_decode(ctx, "C02.B2", "Base", "decode_item_header", "variables")
    _items.check_header_encode(ctx, "C02.B2", "Base", "encode_item_header", "format_code")  # re-encoding a decoded value gives the canonical header
    check_dynamic(ctx)
    # "Dynamic([]) supports every table entry" also after a value was set: choosing the type for a Python value reads the
    # allowed types and leaves them as they are (reference text shared with C03.P3)
    from .. import report
    from .c03 import check_match_type

    report.share(ctx, "C02.T1", check_match_type)
    n = _items.check_numeric_table(ctx, "C02.T2", NUMERIC, VAR_ATTRS)
    ctx.floor("numeric classes", n, 10)
    check_revalidation(ctx)
    # no length-byte count is stored by the header decoder (re-encoding cannot depend on it)
    f = ctx.repo.method("Base", "decode_item_header", inherited=False)
    writes = [norm(s) for s in rules.func_stmts(f.node) if isinstance(s, (ast.Assign, ast.AugAssign)) and any((dotted(t) or "").startswith("self.") for t in rules.assigned_targets(s))]
    ctx.ob("C02.B2", f.qualname, not writes, "the header decoder stores nothing on the item (re-encoding depends on the value only)" if not writes else f"the header decoder stores {writes}", key="no-state", where=f.where)
