"""C02 - every valid SEMI E5 item encoding is decoded to the value it denotes (variables API, decoding side)."""

from __future__ import annotations

import ast

from ..cfg import cfg_of
from ..model import AnalysisError, ClassInfo, call_name, calls_in, dotted, norm, walk_no_nested
from .. import fde, rules
from . import _items
from .c01 import NUMERIC, VAR_ATTRS

CONCRETE = ["Array", "Binary", "Boolean", "String", "JIS8", "I1", "I2", "I4", "I8", "F4", "F8", "U1", "U2", "U4", "U8"]
ANY_MIN = ["Array", "Binary", "Boolean", "String", "I1", "I2", "I4", "I8", "F4", "F8", "U1", "U2", "U4", "U8"]

META = {
    "explanation": "Bit-provenance evaluation of Base.decode_item_header with every branch over the length value explored (a "
    "header is accepted for each number of length bytes 1..3 whatever the length value - non-minimal encodings included), "
    "table rules on Dynamic.decode (format-code table covers every concrete item class, an unrestricted Dynamic supports "
    "each of them, lists decode as Array(ANYVALUE), decoding restarts at the item start, the only refusal is an "
    "unsupported format code), the numeric table against the exact struct ranges, and the exact rejection predicate of the "
    "range re-validation (strict on both sides).",
    "decides": [
        "C02.B2 decode_item_header accepts 1, 2 and 3 length bytes independently of the length value and yields the big-endian length (canonical re-encoding then follows from C01.B1, the decoded object stores no length-byte count)",
        "C02.T1 Dynamic.decode: table covers all concrete item classes; Dynamic([]) supports every table entry; ANYVALUE allows list/binary/boolean/ASCII and every integer and float width; list => Array(ANYVALUE); sub-decode restarts at `start`; refusal only for an unsupported code",
        "C02.T2 every finite value of each numeric struct code lies inside [_min, _max] (bounds are the exact representable range)",
        "C02.P1 re-validation rejects exactly x < _min or x > _max (strict, both bounds) in set/_set_list/_set_bytearray",
    ],
    "does_not_decide": ["value equality for text under the codecs beyond C01.T2", "semantic equality of decoded floats"],
    "assumptions": ["struct.unpack returns the IEEE 754 / two's complement value (stdlib)"],
}


def _type_table(repo, f, expr, depth=0):
    """Evaluate an expression denoting a format-code -> class mapping to the set of class names."""
    if depth > 4:
        return None
    if isinstance(expr, ast.Dict):
        out = set()
        for k, v in zip(expr.keys, expr.values):
            if isinstance(v, ast.Name) and norm(k) == f"{v.id}.format_code":
                out.add(v.id)
            else:
                return None
        return out
    if isinstance(expr, ast.DictComp) and len(expr.generators) == 1:
        g = expr.generators[0]
        if isinstance(g.target, ast.Name) and not g.ifs and norm(expr.key) == f"{g.target.id}.format_code" and norm(expr.value) == g.target.id:
            ev = fde.FDE(repo, f, {}, inline=True)
            v = ev.ev(g.iter)
            if isinstance(v, list) and all(isinstance(x, fde.ClsTok) for x in v):
                return {x.name for x in v}
        return None
    if isinstance(expr, ast.Name):
        defs = rules.single_assignments(f.node)
        if expr.id in defs:
            return _type_table(repo, f, defs[expr.id], depth + 1)
        target = repo.resolve(f.module, expr.id)
        if isinstance(target, ast.AST):
            return _type_table(repo, f, target, depth + 1)
    return None


def check_dynamic(ctx, rule="C02.T1"):
    repo = ctx.repo
    f = repo.method("Dynamic", "decode", inherited=False)
    ctx.touch(f)
    q = f.qualname
    cfg = cfg_of(f.node)
    table = None
    tvar = None
    for st in rules.func_stmts(f.node):
        if isinstance(st, ast.Assign) and isinstance(st.targets[0], ast.Name):
            t = _type_table(repo, f, st.value)
            if t:
                table, tvar = t, st.targets[0].id
    if table is None:
        # a module/class level table referenced by name in the membership test
        for n in walk_no_nested(f.node):
            if isinstance(n, ast.Compare) and isinstance(n.ops[0], (ast.In, ast.NotIn)) and isinstance(n.comparators[0], ast.Name):
                t = _type_table(repo, f, n.comparators[0])
                if t:
                    table, tvar = t, n.comparators[0].id
    ctx.require(table is not None, f"{q}: format-code table not found - unknown dispatch idiom")
    missing = [c for c in CONCRETE if c not in table]
    ctx.ob(rule, q, not missing, f"the format-code table covers all {len(CONCRETE)} concrete item classes" if not missing else
           f"the format-code table lacks {missing}: a Dynamic that may hold such an item encodes it but cannot decode its own bytes (ValueError: Unsupported format)", key="table", where=f.where, table=sorted(table))
    # an unrestricted Dynamic supports every entry
    ts = repo.cls("Dynamic").methods.get("__type_supported") or repo.cls("Dynamic").methods.get("_Dynamic__type_supported")
    ctx.require(ts is not None, "Dynamic.__type_supported not found")
    ctx.touch(ts)
    p = ts.node.args.args[1].arg
    refused = []
    undecided = []
    for c in sorted(table):
        ev = fde.FDE(repo, ts, {"self.types": []}, env={p: fde.ClsTok(c)}, inline=True)
        try:
            r = ev.run().returned
        except fde.Undecided as exc:
            undecided.append(str(exc))
            continue
        if r is True:
            continue
        if r is False:
            refused.append(c)
        else:
            undecided.append(f"{c}: {r!r}")
    ctx.require(not undecided, f"{ts.qualname}: cannot evaluate for an unrestricted Dynamic: {undecided[:2]}")
    ctx.ob(rule, ts.qualname, not refused, "an unrestricted Dynamic (types == []) supports every decodable item class" if not refused else
           f"an unrestricted Dynamic([]) refuses {refused} although the documented meaning of an empty type list is 'all types'", key="unrestricted", where=ts.where)
    restricted_ok = True
    for c in ("U1", "String"):
        ev = fde.FDE(repo, ts, {"self.types": [fde.ClsTok("U1")]}, env={p: fde.ClsTok(c)}, inline=True)
        r = ev.run().returned
        if r is not (c == "U1"):
            restricted_ok = False
    ctx.ob(rule, ts.qualname, restricted_ok, "a restricted Dynamic supports exactly its listed types" if restricted_ok else "a restricted Dynamic does not support exactly its listed types", key="restricted", where=ts.where)
    # refusal only for unsupported format
    raises = [n for n in cfg.real_nodes() if isinstance(n.ast, ast.Raise)]
    bad = []
    for r in raises:
        conds = [norm(t) for t, v in cfg.dominating_conditions(r) if v]
        if not any(("not in " + (tvar or "")) in c and "type_supported" in c for c in conds):
            bad.append((r, conds))
    ok = len(raises) >= 1 and not bad
    ctx.ob(rule, q, ok, "the only refusal is an unsupported or disallowed format code" if ok else
           f"Dynamic.decode also refuses under {bad[0][1] if bad else 'no condition'}: valid items of an allowed format are rejected (e.g. a byte length compared with an element count)", key="only-refusal", where=f.where)
    # Array => Array(ANYVALUE); others typ(count=self.count); restart at start
    arr = [n for n in cfg.real_nodes() if isinstance(n.ast, ast.Assign) and norm(n.ast.targets[0]) == "self.value" and norm(n.ast.value) == "Array(ANYVALUE)"]
    ok = len(arr) == 1 and any(norm(t) in ("typ == Array", "typ is Array") and v for t, v in cfg.dominating_conditions(arr[0]))
    ctx.ob(rule, q, ok, "a list item decodes as Array(ANYVALUE), i.e. arbitrarily nested" if ok else "a list item is not decoded as Array(ANYVALUE)", key="nested", where=f.where)
    oth = [n for n in cfg.real_nodes() if isinstance(n.ast, ast.Assign) and norm(n.ast.targets[0]) == "self.value" and norm(n.ast.value) == "typ(count=self.count)"]
    ok = len(oth) == 1
    ctx.ob(rule, q, ok, "other items are decoded by a fresh instance of the table's class" if ok else "scalar items are not decoded by typ(count=self.count)", key="scalar", where=f.where)
    params = [a.arg for a in f.node.args.args[1:]]
    rets = [n for n in cfg.real_nodes() if isinstance(n.ast, ast.Return)]
    ok = len(rets) == 1 and norm(rets[0].ast.value) == f"self.value.decode({params[0]}, {params[1]})"
    ctx.ob(rule, q, ok, "the chosen class decodes from the item's own start and its cursor is returned" if ok else f"returns `{norm(rets[0].ast.value) if rets else None}`", key="restart", where=f.where)
    hdr = [c for c in calls_in(f.node) if call_name(c) == "self.decode_item_header"]
    ok = len(hdr) == 1 and [norm(a) for a in hdr[0].args] == params
    ctx.ob(rule, q, ok, "the format code is read from the header at `start`" if ok else "the format code is not read by decode_item_header(data, start)", key="peek-header", where=f.where)
    # typ selection uses the decoded format code
    sel = [n for n in cfg.real_nodes() if isinstance(n.ast, ast.Assign) and norm(n.ast.targets[0]) == "typ"]
    ok = len(sel) == 1 and norm(sel[0].ast.value) == f"{tvar}[format_code]"
    ctx.ob(rule, q, ok, "the class is selected by the received format code" if ok else "the class is not selected as table[format_code]", key="select", where=f.where)
    # ANYVALUE
    init = repo.method("ANYVALUE", "__init__", inherited=False)
    ctx.touch(init)
    sup = [c for c in calls_in(init.node) if call_name(c) == "super().__init__"]
    ctx.require(len(sup) == 1 and sup[0].args, "ANYVALUE.__init__: super().__init__([...]) not found")
    ev = fde.FDE(repo, init, {}, inline=True)
    v = ev.ev(sup[0].args[0])
    names = {x.name for x in v if isinstance(x, fde.ClsTok)} if isinstance(v, list) else set()
    missing = [c for c in ANY_MIN if c not in names]
    ctx.ob(rule, "ANYVALUE", not missing, "ANYVALUE allows lists, binary, boolean, ASCII and every integer/float width" if not missing else f"ANYVALUE does not allow {missing}", where=init.where, allowed=sorted(names))
    # Dynamic.encode / get delegate
    enc = repo.method("Dynamic", "encode", inherited=False)
    rets = [s for s in rules.func_stmts(enc.node) if isinstance(s, ast.Return)]
    ok = len(rets) == 1 and norm(rets[0].value) == "self.value.encode()"
    ctx.ob(rule, enc.qualname, ok, "re-encoding is done by the decoded item (canonical form by C01.B1)" if ok else "Dynamic.encode does not delegate to the held item", where=enc.where)


def check_revalidation(ctx):
    repo = ctx.repo
    for mname in ("set", "_set_list", "_set_bytearray"):
        f = repo.method("BaseNumber", mname, inherited=False)
        ctx.touch(f)
        cfg = cfg_of(f.node)
        raises = [n for n in cfg.real_nodes() if isinstance(n.ast, ast.Raise) and "Invalid value" in norm(n.ast)]
        range_raises = []
        for r in raises:
            for t, v in cfg.dominating_conditions(r):
                if "self._min" in norm(t) or "self._max" in norm(t):
                    range_raises.append((r, t, v))
        ok = len(range_raises) >= 1
        ctx.ob("C02.P1", f.qualname, ok, "values are re-validated against the class range" if ok else "no range re-validation found", key="present", where=f.where)
        for r, t, v in range_raises:
            good = False
            if isinstance(t, ast.BoolOp) and isinstance(t.op, ast.Or) and len(t.values) == 2 and v:
                a, b = t.values
                good = (isinstance(a, ast.Compare) and isinstance(a.ops[0], ast.Lt) and norm(a.comparators[0]) == "self._min"
                        and isinstance(b, ast.Compare) and isinstance(b.ops[0], ast.Gt) and norm(b.comparators[0]) == "self._max" and norm(a.left) == norm(b.left))
            ctx.ob("C02.P1", f.qualname, good, "rejected exactly when x < _min or x > _max (the boundary values themselves are valid encodings)" if good else
                   f"rejection predicate `{norm(t)}` is not `x < _min or x > _max`: the boundary encodings (0xFF.., 0x80.., largest finite float) are refused or out-of-range values pass", key="predicate " + norm(t), where=f.where)
    dec = repo.method("BaseNumber", "decode", inherited=False)
    ok = any(call_name(c) == "self.set" for c in calls_in(dec.node))
    ctx.ob("C02.P1", dec.qualname, ok, "decoded numbers are stored through the validating set()" if ok else "decode bypasses set()", where=dec.where)


def run(ctx):
    _items.check_header_decode(ctx, "C02.B2", "Base", "decode_item_header", "variables")
    check_dynamic(ctx)
    n = _items.check_numeric_table(ctx, "C02.T2", NUMERIC, VAR_ATTRS)
    ctx.floor("numeric classes", n, 10)
    check_revalidation(ctx)
    # no length-byte count is stored by the header decoder (re-encoding cannot depend on it)
    f = ctx.repo.method("Base", "decode_item_header", inherited=False)
    writes = [norm(s) for s in rules.func_stmts(f.node) if isinstance(s, (ast.Assign, ast.AugAssign)) and any((dotted(t) or "").startswith("self.") for t in rules.assigned_targets(s))]
    ctx.ob("C02.B2", f.qualname, not writes, "the header decoder stores nothing on the item (re-encoding depends on the value only)" if not writes else f"the header decoder stores {writes}", key="no-state", where=f.where)
