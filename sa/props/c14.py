"""C14 - the Item API agrees with SEMI E5 and with the variables API on every value."""

from __future__ import annotations

import ast
import copy
import re

from ..cfg import cfg_of
from ..model import AnalysisError, call_name, calls_in, dotted, norm, walk_no_nested
from .. import rules
from .. import conds as cnd
from . import _codec, _items

ITEM_NUMERIC = {"U1": "ItemU1", "U2": "ItemU2", "U4": "ItemU4", "U8": "ItemU8", "I1": "ItemI1", "I2": "ItemI2", "I4": "ItemI4", "I8": "ItemI8", "F4": "ItemF4", "F8": "ItemF8"}
ITEM_OTHERS = {"L": "ItemL", "B": "ItemB", "BOOLEAN": "ItemBOOLEAN", "A": "ItemA", "J": "ItemJ"}
ITEM_ATTRS = {"code": "_hsms_type", "bytes": "_bytes", "struct": "_struct_code", "min": "_minimum_value", "max": "_maximum_value"}
VAR_OF = {"U1": "U1", "U2": "U2", "U4": "U4", "U8": "U8", "I1": "I1", "I2": "I2", "I4": "I4", "I8": "I8", "F4": "F4", "F8": "F8", "L": "List", "B": "Binary", "BOOLEAN": "Boolean", "A": "String", "J": "JIS8"}

META = {
    "explanation": "The same bit-provenance header obligations as C01 on Item.encode_item_header / _decode_item_header (all "
    "lengths, all byte values), agreement of the 15 item classes' constants with E5 and with the variables classes (so both "
    "APIs emit identical bytes for the same typed value, given the shape rules), shape rules on the encode/decode pairs, "
    "the type-selection rules of Item.from_value (bool before int, integer candidates ordered by width and chosen by range "
    "containment, no truthiness test on items that define a length), and a lint for zero-filled buffers in value paths.",
    "decides": [
        "C14.B1 Item header encode/decode: same obligations as C01.B1/B2; sibling agreement with the variables implementation",
        "C14.T1 item classes: E5 format code, struct code, width, exact range; equal to the variables classes' constants; SML mnemonics registered",
        "C14.P1 numeric/boolean/binary/text/list encode and decode shapes (big-endian, width, element order, exact consumption)",
        "C14.P2 from_value: list/str/bytes/bool/float/int dispatch with bool tested before int; integers take the first class of increasing width whose exact range contains the value, unsigned for value >= 0; the result is returned by identity, not by truthiness",
        "C14.L1 no zero-filled bytes(int) buffer in value construction",
    ],
    "does_not_decide": ["float narrowing to F4 (value dependent)", "text codecs beyond C01.T2", "value equality after validate_value for exotic inputs"],
    "assumptions": ["struct semantics (stdlib)"],
}


def check_tables(ctx):
    repo = ctx.repo
    r = _items.ref()
    n = _items.check_numeric_table(ctx, "C14.T1", ITEM_NUMERIC, ITEM_ATTRS)
    ctx.floor("numeric item classes", n, 10)
    for mnem, cname in {**ITEM_NUMERIC, **ITEM_OTHERS}.items():
        cls = repo.cls(cname)
        ctx.touch(cls)
        code = repo.const(cls, "_hsms_type")
        sml = repo.const(cls, "_sml_type")
        ok = code == r["items"][mnem]["code"] and sml == mnem
        ctx.ob("C14.T1", cname, ok, f"{cname}: SML type {sml}, format code {oct(code)} = E5" if ok else f"{cname}: SML type {sml!r} / format code {oct(code)}; E5: {mnem} = 0o{r['items'][mnem]['octal']}", key="code", where=cls.where)
        v = VAR_OF[mnem]
        same = code == repo.const(v, "format_code")
        if mnem in ITEM_NUMERIC:
            same = same and repo.const(cls, "_struct_code").lower() == repo.const(v, "_struct_code").lower() and repo.const(cls, "_bytes") == repo.const(v, "_bytes") \
                and repo.const(cls, "_minimum_value") == repo.const(v, "_min") and repo.const(cls, "_maximum_value") == repo.const(v, "_max")
        ctx.ob("C14.T1", cname, same, f"{cname} and variables.{v} agree on code, width, struct code and range" if same else f"{cname} and variables.{v} disagree on their constants: the two APIs encode the same typed value differently / accept different ranges", key="sibling", where=cls.where)
    enc = {"ItemA": "latin1", "ItemJ": "jis_8"}
    for cname, codec in enc.items():
        got = repo.const(cname, "_encoding")
        vcod = repo.const(VAR_OF["A" if cname == "ItemA" else "J"], "coding")
        norm_ = lambda s: s.replace("-", "").replace("_", "").lower()  # noqa: E731
        ok = norm_(got) == norm_(codec) == norm_(vcod)
        ctx.ob("C14.T1", cname, ok, f"{cname} uses codec {got} like the variables API" if ok else f"{cname}._encoding is {got!r}; variables use {vcod!r}", key="codec", where=repo.cls(cname).where)
    # registration by SML and HSMS type
    hook = repo.method("Item", "__init_subclass__", inherited=False)
    txt = " ".join(norm(s) for s in rules.func_stmts(hook.node))
    ok = "cls._subclasses_by_sml[cls._sml_type.upper()] = cls" in txt and "cls._subclasses_by_hsms[cls._hsms_type] = cls" in txt
    ctx.ob("C14.T1", hook.qualname, ok, "every concrete item class registers under its SML mnemonic and its format code" if ok else "subclass registration by SML type / format code is missing", where=hook.where)
    # ... for each of the 15 classes: the guards of the two registration stores, folded with that class's constants, hold
    # (the list item has format code 0 and every class a non-empty mnemonic: a guard on truthiness / sign must not drop one)
    hcfg = cfg_of(hook.node)
    stores = {tab: [n for n in hcfg.real_nodes() if isinstance(n.ast, ast.Assign) and norm(n.ast.targets[0]).startswith(f"cls.{tab}[")] for tab in ("_subclasses_by_sml", "_subclasses_by_hsms")}
    if all(stores.values()):
        class _Fold(ast.NodeTransformer):
            def __init__(self, consts):
                self.consts = consts

            def visit_Attribute(self, node):
                if isinstance(node.value, ast.Name) and node.value.id == "cls" and node.attr in self.consts:
                    return ast.copy_location(ast.Constant(value=self.consts[node.attr]), node)
                return self.generic_visit(node)

        dropped = []
        for cname in list(ITEM_NUMERIC.values()) + list(ITEM_OTHERS.values()):
            consts = {a: repo.const(cname, a) for a in ("_sml_type", "_hsms_type") if repo.has_const(cname, a)}
            for tab, nodes in stores.items():
                reached = False
                for n in nodes:
                    try:
                        if all(bool(eval(compile(ast.fix_missing_locations(ast.Expression(_Fold(consts).visit(copy.deepcopy(t)))), "<guard>", "eval"), {}, {})) == v  # noqa: S307 - constants only
                               for t, v in hcfg.dominating_conditions(n)):
                            reached = True
                    except Exception as exc:  # a guard that is not a test of the class constants
                        raise AnalysisError(f"Item.__init_subclass__: registration guard not foldable for {cname} ({type(exc).__name__})")
                if not reached:
                    dropped.append(f"{cname} from {tab}")
        ctx.ob("C14.T1", hook.qualname, not dropped, "the registration guards hold for all 15 item classes" if not dropped else
               f"the registration guards exclude {dropped}: Item.decode / from_sml cannot find the class for that format code or mnemonic (nested lists no longer decode)", key="registered-all", where=hook.where)
    dec = repo.method("Item", "decode", inherited=False)
    from .. import normal as _normal, summary as _summary

    dfn, _ = _normal.normalise(repo, dec, keep={"_decode_peek_item_type"}, comps=False, ifexp=False)
    dparam = dfn.args.args[1].arg
    code = f"cls._decode_peek_item_type({dparam})"
    dpaths = _summary.summarise(dfn)
    ok = any(p_.kind == "return" and p_.value == f"cls._subclasses_by_hsms[{code}].decode({dparam})" and (f"{code} in cls._subclasses_by_hsms", True) in p_.conds for p_ in dpaths) \
        and any(p_.kind == "raise" and (f"{code} in cls._subclasses_by_hsms", False) in p_.conds for p_ in dpaths) \
        and not any(p_.kind == "return" and (f"{code} in cls._subclasses_by_hsms", False) in p_.conds for p_ in dpaths)
    ctx.ob("C14.T1", dec.qualname, ok, "Item.decode dispatches on the format code and refuses unknown codes" if ok else "Item.decode does not dispatch on the peeked format code", where=dec.where)
    peek = repo.method("Item", "_decode_peek_item_type", inherited=False)
    rets = [s for s in rules.func_stmts(peek.node) if isinstance(s, ast.Return)]
    ok = len(rets) == 1 and rules.expand(peek.node, rets[0].value) in ("(data.peek() & 252) >> 2", "data.peek() >> 2")
    ctx.ob("C14.T1", peek.qualname, ok, "the dispatch code is bits 7-2 of the first byte" if ok else f"peeked type is `{norm(rets[0].value) if rets else None}`", where=peek.where)


def check_shapes(ctx):
    repo = ctx.repo
    # the encode/decode shapes of the item classes are compared with their reviewed reference models (sa.refmodels, rule
    # C14.P1 in sa/reference/models/index.json): big-endian packing with the class's struct code, one byte per boolean,
    # header(len) + payload, children in order from the shared cursor - independent of how the loops are spelled
    pd = repo.cls("PacketData")
    g = pd.methods["get"]
    _codec.agree(ctx, "C14.P1", g, REF_ITEM["get"], {"returns": "PacketData.get returns the next n bytes", "stores": "and advances by n"}, key_prefix="get ")
    g1 = pd.methods["get_one"]
    _codec.agree(ctx, "C14.P1", g1, REF_ITEM["get_one"], {"returns": "PacketData.get_one returns the next byte", "stores": "and advances by one"}, key_prefix="get-one ")


REF_ITEM = {
    "_from_value_int": """
def _from_value_int(cls, value):
    types = ["U1", "U2", "U4", "U8"] if value >= 0 else ["I1", "I2", "I4", "I8"]
    for f_type in types:
        typ = cls._subclasses_by_sml[f_type]
        if typ.minimum_value <= value <= typ.maximum_value:
            return typ(value)
    return cls._subclasses_by_sml["I8"](value)
""",
    "get": """
def get(self, length=1):
    result = self._data[:length]
    self._data = self._data[length:]
    return result
""",
    "get_one": """
def get_one(self):
    result = self._data[0]
    self._data = self._data[1:]
    return result
""",
}


def check_from_value(ctx):
    repo = ctx.repo
    f = repo.method("Item", "from_value", inherited=False)
    ctx.touch(f)
    q = f.qualname
    from .. import inline, normal, summary

    # on the path summary of the function with its private dispatch helpers inlined: which constructor answers which type
    # test, whatever the spelling (elif chain with a result local, early returns, an extracted helper)
    fn, used = normal.normalise(repo, f, keep={"_from_value_float", "_from_value_int"}, comps=False, ifexp=False)
    for h in used:
        ctx.touch(h)
    cfg = cfg_of(inline.expanded(ctx, f, keep={"_from_value_float", "_from_value_int"}))
    vparam = fn.args.args[1].arg
    want = {"list": "L", "str": "A", "bytes": "B", "bool": "BOOLEAN"}
    got, int_paths = {}, []
    for path in summary.summarise(fn):
        if path.kind != "return" or not path.value:
            continue
        pos = [t for t, pol in path.conds if pol and t.startswith(f"isinstance({vparam}, ")]
        neg = [t for t, pol in path.conds if not pol and t.startswith(f"isinstance({vparam}, ")]
        val = path.value
        for _ in range(3):  # `result if result else ...` style wrappers leave the constructor text inside
            break
        m = re.search(r"cls\._subclasses_by_sml\['([A-Z0-9]+)'\]\(" + re.escape(vparam) + r"\)", val)
        res = m.group(1) if m else ("cls._from_value_float" if f"cls._from_value_float({vparam})" in val else "cls._from_value_int" if f"cls._from_value_int({vparam})" in val else None)
        if res is None:
            continue
        for t in pos:
            typ = t[len(f"isinstance({vparam}, "):-1]
            got.setdefault(typ, set()).add(res)
        if res == "cls._from_value_int":
            int_paths.append((pos, neg))
    ok = bool(int_paths) and all(f"isinstance({vparam}, bool)" in neg for pos, neg in int_paths)
    ctx.ob("C14.P2", q, ok, "bool is excluded before int is accepted (bool is a subclass of int)" if ok else f"the integer branch is reached without excluding bool first: True/False would become U1 1/0 instead of BOOLEAN", key="bool-before-int", where=f.where)
    flat = {k: (next(iter(v)) if len(v) == 1 else sorted(v)) for k, v in got.items()}
    ok = all(flat.get(k) == v for k, v in want.items()) and flat.get("float") == "cls._from_value_float" and flat.get("int") == "cls._from_value_int"
    ctx.ob("C14.P2", q, ok, "list->L, str->A, bytes->B, bool->BOOLEAN, float/int -> width selection" if ok else f"from_value dispatch table is {flat}", key="dispatch", where=f.where)
    # result returned by identity: no truthiness test of a local that holds the created item
    created = {t.id for n in cfg.real_nodes() if isinstance(n.ast, ast.Assign) and isinstance(n.ast.value, ast.Call) and ("_subclasses_by_sml" in norm(n.ast.value) or "_from_value_" in norm(n.ast.value))
               for t in n.ast.targets if isinstance(t, ast.Name)}
    changed = True
    while changed:  # copies of such locals (the result of an inlined helper handed to the caller's local)
        changed = False
        for n in cfg.real_nodes():
            if isinstance(n.ast, ast.Assign) and isinstance(n.ast.value, ast.Name) and n.ast.value.id in created:
                for t in n.ast.targets:
                    if isinstance(t, ast.Name) and t.id not in created:
                        created.add(t.id)
                        changed = True
    truthy = [n for n in cfg.nodes if n.kind == "test" and any(cnd.canon(n.ast, True) in ({(v, True)}, {(v, False)}) for v in created)]
    defines_len = [c.name for c in [repo.cls("Item")] + repo.subclasses("Item") if "__len__" in c.methods or "__bool__" in c.methods]
    ok = not (truthy and defines_len)
    ctx.ob("C14.P2", q, ok, "a created item is always returned" if ok else
           f"`{norm(truthy[0].ast)}` tests the truthiness of the created item while {defines_len} define __len__/__bool__: an empty item ('' / b'' / []) is falsy, so from_value raises 'Invalid value' for valid empty values",
           key="identity-return", where=f.where)
    g = repo.method("Item", "_from_value_int", inherited=False)
    ctx.touch(g)
    _codec.agree(ctx, "C14.P2", g, REF_ITEM["_from_value_int"], {
        "returns": "non-negative integers try U1,U2,U4,U8 and negative ones I1,I2,I4,I8 in increasing width; the first candidate whose exact range contains the value is instantiated with the unchanged value (I8 otherwise)",
    }, key_prefix="candidates ")
    for prop, fld in (("minimum_value", "self._minimum_value"), ("maximum_value", "self._maximum_value")):
        p = repo.method("Item", prop, inherited=False)
        rets = [s for s in rules.func_stmts(p.node) if isinstance(s, ast.Return)]
        ok = len(rets) == 1 and norm(rets[0].value) == fld
        ctx.ob("C14.P2", p.qualname, ok, f"{prop} exposes {fld}" if ok else f"{prop} returns {norm(rets[0].value) if rets else None}", where=p.where)


def check_bytes_lint(ctx):
    repo = ctx.repo
    n_sites = 0
    for cname in ("Item", "ItemB", "ItemBOOLEAN", "ItemNumber", "ItemStr", "ItemL", "ItemA", "ItemJ"):
        cls = repo.cls(cname)
        for meth in cls.methods.values():
            for c in calls_in(meth.node):
                if call_name(c) == "bytes" and len(c.args) == 1 and not c.keywords:
                    n_sites += 1
                    a = c.args[0]
                    is_int = (isinstance(a, ast.Call) and call_name(a) in ("int", "len")) or (isinstance(a, ast.Constant) and isinstance(a.value, int) and not isinstance(a.value, bool))
                    ctx.ob("C14.L1", meth.qualname, not is_int, f"`{norm(c)}` builds bytes from a sequence" if not is_int else
                           f"`{norm(c)}` creates a zero-filled buffer of that many bytes instead of a byte with that value: the item does not hold the given value", key=norm(c), where=meth.where)
    ctx.floor("bytes(...) construction sites in the item classes", n_sites, 2)


def run(ctx):
    intervals = _items.check_header_encode(ctx, "C14.B1", "Item", "encode_item_header", "_hsms_type")
    _items.check_header_decode(ctx, "C14.B1", "Item", "_decode_item_header", "item")
    _items.check_roundtrip(ctx, "C14.B1", "Item", "encode_item_header", "_hsms_type", "Item", "_decode_item_header", "item", intervals)
    check_tables(ctx)
    check_shapes(ctx)
    check_from_value(ctx)
    check_bytes_lint(ctx)
