"""C04 - HSMS frames are bit-exact and reassembled independently of TCP segmentation."""

from __future__ import annotations

import ast
import json
import os
import struct

from ..cfg import cfg_of
from ..model import AnalysisError, call_name, calls_in, dotted, norm
from .. import bits, normal, rules
from .. import conds as cnd
from . import _block
from ._dispatch import check_dispatcher
from .c09 import check_bytequeue_wait

REF = os.path.join(os.path.dirname(os.path.dirname(__file__)), "reference", "e37.json")

META = {
    "explanation": "Bit-provenance abstract evaluation of HsmsHeader.encode/decode (every output bit is a constant or a named "
    "input bit, so layout and decode-after-encode identity hold for all field values), structural rules on Block.encode/"
    "decode with the HsmsBlock constants, constant-relation rules on the framing cursor of "
    "HsmsProtocol._process_received_data (peek size = length-prefix size = constant added to the unpacked length; the "
    "consuming read takes exactly that many bytes; one queue_block per frame), and the wake-up/lock discipline of "
    "ByteQueue and ProtocolDispatcher that makes delivery independent of chunking.",
    "decides": [
        "C04.B1 HsmsHeader.encode bit layout = E37 for all field values; decode(encode(h)) = h field by field; length constant = 10 = calcsize of the format",
        "C04.B2 Block.encode/decode frame format with HsmsBlock constants (4-byte big-endian length = header + data, no checksum)",
        "C04.P1 framing cursor relations, exactly one queue_block per frame in buffer order, decoded block is what is queued",
        "C04.W1 no lost wake-up in receiver/dispatcher threads; ByteQueue append/wait_for/pop/peek discipline; data is appended before the receiver is triggered",
        "C04.T1 the HSMS header subclasses pass the E37 constants (session 0xFFFF, stream/function 0, PType 0, own SType)",
    ],
    "does_not_decide": ["scheduling of the three threads beyond the wake-up discipline"],
    "assumptions": ["struct.pack/unpack semantics for B/H/L big-endian (stdlib)", "field ranges as in E37 (session 16 bit, stream 7, function 8, PType 8, SType 8, system 32)"],
}

FIELDS = {"device_id": ("session_id", 16), "stream": ("stream", 7), "function": ("function", 8), "require_response": ("w_bit", 1),
          "p_type": ("p_type", 8), "s_type.value": ("s_type", 8), "system": ("system", 32)}


def _ref():
    with open(REF, encoding="utf-8") as handle:
        return json.load(handle)


def check_header(ctx):
    repo = ctx.repo
    ref = _ref()
    try:
        f, out = _block.eval_header_encode(repo, "HsmsHeader", FIELDS)
    except bits.LayoutViolation as exc:
        f = repo.method("HsmsHeader", "encode", inherited=False)
        ctx.ob("C04.B1", f.qualname, False, f"HsmsHeader.encode: {exc}", key="layout", where=f.where)
        return
    ctx.touch(f)
    _block.check_layout(ctx, "C04.B1", f.qualname, f.where, out, ref["header"]["layout"], ref["header"]["length"])
    length = repo.const("HsmsHeader", "length")
    fmt_calls = [c for c in calls_in(f.node) if call_name(c) == "struct.pack"]
    fmt = repo.fold(fmt_calls[0].args[0], f.module, f.cls) if fmt_calls else None
    ok = length == ref["header"]["length"] and fmt is not None and struct.calcsize(fmt) == length
    ctx.ob("C04.B1", "HsmsHeader.length", ok, f"HsmsHeader.length = {length} = calcsize({fmt!r})" if ok else f"HsmsHeader.length = {length} but the pack format {fmt!r} has {struct.calcsize(fmt) if fmt else '?'} bytes (E37: 10)", where=f.where)
    # decode(encode(x)) = x
    try:
        g, obj = _block.eval_header_decode(repo, "HsmsHeader", out)
    except bits.LayoutViolation as exc:
        g = repo.method("HsmsHeader", "decode", inherited=False)
        ctx.ob("C04.B1", g.qualname, False, f"HsmsHeader.decode: {exc}", key="layout", where=g.where)
        return
    ctx.touch(g)
    ok = obj.cls == "HsmsHeader"
    ctx.ob("C04.B1", g.qualname, ok, "decode constructs an HsmsHeader" if ok else f"decode constructs {obj.cls}", key="class", where=g.where)
    bound = _block.bind_ctor(repo, "HsmsHeader", obj)
    want = {"system": ("system", 32), "device_id": ("session_id", 16), "stream": ("stream", 7), "function": ("function", 8), "requires_response": ("w_bit", 1), "p_type": ("p_type", 8)}
    for param, (name, width) in want.items():
        got = bound.get(param)
        exp = bits.SymInt.field(name, width)
        ok = isinstance(got, bits.SymInt) and got.same(exp)
        ctx.ob("C04.B1", g.qualname, ok, f"decode(encode(h)).{param} = h.{name} for all values" if ok else f"decode returns {param} = {got!r}, not the encoded {name} ({exp!r})", key="roundtrip " + param, where=g.where)
    st = bound.get("s_type")
    ok = isinstance(st, bits.Obj) and st.cls == "HsmsSType" and len(st.args) == 1 and isinstance(st.args[0], bits.SymInt) and st.args[0].same(bits.SymInt.field("s_type", 8))
    ctx.ob("C04.B1", g.qualname, ok, "decode rebuilds the SType enum from byte 5" if ok else f"decode returns s_type = {st!r}", key="roundtrip s_type", where=g.where)
    # decode alone on arbitrary bytes: which input bits feed which field (independent of encode)
    raw = bits.SymBytes([bits.SymInt.field(f"b{i}", 8) for i in range(10)])
    g2, obj2 = _block.eval_header_decode(repo, "HsmsHeader", raw)
    b2 = _block.bind_ctor(repo, "HsmsHeader", obj2)
    exp_stream = bits.SymInt([("b2", k) for k in range(7)])
    exp_w = bits.SymInt([("b2", 7)])
    ok = isinstance(b2.get("stream"), bits.SymInt) and b2["stream"].same(exp_stream) and isinstance(b2.get("requires_response"), bits.SymInt) and b2["requires_response"].same(exp_w)
    ctx.ob("C04.B1", g.qualname, ok, "decode splits byte 2 into W-bit (bit 7) and stream (bits 6-0) for every byte value" if ok else
           f"decode derives stream = {b2.get('stream')!r}, W = {b2.get('requires_response')!r} from byte 2", key="byte2-split", where=g.where)
    # property getters of the HSMS specific fields
    for prop, fld in (("p_type", "self._p_type"), ("s_type", "self._s_type")):
        p = repo.method("HsmsHeader", prop, inherited=False)
        rets = [s for s in rules.func_stmts(p.node) if isinstance(s, ast.Return)]
        ok = len(rets) == 1 and norm(rets[0].value) == fld
        ctx.ob("C04.B1", p.qualname, ok, f"{prop} returns {fld}" if ok else f"{prop} returns {norm(rets[0].value) if rets else None}", where=p.where)
    init = repo.method("HsmsHeader", "__init__", inherited=False)
    assigned = {dotted(t): norm(s.value) for s in rules.func_stmts(init.node) if isinstance(s, ast.Assign) for t in s.targets}
    ok = assigned.get("self._p_type") == "p_type" and assigned.get("self._s_type") == "s_type"
    ctx.ob("C04.B1", init.qualname, ok, "PType and SType are stored as given" if ok else f"HsmsHeader.__init__ stores {assigned}", where=init.where)


def check_subclasses(ctx):
    repo = ctx.repo
    ref = _ref()
    want = {
        "HsmsSelectReqHeader": "SELECT_REQ", "HsmsSelectRspHeader": "SELECT_RSP", "HsmsDeselectReqHeader": "DESELECT_REQ", "HsmsDeselectRspHeader": "DESELECT_RSP",
        "HsmsLinktestReqHeader": "LINKTEST_REQ", "HsmsLinktestRspHeader": "LINKTEST_RSP", "HsmsSeparateReqHeader": "SEPARATE_REQ",
    }
    n = 0
    for cname, st in want.items():
        cls = repo.cls(cname)
        init = cls.methods.get("__init__")
        ctx.require(init is not None, f"{cname}.__init__ not found")
        sup = [c for c in calls_in(init.node) if call_name(c) == "super().__init__"]
        ctx.require(len(sup) == 1, f"{cname}: super().__init__ not found")
        p = init.node.args.args[1].arg
        vals = []
        for a in sup[0].args:
            try:
                vals.append(repo.fold(a, cls.module, cls, env={p: "SYS"}))
            except Exception:
                vals.append(norm(a))
        ok = len(vals) == 7 and vals[0] == "SYS" and vals[1] == ref["control_session_id"] and vals[2] == 0 and vals[3] == 0 and vals[4] is False and vals[5] == 0 and str(vals[6]).endswith(st) or (len(vals) == 7 and vals[:6] == ["SYS", ref["control_session_id"], 0, 0, False, 0] and norm(sup[0].args[6]) == f"HsmsSType.{st}")
        ctx.ob("C04.T1", cname, bool(ok), f"{cname}: session 0xFFFF, stream 0, function 0, no W-bit, PType 0, SType {st}" if ok else f"{cname} passes {[norm(a) for a in sup[0].args]} (expected system, 0xFFFF, 0, 0, False, 0, HsmsSType.{st})", where=init.where)
        n += 1
    cls = repo.cls("HsmsStreamFunctionHeader")
    init = cls.methods["__init__"]
    sup = [c for c in calls_in(init.node) if call_name(c) == "super().__init__"][0]
    a = [norm(x) for x in sup.args]
    ok = a[:5] == ["system", "device_id", "stream", "function", "require_response"] and a[5] in ("0", "0x00") or a[:5] == ["system", "device_id", "stream", "function", "require_response"] and repo.fold(sup.args[5], cls.module, cls) == 0
    ok = bool(ok) and a[6] == "HsmsSType.DATA_MESSAGE"
    ctx.ob("C04.T1", "HsmsStreamFunctionHeader", ok, "data header: (system, device id, stream, function, W) with PType 0, SType 0" if ok else f"HsmsStreamFunctionHeader passes {a}", where=init.where)
    ctx.floor("HSMS header subclasses", n + 1, 8)
    blk = repo.cls("HsmsBlock")
    lf, cf = repo.const(blk, "length_format"), repo.const(blk, "checksum_format")
    ok = struct.calcsize(">" + lf) == ref["length_prefix_bytes"] and lf.isupper() and cf == "" and norm(blk.consts["header_type"]) == "HsmsHeader"
    ctx.ob("C04.B2", "HsmsBlock", ok, f"HsmsBlock: unsigned {ref['length_prefix_bytes']}-byte length field ('{lf}'), no checksum, HsmsHeader" if ok else f"HsmsBlock constants length_format={lf!r} checksum_format={cf!r} header_type={norm(blk.consts['header_type'])}", where=blk.where)
    msg = repo.cls("HsmsMessage")
    ok = repo.const(msg, "block_size") == -1 and norm(msg.consts["block_type"]) == "HsmsBlock"
    ctx.ob("C04.B2", "HsmsMessage", ok, "an HSMS message is one unsplit block" if ok else "HsmsMessage.block_size is not -1 / block_type is not HsmsBlock", where=msg.where)
    sb = repo.method("Message", "_split_blocks", inherited=False)
    cfg = cfg_of(sb.node)
    first_ret = [n for n in cfg.real_nodes() if isinstance(n.ast, ast.Return) and any(norm(t) == "cls.block_size == -1" and v for t, v in cfg.dominating_conditions(n))]
    ok = len(first_ret) == 1 and norm(first_ret[0].ast.value) == "[cls.block_type(header, data)]"
    ctx.ob("C04.B2", sb.qualname, ok, "an unsplit message keeps header and data unchanged" if ok else "block_size == -1 does not yield [block_type(header, data)]", where=sb.where)
    for prop, val in (("header", "self._blocks[0].header"), ("data", "self._blocks[0].data")):
        p = repo.method("HsmsMessage", prop, inherited=False)
        rets = [s for s in rules.func_stmts(p.node) if isinstance(s, ast.Return)]
        ok = len(rets) == 1 and norm(rets[0].value) == val
        ctx.ob("C04.B2", p.qualname, ok, f"HsmsMessage.{prop} is the block's {prop}" if ok else f"HsmsMessage.{prop} returns {norm(rets[0].value) if rets else None}", where=p.where)


def _affine(expr, env):
    """(depends_on_unpacked, offset) for expressions built from the unpacked length and integer constants."""
    if isinstance(expr, ast.Constant) and isinstance(expr.value, int):
        return (False, expr.value)
    if isinstance(expr, ast.Name) and expr.id in env:
        return env[expr.id]
    if isinstance(expr, ast.Subscript) and isinstance(expr.value, ast.Call) and call_name(expr.value) in ("struct.unpack", "struct.unpack_from") and isinstance(expr.slice, ast.Constant) and expr.slice.value == 0:
        return (True, 0)
    if isinstance(expr, ast.BinOp) and isinstance(expr.op, (ast.Add, ast.Sub)):
        a, b = _affine(expr.left, env), _affine(expr.right, env)
        if a is None or b is None:
            return None
        if isinstance(expr.op, ast.Sub) and b[0]:
            return None
        sign = 1 if isinstance(expr.op, ast.Add) else -1
        if a[0] and b[0]:
            return None
        return (a[0] or b[0], a[1] + sign * b[1])
    return None


def check_framing(ctx):
    repo = ctx.repo
    f = repo.method("HsmsProtocol", "_process_received_data", inherited=False)
    ctx.touch(f)
    q = f.qualname
    fn = normal.normalised(ctx, f)
    cfg = cfg_of(fn)
    K = struct.calcsize(">" + repo.const("HsmsBlock", "length_format"))
    unp = [c for c in calls_in(fn) if call_name(c) in ("struct.unpack", "struct.unpack_from")]
    ctx.require(len(unp) == 1, f"{q}: expected one struct.unpack of the length prefix")
    fmt = repo.fold(unp[0].args[0], f.module, f.cls)
    ok = fmt[0] in ">!" and struct.calcsize(fmt) == K and fmt[1:] == repo.const("HsmsBlock", "length_format")
    ctx.ob("C04.P1", q, ok, f"the length prefix is read as {fmt!r} = big-endian HsmsBlock.length_format" if ok else f"the length prefix is unpacked with {fmt!r}, but frames are written with '>{repo.const('HsmsBlock', 'length_format')}'", key="prefix-format", where=f.where)
    # environment of affine values
    env = {}
    peek_var = None
    for n in cfg.real_nodes():
        if isinstance(n.ast, ast.Assign) and len(n.ast.targets) == 1 and isinstance(n.ast.targets[0], ast.Name):
            a = _affine(n.ast.value, env)
            if a is not None:
                env[n.ast.targets[0].id] = a
        elif isinstance(n.ast, ast.Assign) and len(n.ast.targets) == 1 and isinstance(n.ast.targets[0], (ast.Tuple, ast.List)) and len(n.ast.targets[0].elts) == 1 and isinstance(n.ast.targets[0].elts[0], ast.Name) \
                and isinstance(n.ast.value, ast.Call) and call_name(n.ast.value) in ("struct.unpack", "struct.unpack_from"):
            env[n.ast.targets[0].elts[0].id] = (True, 0)  # (length,) = struct.unpack(...)
    waits = [(n, c) for n in cfg.real_nodes() for c in n.calls if call_name(c) in ("self._receive_buffer.wait_for", "self._receive_buffer.peek", "self._receive_buffer.pop")]
    peeks, consumes = [], []
    for n, c in waits:
        kw = {k.arg: k.value for k in c.keywords}
        is_peek = call_name(c).endswith(".peek") or (isinstance(kw.get("peek"), ast.Constant) and kw["peek"].value is True) or (len(c.args) > 1 and isinstance(c.args[1], ast.Constant) and c.args[1].value is True)
        (peeks if is_peek else consumes).append((n, c))
    ok = len(peeks) == 1 and len(consumes) == 1
    ctx.ob("C04.P1", q, ok, "one non-consuming look at the length prefix and one consuming read per frame" if ok else f"{len(peeks)} peeks / {len(consumes)} consuming reads per frame (a consumed prefix or a second read shifts the cursor)", key="peek-consume", where=f.where)
    if not ok:
        return
    pn, pc = peeks[0]
    cn, cc = consumes[0]
    psize = _affine(pc.args[0], env) if pc.args else None
    ok = psize == (False, K)
    ctx.ob("C04.P1", q, ok, f"the look-ahead takes exactly the {K} prefix bytes" if ok else f"the look-ahead size `{norm(pc.args[0]) if pc.args else ''}` is not the prefix size {K}", key="peek-size", where=f.where)
    # data flow: unpack consumes the peeked bytes
    pvars = {t.id for t in rules.assigned_targets(pn.ast) if isinstance(t, ast.Name)} if isinstance(pn.ast, ast.Assign) and pn.ast.value is pc else set()
    un = next((n for n in cfg.real_nodes() if any(c is unp[0] for c in n.calls)), None)
    ok = len(unp[0].args) >= 2 and (norm(unp[0].args[1]) in pvars or unp[0].args[1] is pc) and un is not None and (un is pn or cfg.dominates(pn, un)) and cfg.dominates(un, cn)
    ctx.ob("C04.P1", q, ok, "the length is unpacked from the peeked bytes" if ok else "the unpacked bytes are not the peeked prefix", key="unpack-source", where=f.where)
    csize = _affine(cc.args[0], env) if cc.args else None
    ok = csize == (True, K)
    ctx.ob("C04.P1", q, ok, f"the consuming read takes length field + {K} bytes = exactly one frame" if ok else
           f"the consuming read takes `{norm(cc.args[0]) if cc.args else ''}` = unpacked length {'+ ' + str(csize[1]) if csize else '?'}; a frame is length field + {K} bytes: the cursor drifts and frames are split or merged", key="consume-size", where=f.where)
    ok = call_name(cc) == "self._receive_buffer.wait_for" or _availability_checked(cfg, cn, env, K)
    ctx.ob("C04.P1", q, ok, "the frame is consumed only when it is complete (blocking wait for that many bytes, or an availability test of the same size)" if ok else
           "the frame bytes are popped without waiting for / testing the full frame size: a frame cut by TCP segmentation is decoded from a short slice", key="complete-before-consume", where=f.where)
    # every frame length the four prefix bytes can announce is a frame: between the look-ahead and the consuming read no
    # branch depends on the announced length except a test that the bytes have arrived
    lenvars = {name for name, (dep, _) in env.items() if dep}
    refusing = []
    for n in cfg.nodes:
        if n.kind != "test" or not (pn is n or cfg.dominates(pn, n)) or not cfg.path_exists(n, cn):
            continue
        names = {x.id for x in ast.walk(n.ast) if isinstance(x, ast.Name)}
        if names & lenvars and "len(self._receive_buffer)" not in norm(n.ast):
            refusing.append(n)
    ctx.ob("C04.P1", q, not refusing, "no frame is refused because of its announced length" if not refusing else
           f"`{norm(refusing[0].ast)}` decides on the announced frame length: a legal frame of that size is dropped (and what follows it is misframed)", key="any-length", where=f.where)
    # loop guard
    heads = [n for n in cfg.nodes if n.kind == "test" and n.label == "while"]
    if not heads and not any(isinstance(x, (ast.While, ast.For)) for x in ast.walk(fn)):
        # straight-line framing: one frame per call.  Unless a caller repeats the call while bytes are buffered, the
        # frames behind the first one of a segment stay in the buffer until unrelated traffic wakes the receiver again.
        recursive = any(call_name(c) == "self._process_received_data" for c in calls_in(fn))
        repeating_callers = []
        for g in repo.functions:
            if g.node is f.node:
                continue
            for w in ast.walk(g.node):
                if isinstance(w, ast.While) and "_receive_buffer" in norm(w.test) and any((call_name(c) or "").endswith("._process_received_data") for c in calls_in(w)):
                    repeating_callers.append(g.qualname)
        ctx.require(not recursive and not repeating_callers, f"{q}: framing without a loop in the function (recursive={recursive}, repeating callers={repeating_callers})")
        ctx.ob("C04.P1", q, False, "after one frame was consumed the function returns without looking at the buffer again and no caller repeats the call while bytes are buffered: "
               "further complete frames of the same segment stay unframed until other traffic wakes the receiver", key="loop-guard", where=f.where)
        return
    ctx.require(len(heads) == 1, f"{q}: framing loop not found")
    H = heads[0]
    t = H.ast
    guard_ok = cnd.canon(t, True) == {(f"len(self._receive_buffer) < {K}", False)}
    ctx.ob("C04.P1", q, guard_ok, f"the loop runs while at least {K} bytes (a full prefix) are buffered" if guard_ok else f"loop guard `{norm(t)}` is not `at least {K} bytes buffered`: a partial prefix is unpacked or a buffered frame is left behind", key="loop-guard", where=f.where)
    pre = [n for n in cfg.nodes if n.kind == "test" and n.label == "if" and "self._receive_buffer" in norm(n.ast) and cfg.dominates(n, H)]
    for n in pre:
        tt = n.ast
        returns_on = "true" if any(isinstance(x.ast, ast.Return) and cfg.dominates(rules.branch_marker(n, "true"), x) for x in cfg.real_nodes()) else "false"
        atoms = cnd.canon(tt, returns_on == "true")
        ok = len(atoms) == 1 and all(pol and t.startswith("len(self._receive_buffer) < ") and t.rsplit(" ", 1)[1].isdigit() and int(t.rsplit(" ", 1)[1]) <= K for t, pol in atoms)
        ctx.ob("C04.P1", q, ok, "the early return fires only when no full prefix is buffered" if ok else f"early return `{norm(tt)}` can skip a buffered frame", key="early-return", where=f.where)
    # one queue_block per iteration, of the decoded block
    qb = [n for n in cfg.real_nodes() if any(c == "self._thread.queue_block" for c in n.call_names())]
    counts = cfg.count_on_paths(lambda n: n in qb, cn, [H, cfg.exit], no_exc=True)
    ok = bool(counts) and all(v == (1, 1) for v in counts.values())
    ctx.ob("C04.P1", q, ok, "exactly one queue_block per consumed frame on every path" if ok else f"queue_block calls after a frame was consumed: {counts} (must be exactly one: a frame is dropped or queued twice)", key="one-queue", where=f.where)
    dec = [n for n in cfg.real_nodes() if any(c == "HsmsBlock.decode" for c in n.call_names())]
    ok = len(dec) == 1 and len(qb) == 1
    if ok:
        dvar = {t.id for t in rules.assigned_targets(dec[0].ast) if isinstance(t, ast.Name)}
        cvars = {t.id for t in rules.assigned_targets(cn.ast) if isinstance(t, ast.Name)} if isinstance(cn.ast, ast.Assign) else set()
        dcall = next(c for c in dec[0].calls if call_name(c) == "HsmsBlock.decode")
        qcall = next(c for c in qb[0].calls if call_name(c) == "self._thread.queue_block")
        # the decoded block is queued: through a local or as the argument itself
        queued_is_decoded = len(qcall.args) == 2 and (norm(qcall.args[1]) in dvar or qcall.args[1] is dcall)
        consumed_is_decoded = norm(dcall.args[0]) in cvars or dcall.args[0] is cc  # through a local or as the argument itself
        ok = consumed_is_decoded and queued_is_decoded and (cn is dec[0] or cfg.dominates(cn, dec[0])) and (dec[0] is qb[0] or cfg.dominates(dec[0], qb[0]))
    ctx.ob("C04.P1", q, ok, "the consumed frame is decoded and that block is queued" if ok else "the queued block is not the decode of the bytes just consumed", key="decode-queue", where=f.where)


def _availability_checked(cfg, cn, env, K) -> bool:
    for t, v in cfg.dominating_conditions(cn):
        if isinstance(t, ast.Compare) and len(t.ops) == 1 and norm(t.left) == "len(self._receive_buffer)":
            a = _affine(t.comparators[0], env)
            if a is None:
                continue
            if isinstance(t.ops[0], ast.GtE) and v and a == (True, K):
                return True
            if isinstance(t.ops[0], ast.Lt) and not v and a == (True, K):
                return True
            if isinstance(t.ops[0], ast.Gt) and v and a == (True, K - 1):
                return True
    return False


def check_byte_queue(ctx, rule="C04.W1"):
    repo = ctx.repo
    pop = repo.method("ByteQueue", "pop", inherited=False)
    ctx.touch(pop)
    p = pop.node.args.args[1].arg
    ok = False
    lead = f"self._buffer[:{p}]"
    for st in rules.func_stmts(pop.node):
        if isinstance(st, ast.With) and any(dotted(i.context_expr) == "self._buffer_lock" for i in st.items):
            # under the lock: take the leading slice, then delete exactly that slice; nothing else touches the buffer
            took = [s for s in st.body if isinstance(s, ast.Assign) and len(s.targets) == 1 and isinstance(s.targets[0], ast.Name) and norm(s.value) == lead]
            dels = [s for s in st.body if isinstance(s, ast.Delete)]
            other = [s for s in st.body if s not in took and s not in dels and not isinstance(s, ast.Return)]
            rets = [s for s in rules.func_stmts(pop.node) if isinstance(s, ast.Return)]
            ok = (len(took) == 1 and len(dels) == 1 and [norm(t) for t in dels[0].targets] == [lead] and not other
                  and st.body.index(took[0]) < st.body.index(dels[0])
                  and len(rets) == 1 and norm(rets[0].value) == took[0].targets[0].id
                  and (rets[0] not in st.body or st.body.index(rets[0]) > st.body.index(dels[0])))
    ctx.ob(rule, pop.qualname, ok, "pop returns the first n bytes and removes exactly those, under the lock" if ok else "ByteQueue.pop does not return+remove the same leading bytes under its lock: bytes are lost or duplicated between frames", where=pop.where)
    peek = repo.method("ByteQueue", "peek", inherited=False)
    p = peek.node.args.args[1].arg
    rets = [s for s in rules.func_stmts(peek.node) if isinstance(s, ast.Return)]
    removes = any(isinstance(s, ast.Delete) for s in rules.func_stmts(peek.node))
    ok = len(rets) == 1 and rules.expand(peek.node, rets[0].value) == f"self._buffer[:{p}]" and not removes
    ctx.ob(rule, peek.qualname, ok, "peek returns the first n bytes without removing them" if ok else "ByteQueue.peek does not return the leading bytes unconsumed", where=peek.where)
    wf = repo.method("ByteQueue", "wait_for", inherited=False)
    ctx.touch(wf)
    wfn = normal.normalised(ctx, wf, keep={"peek", "pop"})
    ps, pp = wfn.args.args[1].arg, wfn.args.args[2].arg
    cfg = cfg_of(wfn)
    rets = [n for n in cfg.real_nodes() if isinstance(n.ast, ast.Return)]
    by = {}
    for r in rets:
        by.setdefault(norm(r.ast.value), []).append(r)
    ok = set(by) == {f"self.peek({ps})", f"self.pop({ps})"} and all(cnd.holds(cfg, r, pp) for r in by[f"self.peek({ps})"]) and all(cnd.holds(cfg, r, f"not {pp}") for r in by[f"self.pop({ps})"])
    ctx.ob(rule, wf.qualname, ok, "wait_for(size, peek) peeks when asked to and pops otherwise, with the same size" if ok else f"wait_for returns {dict((k, [cnd.describe(cfg, r) for r in v]) for k, v in by.items())}", key="peek-or-pop", where=wf.where)
    # predicate compares the buffer length with the requested size
    want = {(f"len(self._buffer) < {ps}", False)}
    preds = []
    nested = {d.name: d for d in ast.walk(wfn) if isinstance(d, ast.FunctionDef) and d is not wfn}
    for c in calls_in(wfn, nested=False):
        if (call_name(c) or "").endswith("_buffer_lock.wait_for") and c.args:
            a0 = c.args[0]
            if isinstance(a0, ast.Lambda):
                preds.append(a0.body)
            elif isinstance(a0, ast.Name) and a0.id in nested:
                preds.extend(r.value for r in ast.walk(nested[a0.id]) if isinstance(r, ast.Return) and r.value is not None)
    ok = bool(preds) and all(cnd.canon(x, True) == want for x in preds)
    if not preds:
        ok = any(isinstance(x, ast.While) and cnd.canon(x.test, True) == {(f"len(self._buffer) < {ps}", True)} for x in ast.walk(wfn))
    ctx.ob(rule, wf.qualname, ok, "the wait predicate is `at least size bytes buffered`" if ok else "the wait predicate is not `len(buffer) >= size`: the reader is released with too few bytes", key="predicate", where=wf.where)
    # no way to the peek/pop with fewer than `size` bytes buffered: every path either sees `len >= size` or waits for it
    atom = f"len(self._buffer) < {ps}"
    waits = [n for n in cfg.real_nodes() if any(c.endswith("_buffer_lock.wait_for") or c.endswith("_buffer_lock.wait") for c in n.call_names())]
    enough = []
    for t in cfg.nodes:
        if t.kind == "test":
            cn = cnd.canon(t.ast, True)
            if cn == {(atom, True)}:
                enough.append(rules.branch_marker(t, "false"))
            elif cn == {(atom, False)}:
                enough.append(rules.branch_marker(t, "true"))
    short = [r for r in rets if cfg.path_exists(cfg.entry, r, avoid=waits + enough)]
    ok = bool(waits) and not short
    ctx.ob(rule, wf.qualname, ok, "the bytes are taken only after `size` bytes were seen buffered or waited for" if ok else
           "there is a path to the peek/pop on which fewer than `size` bytes may be buffered and nothing waits: a frame is cut short when its bytes arrive in two segments", key="waits-when-short", where=wf.where)
    dflt = dict(zip([a.arg for a in wf.node.args.args][-len(wf.node.args.defaults):], [norm(d) for d in wf.node.args.defaults])) if wf.node.args.defaults else {}
    ok = dflt == {ps: "1", pp: "False"}
    ctx.ob(rule, wf.qualname, ok, "by default one byte is waited for and consumed (the callers rely on both defaults)" if ok else
           f"defaults {dflt}: callers that give no size / no peek flag (wait_for(length), wait_for_byte()) get another amount or an unconsumed read", key="defaults", where=wf.where)
    wb = repo.method("ByteQueue", "wait_for_byte", inherited=False)
    ctx.touch(wb)
    wbd = [norm(d) for d in wb.node.args.defaults]
    ok = wbd == ["False"]
    ctx.ob(rule, wb.qualname, ok, "wait_for_byte consumes by default" if ok else f"wait_for_byte defaults {wbd}", key="defaults", where=wb.where)
    # the one-byte forms are the first byte of the general forms
    wbn = normal.normalised(ctx, wb)
    wrets = [x for x in rules.func_stmts(wbn) if isinstance(x, ast.Return)]
    ok = False
    wval = rules.expand_ast(wbn, wrets[0].value) if len(wrets) == 1 and wrets[0].value is not None else None
    if wval is not None and isinstance(wval, ast.Subscript) and isinstance(wval.value, ast.Call) and call_name(wval.value) == "self.wait_for":
        wc = wval.value
        kw = {k.arg: norm(k.value) for k in wc.keywords}
        size = norm(wc.args[0]) if wc.args else kw.get(ps, "1")
        flag = norm(wc.args[1]) if len(wc.args) > 1 else kw.get(pp)
        ok = norm(wval.slice) == "0" and size == "1" and flag == wb.node.args.args[1].arg
    ctx.ob(rule, wb.qualname, ok, "wait_for_byte is byte 0 of wait_for(1, peek)" if ok else f"wait_for_byte returns `{norm(wrets[0].value) if wrets else None}`, not the first byte of wait_for(1, peek)", key="first-byte", where=wb.where)
    rcv = repo.method("Protocol", "_on_connection_data_received", inherited=False)
    ctx.touch(rcv)
    cfg = cfg_of(rcv.node)
    ap = [n for n in cfg.real_nodes() if any(c == "self._receive_buffer.append" for c in n.call_names())]
    tr = [n for n in cfg.real_nodes() if any(c == "self._thread.trigger_receiver" for c in n.call_names())]
    dp = rcv.node.args.args[1].arg
    ok = len(ap) == 1 and len(tr) == 1 and cfg.dominates(ap[0], tr[0]) and rules.expand(rcv.node, next(c for c in ap[0].calls if call_name(c) == "self._receive_buffer.append").args[0]) == f"{dp}['data']"
    ctx.ob(rule, rcv.qualname, ok, "received bytes are appended, then the receiver is triggered" if ok else "received bytes are not appended before the receiver is triggered (or not appended unchanged)", where=rcv.where)
    pd = repo.method("Protocol", "_process_data", inherited=False)
    names = [call_name(c) for c in calls_in(pd.node)]
    ok = "self._process_received_data" in names
    ctx.ob(rule, pd.qualname, ok, "every receiver wake-up runs the framing loop" if ok else "_process_data does not call _process_received_data", where=pd.where)
    init = repo.method("Protocol", "__init__", inherited=False)
    disp = [c for c in calls_in(init.node) if call_name(c) == "ProtocolDispatcher"]
    ok = len(disp) == 1 and [norm(a) for a in disp[0].args[:2]] == ["self._process_data", "self._dispatch_block"]
    ctx.ob(rule, init.qualname, ok, "the dispatcher is wired to _process_data (receiver) and _dispatch_block (dispatcher)" if ok else f"ProtocolDispatcher is wired with {[norm(a) for a in disp[0].args] if disp else None}", where=init.where)
    conn = repo.method("Protocol", "_connection", inherited=False)
    from .. import inline

    reg = {norm(c.func): norm(c.args[0]) for c in calls_in(inline.expanded(ctx, conn)) if isinstance(c.func, ast.Attribute) and c.func.attr == "register" and c.args}
    ok = any(k.endswith("on_data.register") and v == "self._on_connection_data_received" for k, v in reg.items())
    ctx.ob(rule, conn.qualname, ok, "the protocol listens to the connection's on_data" if ok else "on_data is not wired to _on_connection_data_received", where=conn.where)


def run(ctx):
    # frames are written completely: the packets handed to the connection partition the encoded block (rules shared with C10.P3)
    from .. import report
    from .c10 import check_process_send_queue

    report.share(ctx, "C04.W1", check_process_send_queue)
    check_header(ctx)
    check_subclasses(ctx)
    _block.check_block_encode(ctx, "C04.B2")
    _block.check_block_decode(ctx, "C04.B2", with_checksum=False)
    check_framing(ctx)
    check_byte_queue(ctx)
    # wait predicate loop / append-notify (shared with C09.W1) and thread wake-up discipline
    check_bytequeue_wait(ctx, "C04.W1")
    from . import c05

    c05.shared(ctx, "C04.W1")  # a lost link leaves no partial frame in the buffer (it would be merged into the next connection's stream)
    # frames that share a TCP segment are handled one after the other on the dispatcher thread: a control frame changes the
    # session state in its own handler, before the next frame of the segment is judged (C05.P1)
    from .. import report

    report.share(ctx, "C04.W1", c05.check_control, only={"C05.P1"})
    check_dispatcher(ctx, "C04.W1", wakeups=True, consumers=True, reconnect=True)
    # ... and the one consumer hands each message on itself: a thread per message lets later frames overtake earlier ones
    # (the no-spawn rule of C06.P2, for the HSMS side)
    from . import c06

    sub = type(ctx)(ctx.prop, ctx.tier, ctx.seed, ctx.repo)
    try:
        c06.check_routing(sub)
    except AnalysisError:
        pass  # the routing rules themselves are C06's; only the spawn obligation is claimed here
    kept = [o for o in sub.obligations if o["key"] == "no-spawn" and o["construct"].startswith("HsmsProtocol")]
    ctx.require(len(kept) == 1, "C04.W1: the no-spawn obligation of HsmsProtocol._on_connection_message_received was not produced")
    for o in kept:
        o = dict(o)
        o["rule"] = "C04.W1"
        ctx.obligations.append(o)
    # "none duplicated": a received message is handed either to the waiting requester or to the listeners, never both (C06.P2)
    from . import c06

    report.share(ctx, "C04.W1", c06.check_routing)
