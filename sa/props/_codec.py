"""Summaries of codec functions (sa.summary) and the comparisons the item-codec rules make on them."""

from __future__ import annotations

from .. import normal, summary
from ..summary import Seq, Term

H0 = "self.decode_item_header(data, start)[0]"  # cursor after the item header
H2 = "self.decode_item_header(data, start)[2]"  # length field of the item header


def paths_of(ctx, finfo, params=None, keep=()):
    """Canonical paths of a method (helpers inlined, aliases replaced); Unsupported -> ANALYSIS-ERROR by the caller."""
    fn = normal.normalised(ctx, finfo, keep=keep, comps=False, ifexp=False)
    return summary.summarise(fn, params, module_literals(ctx.repo, finfo, fn), seq_names=_seq_names(ctx.repo, finfo, fn))


def _seq_names(repo, finfo, fn):
    """Parameters annotated as sequences plus the attributes that hold a sequence in every object of the function's class."""
    names = set(summary.sequence_parameters(fn)) | set(summary.sequence_parameters(finfo.node))
    if finfo.cls is not None and hasattr(repo, "class_seq_attrs"):
        names |= repo.class_seq_attrs(finfo.cls)
    return names


def module_literals(repo, finfo, fn) -> dict:
    """Module-level list/tuple literals the function reads by name (`_ITEM_TYPES = [...]`): {name: expression}."""
    import ast as _ast

    bound = {a.arg for a in fn.args.args + fn.args.kwonlyargs} | {n.id for n in _ast.walk(fn) if isinstance(n, _ast.Name) and isinstance(n.ctx, _ast.Store)}
    out = {}
    for n in _ast.walk(fn):
        if isinstance(n, _ast.Name) and isinstance(n.ctx, _ast.Load) and n.id not in bound and n.id not in out:
            target = repo.resolve(finfo.module, n.id)
            if isinstance(target, (_ast.List, _ast.Tuple)) and all(isinstance(e, (_ast.Name, _ast.Constant, _ast.Attribute)) for e in target.elts):
                out[n.id] = target
    return out


def decode_params():
    return {"data": Term("data", "bytes")}


def returns(paths):
    return [p for p in paths if p.kind == "return"]


def raises(paths):
    return [p for p in paths if p.kind == "raise"]


def calls(paths, prefix):
    """Texts of call effects starting with prefix, over all paths (with the loop/branch context of each)."""
    out = []
    for p in paths:
        for e, inside in summary.flat_effects(p.effects):
            if e[0] == "call" and e[1].startswith(prefix):
                out.append((p, e[1], inside))
    return out


def conditional_raises(paths):
    """[(path, exception, context)] for raises recorded as effects (inside loops / merged branches) and raising paths."""
    out = []
    for p in paths:
        for e, inside in summary.flat_effects(p.effects):
            if e[0] == "raise":
                out.append((p, e[1], inside))
        if p.kind == "raise":
            out.append((p, p.value, ()))
    return out


def show(paths) -> str:
    return summary.describe(paths)


# ----------------------------------------------------------------------------------------------- agreement with a reference model
import ast  # noqa: E402

LOST = ("@maybe", "@it", "@cur", "@try")


IGNORE: list = []  # call-text prefixes left out of the comparison by the current agree() call (bookkeeping such as source locations)


def _relevant(effects):
    """Effects that are part of the codec's contract: stores into the object, mutator calls on it, raises, deletes."""
    out = []
    for e in effects:
        if e[0] == "rep":
            inner = _relevant(e[2])
            if inner:
                out.append(("rep", e[1], tuple(inner)))
        elif e[0] == "if":
            a, b = _relevant(e[2]), _relevant(e[3])
            if a or b:
                out.append(("if", e[1], tuple(a), tuple(b)))
        elif e[0] in ("store", "raise", "del", "return", "with", "set"):  # "endwith": when the lock is released relative to a return is immaterial
            out.append(e)
        elif e[0] == "maybe":
            inner = _relevant(e[1])
            if inner:
                out.append(("maybe", tuple(inner)))
        elif e[0] == "call" and not e[1].startswith(("self.logger.", "self._logger.", "logging.", "logger.", "print(", "warnings.")) and not e[1].startswith(tuple(IGNORE)):
            out.append(e)
    return out


def signature(paths):
    """{component: sorted texts}: what is returned, what is stored/called on the object, what is refused.

    Each component is a case table: the path conditions are expanded to complete assignments of the boolean atoms that
    occur (minterms), so `if a and b: X else: Y` and `if not a: Y elif b: X else: Y` give the same table.  Integer
    interval atoms (already canonical, see summary._intervals) stay part of the case key."""
    rows = {"returns": [], "stores": [], "raises": []}
    for p in paths:
        rel = _relevant(p.effects)
        early = _project(rel, lambda e: e[0] == "return")
        stores = _project(rel, lambda e: e[0] not in ("return", "raise"))
        rs = _project(rel, lambda e: e[0] == "raise")
        if p.kind == "return":
            value = f"{p.value}"
            loop = _quantifier_loop(value)
            if loop is not None:
                early, value = list(early) + [loop[0]], loop[1]
            rows["returns"].append((p.conds, (canon_effects(early) + " ; then " if early else "") + value))
        elif p.kind == "raise":
            rows["raises"].append((p.conds, f"raise {p.value}"))
        if stores:
            rows["stores"].append((p.conds, canon_effects(stores)))
        if rs:
            rows["raises"].append((p.conds, canon_effects(rs)))
    return {k: _case_table(v) for k, v in rows.items()}


def _quantifier_loop(value: str):
    """`all(E for v in IT)` as a returned value is the loop `for v in IT: if not E: return False` followed by True (any:
    dual) - the form in which a search loop with an early return is summarised.  (loop effect, final value) or None."""
    for name, hit, miss in (("all", "False", "True"), ("any", "True", "False")):
        pre = name + "([rep("
        if not (value.startswith(pre) and value.endswith(")])")):
            continue
        inner = value[len(pre):-3]
        depth, cut = 0, None
        for i, ch in enumerate(inner):
            if ch in "([{":
                depth += 1
            elif ch in ")]}":
                depth -= 1
                if depth < 0:
                    return None
            elif ch == "," and depth == 0 and inner[i:i + 2] == ", ":
                cut = i
                break
        if cut is None:
            return None
        header, elem = inner[:cut], inner[cut + 2:]
        if "rep(" in elem or "if(" in elem:
            return None
        negated = elem.startswith("not (") and elem.endswith(")") and " and " in elem
        cond = elem[5:-1] if negated else elem
        stop = (("return", hit),)
        # all: leave with False when E fails; any: leave with True when E holds
        fails_first = (name == "all") != negated
        node = ("if", cond, (), stop) if fails_first else ("if", cond, stop, ())
        return ("rep", header, (node,)), miss
    return None


def _cond_atoms(ctext: str):
    """[(atom, polarity, members or None)] of a condition text `a and not b and not ALL[+c;-d]`."""
    out = []
    for part in _split_and(ctext):
        pol = True
        if part.startswith("not "):
            part, pol = part[4:], False
        out.append((part, pol, _members(part) if part.startswith("ALL[") else None))
    return out


def _holds(ctext: str, asg: dict) -> bool:
    for atom, pol, members in _cond_atoms(ctext):
        val = all(asg[m] == want for m, want in members) if members is not None else asg[atom]
        if val != pol:
            return False
    return True


def canon_effects(effects) -> str:
    """Canonical text of an effect list: the branches at this level are replaced by a case table over their atoms (so the
    nesting, order and merging of the tests do not matter), loops recursively."""
    universe = set()

    def collect(es):
        for e in es:
            if e[0] == "if":
                for atom, _, members in _cond_atoms(e[1]):
                    universe.update(m for m, _ in members) if members is not None else universe.add(atom)
                collect(e[2])
                collect(e[3])

    collect(effects)

    def flat(es, asg):
        out = []
        for e in es:
            if e[0] == "if":
                out.extend(flat(e[2] if _holds(e[1], asg) else e[3], asg))
            elif e[0] == "rep":
                out.append(f"rep({e[1]}: {canon_effects(e[2])})")
            elif e[0] == "maybe":
                out.append(f"maybe({canon_effects(e[1])})")
            else:
                out.append(" ".join(str(x) for x in e))
        # adjacent stores of plain values (no call, no read of an attribute stored in the same run) into different
        # attributes are independent: their order is not behaviour
        res, run = [], []

        def flush():
            targets = [r.split(" ", 2)[1] for r in run]
            independent = len(set(targets)) == len(targets) and not any(t in r.split(" ", 2)[2] for t in targets for r in run if len(r.split(" ", 2)) > 2)
            res.extend(sorted(run) if independent else run)
            run.clear()

        for item in out:
            parts = item.split(" ", 2)
            if parts[0] == "store" and len(parts) == 3 and "(" not in parts[2] and "[" not in parts[1]:
                run.append(item)
            else:
                flush()
                res.append(item)
        flush()
        return res

    if not universe:
        return "; ".join(flat(effects, {}))
    atoms = sorted(universe)
    if len(atoms) > 8:
        return summary.show_effects(effects)
    import itertools

    implied = _isinstance_implications(atoms)
    outcome_of = {}
    for values in itertools.product((True, False), repeat=len(atoms)):
        asg = dict(zip(atoms, values))
        if any(asg[a] and not asg[b] for a, b in implied):
            continue  # no object is an instance of the subclass and not of its base
        outcome_of[values] = "; ".join(flat(effects, asg))
    # an atom the outcome does not depend on (whatever the other atoms are, every possible value of it leads to the same
    # effects) is not part of the table: `if A: x elif B: x` and `if A or B: x` name different tests for one behaviour
    keep = list(range(len(atoms)))
    for i in range(len(atoms)):
        rest = [j for j in keep if j != i]
        groups = {}
        for values, outcome in outcome_of.items():
            groups.setdefault(tuple(values[j] for j in rest), set()).add(outcome)
        if i in keep and all(len(g) == 1 for g in groups.values()):
            keep = rest
    if len(keep) < len(atoms):
        outcome_of = {tuple(values[j] for j in keep): outcome for values, outcome in outcome_of.items()}
        atoms = [atoms[j] for j in keep]
    if not atoms:
        return next(iter(outcome_of.values()))
    rows = {}
    for values, outcome in outcome_of.items():
        rows.setdefault(outcome, []).append(values)
    # print the table grouped by outcome: outcome <- the assignments that lead to it
    parts = []
    for outcome, vals in sorted(rows.items()):
        keys = sorted(",".join(("" if v else "!") + a for a, v in zip(atoms, vs)) for vs in vals)
        parts.append("{" + " | ".join(keys) + "} -> [" + outcome + "]")
    return "cases(" + " ;; ".join(parts) + ")"


def _is_int_atom(t: str) -> bool:
    import re

    return bool(re.match(r"^.* (<|==) -?\d+$", t)) and not t.startswith("ALL[")


def _members(t: str):
    """Signed members of a compound atom ALL[+a;-b]."""
    inner = t[4:-1]
    out, depth, cur = [], 0, ""
    for ch in inner:
        if ch in "([{":
            depth += 1
        elif ch in ")]}":
            depth -= 1
        if ch == ";" and depth == 0:
            out.append(cur)
            cur = ""
        else:
            cur += ch
    if cur:
        out.append(cur)
    return [(m[1:], m[0] == "+") for m in out]


SUBCLASS: set = {("bool", "int")}  # (sub, base) short class names; set per run by report.Ctx from the parsed class hierarchy


def _isinstance_implications(universe):
    """[(atom_sub, atom_base)]: atom_sub true forces atom_base true (same object, class of atom_sub derives from the other)."""
    import re as _re

    parsed = {}
    for a in universe:
        m = _re.match(r"^isinstance\((.+), ([A-Za-z_][\w.]*)\)$", a)
        if m:
            parsed[a] = (m.group(1), m.group(2).split(".")[-1])
    return [(a, b) for a, (oa, ca) in parsed.items() for b, (ob, cb) in parsed.items() if a != b and oa == ob and (ca, cb) in SUBCLASS]


def _truth_tables(universe, rows):
    """Larger universes: per outcome, the set of assignments that lead to it, as one bit vector over all 2^n assignments
    (bit-parallel evaluation); printed as a digest, since 2^n rows are of no use to a reader."""
    import hashlib

    n = len(universe)
    size = 1 << n
    full = (1 << size) - 1
    masks = {}
    for i, a in enumerate(universe):
        # assignments (numbered 0..2^n-1) in which atom i is true: bit i of the assignment number is set
        block = ((1 << (1 << i)) - 1) << (1 << i)  # 2^i zeros then 2^i ones
        period = 1 << (i + 1)
        m = 0
        for k in range(size // period):
            m |= block << (k * period)
        masks[a] = m
    feasible = full
    for a, b in _isinstance_implications(universe):
        feasible &= full & ~(masks[a] & ~masks[b])
    per = {}
    for conds, out in rows:
        sat = feasible
        for t, pol in conds:
            if t.startswith("ALL["):
                allv = full
                for mname, want in _members(t):
                    allv &= masks[mname] if want else (full & ~masks[mname])
                sat &= allv if pol else (full & ~allv)
            else:
                sat &= masks[t] if pol else (full & ~masks[t])
        per[out] = per.get(out, 0) | sat
    table = []
    for out, sat in per.items():
        if sat:
            digest = hashlib.sha1(sat.to_bytes(size // 8 + 1, "little")).hexdigest()[:12]
            table.append(f"[truth table {digest} over {', '.join(universe)}: {bin(sat).count('1')} of {size} cases] {out}")
    return sorted(table)


def _case_table(rows):
    import itertools

    universe = set()
    for conds, _ in rows:
        for t, pol in conds:
            if t.startswith("ALL["):
                universe |= {m for m, _ in _members(t)}
            else:
                universe.add(t)
    universe = sorted(universe)
    if 10 < len(universe) <= 18:
        return _truth_tables(universe, rows)
    if len(universe) > 18:
        return sorted("[" + " and ".join(("" if pol else "not ") + t for t, pol in conds) + "] " + out for conds, out in rows)
    table = set()
    implied = _isinstance_implications(universe)
    for values in itertools.product((True, False), repeat=len(universe)):
        asg = dict(zip(universe, values))
        if any(asg[a] and not asg[b] for a, b in implied):
            continue  # no object is an instance of the subclass and not of its base
        for conds, out in rows:
            ok = True
            ints = []
            for t, pol in conds:
                if t.startswith("ALL["):
                    mem = _members(t)
                    allv = all(asg[m] == want for m, want in mem)
                    if allv != pol:
                        ok = False
                        break
                elif asg[t] != pol:
                    ok = False
                    break
            if ok:
                key = ", ".join(("" if v else "not ") + a for a, v in asg.items()) or "always"
                if ints:
                    key += " | " + " and ".join(("" if pol else "not ") + t for t, pol in sorted(ints))
                table.add(f"[{key}] {out}")
    return sorted(table)


def _project(effects, pred):
    """The effect tree restricted to the primitive effects that satisfy pred (loops and branches kept where non-empty)."""
    out = []
    for e in effects:
        if e[0] == "rep":
            inner = _project(e[2], pred)
            if inner:
                out.append(("rep", e[1], tuple(inner)))
        elif e[0] == "if":
            a, b = _project(e[2], pred), _project(e[3], pred)
            if a or b:
                node = ("if", e[1], tuple(a), tuple(b))
                # `if A: if B: X` (nothing else under A) is `if A and B: X`
                while not node[3] and len(node[2]) == 1 and node[2][0][0] == "if" and not node[2][0][3] and not node[1].startswith("not ALL[") and not node[2][0][1].startswith("not ALL["):
                    inner = node[2][0]
                    node = ("if", " and ".join(sorted(set(_split_and(node[1])) | set(_split_and(inner[1])))), inner[2], ())
                out.append(node)
        elif e[0] == "maybe":
            inner = _project(e[1], pred)
            if inner:
                out.append(("maybe", tuple(inner)))
        elif pred(e):
            out.append(e)
    return out


def _split_and(text: str):
    """Top-level conjuncts of a condition text."""
    parts, depth, cur, i, quote = [], 0, "", 0, None
    while i < len(text):
        ch = text[i]
        if quote:
            cur += ch
            if ch == quote and text[i - 1] != "\\":
                quote = None
        elif ch in "'\"":
            quote = ch
            cur += ch
        elif ch in "([{":
            depth += 1
            cur += ch
        elif ch in ")]}":
            depth -= 1
            cur += ch
        elif depth == 0 and text.startswith(" and ", i):
            parts.append(cur)
            cur = ""
            i += 5
            continue
        else:
            cur += ch
        i += 1
    parts.append(cur)
    return parts


def _only(e, kind) -> bool:
    if e[0] == kind:
        return True
    if e[0] == "rep":
        return bool(e[2]) and all(_only(x, kind) for x in e[2])
    if e[0] == "if":
        return bool(e[2] + e[3]) and all(_only(x, kind) for x in e[2] + e[3])
    return False


def _only_raises(e) -> bool:
    return _only(e, "raise")


def _defaults(fn) -> dict:
    """{parameter name: source text of its default} for the parameters that have one."""
    from ..model import norm

    pos = fn.args.args
    out = {a.arg: norm(d) for a, d in zip(pos[len(pos) - len(fn.args.defaults):], fn.args.defaults)}
    out.update({a.arg: norm(d) for a, d in zip(fn.args.kwonlyargs, fn.args.kw_defaults) if d is not None})
    return out


def reference_paths(source: str, params=None, like=None, repo=None):
    """Paths of a reference model; with `like` (the implementation's FuncInfo) its calls are put into the same positional
    spelling as the parsed repository (sa.callnorm), in the implementation's class/module context."""
    fn = ast.parse(source.strip("\n")).body[0]
    normal._tail_pass(fn)
    normal._allany_pass(fn)
    normal._dict_merge_pass(fn)
    normal._redundant_guard_pass(fn)
    normal._unroll_pass(fn)
    normal._while_true_pass(fn)
    normal._nested_if_pass(fn)
    if like is not None and repo is not None:
        from .. import callnorm

        callnorm.canonicalise(repo, ("function", fn, like.module, like.cls))
    seq = _seq_names(repo, like, like.node) if like is not None and repo is not None else (summary.sequence_parameters(like.node) if like is not None else None)  # the model text carries no annotations: the implementation's apply
    return summary.summarise(fn, params, module_literals(repo, like, fn) if like is not None and repo is not None else None, seq_names=seq)


def vanished_helpers(finfo, keep, reference: str = "") -> set:
    """Helpers the reviewed model calls and keeps as calls that the implementation's class no longer has (inlined into
    their caller)."""
    if finfo.cls is None:
        return set()
    called = {c.func.attr for c in ast.walk(ast.parse(reference.strip("\n"))) if isinstance(c, ast.Call) and isinstance(c.func, ast.Attribute)} if reference else set(keep)
    return {k for k in keep if k in called and finfo.cls.find_method(k) is None}


def reference_paths_inlined(ctx, finfo, reference: str, params, keep, vanished):
    """Paths of the reference model with the models of the vanished helpers inlined: the model texts are spliced into the
    implementation's class in an in-memory variant of the tree and summarised exactly like the implementation."""
    import os as _os
    import textwrap

    from .. import model as _model, refmodels

    cls = finfo.cls
    mod = finfo.module
    lines = mod.source.split("\n")
    node = finfo.node
    start = min([node.lineno] + [d.lineno for d in node.decorator_list]) - 1
    indent = " " * node.col_offset

    def block(text, decorate=False):
        fn = ast.parse(text.strip("\n")).body[0]
        first = fn.args.args[0].arg if fn.args.args else None
        deco = "" if not decorate or first == "self" else ("@classmethod\n" if first == "cls" else "@staticmethod\n")
        return textwrap.indent(deco + text.strip("\n") + "\n", indent).split("\n")

    new_lines = lines[:start] + [indent + d for d in []]
    decos = lines[start:node.lineno - 1]
    body = decos + block(reference)
    for k in sorted(vanished):
        path = _os.path.join(refmodels.DIR, f"{cls.name}.{k}.py")
        if not _os.path.exists(path):
            raise KeyError(k)
        with open(path, encoding="utf-8") as handle:
            body += [""] + block(handle.read(), decorate=True)
    new_lines = lines[:start] + body + lines[node.end_lineno:]
    rel = _os.path.relpath(mod.path, ctx.repo.root)
    overrides = dict(getattr(ctx.repo, "_overrides", {}) or {})
    overrides[rel] = "\n".join(new_lines)
    ref_repo = _model.Repo(ctx.repo.root, overrides=overrides, share=ctx.repo)
    ref_f = ref_repo.method(cls.name, finfo.name, inherited=False)
    fn, _ = normal.normalise(ref_repo, ref_f, keep=set(keep) - set(vanished), comps=False, ifexp=False)
    return summary.summarise(fn, params, module_literals(ref_repo, ref_f, fn), seq_names=_seq_names(ref_repo, ref_f, fn))


def agree(ctx, rule, finfo, reference: str, what: dict, params=None, keep=(), key_prefix="", only_cases=None, ignore=()):
    """One obligation per component: the summary of the implementation equals the summary of the reference model.

    what: {component: sentence}.  A found summary that contains lost-precision markers where the reference has none is an
    unknown idiom (ANALYSIS-ERROR), not a verdict."""
    from ..model import AnalysisError

    IGNORE[:] = list(ignore)
    try:
        found = signature(paths_of(ctx, finfo, params, keep))
        want = signature(reference_paths(reference, params, like=finfo, repo=ctx.repo))
        gone = vanished_helpers(finfo, keep, reference)
        if gone and any(found[c] != want[c] for c in what):
            # a helper the model keeps as a call has been inlined into this function: inline its reviewed model as well
            try:
                want = signature(reference_paths_inlined(ctx, finfo, reference, params, keep, gone))
            except KeyError:
                pass
    finally:
        IGNORE[:] = []
    ctx.touch(finfo)
    # default values of the parameters are behaviour too (the summaries start from the parameters' names)
    try:
        ref_fn = ast.parse(reference.strip("\n")).body[0]
        want_defaults = _defaults(ref_fn)
        got_defaults = _defaults(finfo.node)
        shared_names = set(want_defaults) & set(got_defaults)
        bad = sorted(n for n in shared_names if want_defaults[n] != got_defaults[n]) + sorted(set(want_defaults) ^ set(got_defaults))
        ctx.ob(rule, finfo.qualname, not bad, "parameter defaults as in the reference model" if not bad else
               f"parameter defaults differ from the reference model: {[(n, got_defaults.get(n), want_defaults.get(n)) for n in bad]}", key=key_prefix + "defaults", where=finfo.where)
    except SyntaxError:
        pass
    if only_cases is not None:  # compare only the cases (rows of the case table) the property speaks about
        found = {k: [r for r in v if only_cases(r)] for k, v in found.items()}
        want = {k: [r for r in v if only_cases(r)] for k, v in want.items()}
    for comp, sentence in what.items():
        ok = found[comp] == want[comp]
        if not ok and any(m in t for t in found[comp] for m in LOST) and not any(m in t for t in want[comp] for m in LOST):
            raise AnalysisError(f"{finfo.qualname}: the {comp} of this spelling could not be summarised precisely ({found[comp]}) - unknown idiom")
        ctx.ob(rule, finfo.qualname, ok, sentence if ok else f"{comp} differ from the reference model of this codec: found {found[comp]}; the model gives {want[comp]}", key=(key_prefix + comp), where=finfo.where)
    return found
