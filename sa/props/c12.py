"""C12 - event-report configuration stays consistent and transactional."""

from __future__ import annotations

import ast

from ..cfg import cfg_of
from ..model import AnalysisError, call_name, calls_in, dotted, norm, walk_no_nested
from .. import normal, rules
from .. import conds as cnd

META = {
    "explanation": "Dominance and write-set rules on CollectionEventCapability._on_s02f33/_on_s02f35 (every mutation of the report / "
    "link tables is control-dependent on acknowledge 0 decided after the complete pre-check pass, which itself writes "
    "nothing), referential-integrity rules between the report table and the links' report lists (a deleted report is "
    "removed from every link completely, links left empty are deleted, delete-all clears both tables), acknowledge-code "
    "table, and in-order one-per-link report building for S6F15 / triggered events, only for registered and enabled links.",
    "decides": [
        "C12.P1 refused => unchanged: table mutations of S2F33/S2F35 are dominated by ack == 0 after the pre-check; the pre-check writes nothing; the reply carries the pre-check result",
        "C12.R1 referential integrity: deleting a report removes every occurrence from every link (loop-until-absent or rebuild), empty links are deleted, the report entry is deleted; delete-all clears links and reports; S2F35 with an empty report list deletes the link",
        "C12.R2 _build_collection_event indexes the report table only with ids taken from links (safe given R1)",
        "C12.T1 acknowledge codes: condition -> DRACK/LRACK/ERACK constant -> E5 value",
        "C12.P2 S6F15 and triggered events build reports only for registered and enabled links, one report per linked id in link order; empty S2F37 list means all links",
    ],
    "does_not_decide": ["equality of report values with the variables' current values (C13.P4 covers the getters)", "E5 semantics of duplicate ids beyond integrity"],
    "assumptions": ["StreamsFunctions.decode returns the request as sent (C03)"],
}

TABLES = ("self._registered_reports", "self._registered_collection_events")


def _mutations(cfg):
    """CFG nodes that mutate the report/link tables or a link's report list."""
    out = []
    for n in cfg.real_nodes():
        a = n.ast
        hit = None
        if isinstance(a, ast.Delete):
            for t in a.targets:
                if any(norm(t).startswith(tb) for tb in TABLES):
                    hit = "del " + norm(t)
        elif isinstance(a, (ast.Assign, ast.AugAssign)):
            for t in rules.assigned_targets(a):
                if isinstance(t, ast.Subscript) and any(norm(t.value) == tb for tb in TABLES):
                    hit = "store " + norm(t)
                if isinstance(t, ast.Attribute) and t.attr in ("reports", "_reports", "enabled") and False:
                    hit = "store " + norm(t)
        for c in n.calls:
            if isinstance(c.func, ast.Attribute) and c.func.attr in ("clear", "pop", "popitem", "update", "setdefault", "remove", "append", "extend", "insert"):
                recv = norm(c.func.value)
                if any(recv == tb for tb in TABLES) or recv.endswith(".reports") or recv.endswith("._reports"):
                    hit = f"{recv}.{c.func.attr}()"
        if hit:
            out.append((n, hit))
    return out


def _ack_var_and_guard(ctx, f, cfg, sec):
    """(ack variable, marker node from which application starts) for a handler that replies stream_function(2, sec)(ack)."""
    ackvar = None
    for n in cfg.real_nodes():
        for c in n.calls:
            if isinstance(c.func, ast.Call) and (call_name(c.func) or "").endswith("stream_function") and [norm(a) for a in c.func.args] == ["2", str(sec)] and c.args:
                ackvar = norm(c.args[0])
    ctx.require(ackvar is not None, f"{f.qualname}: reply S2F{sec}(ack) not found")
    return ackvar


def check_transactional(ctx):
    repo = ctx.repo
    for mname, sec in (("_on_s02f33", 34), ("_on_s02f35", 36)):
        f = repo.method("CollectionEventCapability", mname, inherited=False)
        ctx.touch(f)
        q = f.qualname
        cfg = cfg_of(f.node)
        ack = _ack_var_and_guard(ctx, f, cfg, sec)
        muts = _mutations(cfg)
        ctx.require(len(muts) >= 2, f"{q}: fewer than two table mutations found")
        loops = [n for n in cfg.nodes if n.kind == "iter" and norm(n.ast.iter).endswith(".DATA")]
        if len(loops) == 1:
            L1 = loops[0]
            body = rules.branch_marker(L1, "true")
            ack_in_loop = [n for n in cfg.real_nodes() if isinstance(n.ast, ast.Assign) and norm(n.ast.targets[0]) == ack and cfg.path_exists(body, n, avoid=[L1])]
            muts_in_loop = [(n, h) for n, h in muts if cfg.path_exists(body, n, avoid=[L1])]
            if ack_in_loop and muts_in_loop:
                ctx.ob("C12.P1", q, False, f"one pass over the request both checks an entry and applies it (`{muts_in_loop[0][1]}`): the entries in front of a faulty one are already applied when the request "
                       "is refused with a non-zero acknowledge", key="check-complete", where=f.where)
                continue
        ctx.require(len(loops) >= 2, f"{q}: pre-check and apply passes over function.DATA not found")
        pre = loops[0]
        pre_done = rules.branch_marker(pre, "false")
        def zero_test(t):
            """'true' / 'false': the branch of test t on which the acknowledge is 0; None if t is no such test."""
            atoms = cnd.canon(t, True)
            if len(atoms) != 1:
                return None
            (text_, pol), = atoms
            if text_ == f"{ack} == 0":
                return "true" if pol else "false"
            if text_ == ack:
                return "false" if pol else "true"
            return None

        guards = [n for n in cfg.nodes if n.kind == "test" and zero_test(n.ast) is not None]
        ctx.require(len(guards) >= 1, f"{q}: no test of {ack} against 0")
        G = guards[0]
        ok_label = zero_test(G.ast)
        okm = rules.branch_marker(G, ok_label)
        bad = [(n, h) for n, h in muts if not cfg.dominates(okm, n)]
        ctx.ob("C12.P1", q, not bad, "every change of the report/link tables is dominated by acknowledge 0" if not bad else
               f"`{bad[0][1]}` can run although the request is refused with a non-zero acknowledge: a refused request changes the configuration", key="guarded", where=f.where)
        ok = cfg.dominates(pre_done, G)
        ctx.ob("C12.P1", q, ok, "the acknowledge is tested only after the complete pre-check pass" if ok else "the acknowledge is tested before the pre-check pass has seen the whole request", key="check-complete", where=f.where)
        inside_pre = [(n, h) for n, h in muts if cfg.path_exists(rules.branch_marker(pre, "true"), n, avoid=[pre])]
        ctx.ob("C12.P1", q, not inside_pre, "the pre-check pass changes nothing" if not inside_pre else f"the pre-check pass performs `{inside_pre[0][1]}`", key="precheck-pure", where=f.where)
        # ack only written in the pre-check (not reset afterwards)
        late = [n for n in cfg.real_nodes() if isinstance(n.ast, ast.Assign) and norm(n.ast.targets[0]) == ack and cfg.dominates(pre_done, n)]
        ctx.ob("C12.P1", q, not late, "the acknowledge is not rewritten after the pre-check" if not late else f"`{late[0].text()}` rewrites the acknowledge after the pre-check", key="ack-stable", where=f.where)
        rets = [n for n in cfg.real_nodes() if isinstance(n.ast, ast.Return)]
        vals = set()
        for r in rets:
            vals.add(rules.expand(f.node, r.ast.value))
        ok = len(vals) == 1 and next(iter(vals)).endswith(f"stream_function(2, {sec})({ack})")
        ctx.ob("C12.P1", q, ok, f"every return is S2F{sec} carrying the pre-check result" if ok else f"returns {sorted(vals)}", key="reply", where=f.where)


def check_ack_table(ctx):
    repo = ctx.repo
    e5 = {"DRACK": {"ACK": 0, "INSUFFICIENT_SPACE": 1, "INVALID_FORMAT": 2, "RPTID_REDEFINED": 3, "VID_UNKNOWN": 4},
          "LRACK": {"ACK": 0, "INSUFFICIENT_SPACE": 1, "INVALID_FORMAT": 2, "CEID_LINKED": 3, "CEID_UNKNOWN": 4, "RPTID_UNKNOWN": 5},
          "ERACK": {"ACCEPTED": 0, "CEID_UNKNOWN": 1}}
    for cname, table in e5.items():
        got = {k: v for k, v in repo.enum_members(cname).items() if k in table}
        ok = got == table
        ctx.ob("C12.T1", cname, ok, f"{cname} constants = E5 values" if ok else f"{cname} constants {got} differ from E5 {table}", where=repo.cls(cname).where)
    f = repo.method("CollectionEventCapability", "_on_s02f33", inherited=False)
    cfg = cfg_of(f.node)
    want = {"RPTID_REDEFINED": ["report.RPTID in self._registered_reports and len(report.VID) > 0"], "VID_UNKNOWN": ["vid not in self._data_values and vid not in self._status_variables"]}
    _cond_table(ctx, f, cfg, "drack", want)
    f = repo.method("CollectionEventCapability", "_on_s02f35", inherited=False)
    f35 = normal.normalised(ctx, f)
    cfg = cfg_of(f35)
    want = {"CEID_UNKNOWN": ["event.CEID.get() not in self._collection_events"], "CEID_LINKED": ["rptid.get() in collection_event.reports"], "RPTID_UNKNOWN": ["rptid.get() not in self._registered_reports"]}
    _cond_table(ctx, f, cfg, "lrack", want, node=f35)
    f = repo.method("CollectionEventCapability", "_on_s02f37", inherited=False)
    ctx.touch(f)
    cfg = cfg_of(f.node)
    errs = [n for n in cfg.real_nodes() if isinstance(n.ast, ast.Assign) and "ERACK.CEID_UNKNOWN" in norm(n.ast.value)]
    def result_facts(n):
        """Facts about the result of _set_ce_state at n, a local that holds the result spelled out."""
        out = set()
        for t, v in cfg.dominating_conditions(n):
            out |= cnd.canon(rules.expand_ast(f.node, t), v)
        return {(t, pol) for t, pol in out if t.startswith("self._set_ce_state(")}

    ok = len(errs) == 1 and any(not pol for _, pol in result_facts(errs[0]))
    accepts = [n for n in cfg.real_nodes() if isinstance(n.ast, ast.Assign) and "ERACK.ACCEPTED" in norm(n.ast.value)]
    ok = ok and bool(accepts) and not any(not pol for n in accepts for _, pol in result_facts(n))
    ctx.ob("C12.T1", f.qualname, ok, "S2F38 is CEID_UNKNOWN iff _set_ce_state reports an unknown CEID" if ok else "ERACK is not derived from _set_ce_state's result", where=f.where)
    c = [c for c in calls_in(f.node) if call_name(c) == "self._set_ce_state"]
    got = [rules.expand(f.node, a) for a in c[0].args] if c else None
    dec = [norm(s.value) for s in rules.func_stmts(f.node) if isinstance(s, ast.Assign) and isinstance(s.value, ast.Call) and (call_name(s.value) or "").endswith("streams_functions.decode")]
    ok = len(c) == 1 and len(dec) == 1 and got == [f"{dec[0]}.CEED.get()", f"{dec[0]}.CEID.get()"]
    ctx.ob("C12.T1", f.qualname, ok, "CEED and the CEID list of the request are applied" if ok else f"_set_ce_state is called with {got}", key="args", where=f.where)


MENTIONS = {
    "RPTID_REDEFINED": (["self._registered_reports"], "in"),
    "VID_UNKNOWN": (["self._data_values", "self._status_variables"], "not in"),
    "CEID_UNKNOWN": (["self._collection_events"], "not in"),
    "CEID_LINKED": ([".reports"], "in"),
    "RPTID_UNKNOWN": (["self._registered_reports"], "not in"),
}


def _cond_table(ctx, f, cfg, ack, want, node=None):
    """Refusal rules of one pre-check pass: every refusing test is evaluated for every entry (unless the path
    already refuses), the verdict is monotone (never reset to 0), each constant is guarded by a membership test on the
    right table."""
    ctx.touch(f)
    fnode = node if node is not None else f.node
    loops = [n for n in cfg.nodes if n.kind == "iter" and norm(n.ast.iter).endswith(".DATA")]
    pre = loops[0]
    body = rules.branch_marker(pre, "true")
    inside = [n for n in cfg.real_nodes() if cfg.path_exists(body, n, avoid=[pre])]
    assigns = [n for n in inside if isinstance(n.ast, (ast.Assign, ast.AugAssign)) and any(norm(t) == ack for t in rules.assigned_targets(n.ast))]
    consts = {}
    for n in assigns:
        v = n.ast.value
        txt = norm(v)
        name = txt.split(".")[-1]
        if isinstance(v, ast.Attribute) and name in MENTIONS:
            consts.setdefault(name, []).append(n)
        else:
            ctx.ob("C12.T1", f.qualname, False, f"`{n.text()}` can replace a refusal decided for an earlier entry of the same request (the verdict must only move away from ACK inside the pre-check): a request containing an invalid entry is acknowledged with 0 and applied", key="monotone " + n.text(), where=f.where)
    ctx.ob("C12.T1", f.qualname, all(len(v) >= 1 for v in consts.values()) and bool(consts), "the pre-check only ever sets the acknowledge to an error constant", key="monotone", where=f.where)
    for const in want:
        nodes = consts.get(const, [])
        ok = bool(nodes)
        ctx.ob("C12.T1", f.qualname, ok, f"{const} can be reported" if ok else f"{const} is never reported by the pre-check", key="has " + const, where=f.where)
        for n in nodes:
            tables, polarity = MENTIONS[const]
            conds = cfg.dominating_conditions(n)
            expanded = [(rules.expand(fnode, t), v) for t, v in conds]
            # canonical membership atoms of the (expanded) tests that dominate the assignment: `x in T` with a polarity,
            # whatever the spelling; a false conjunction / true disjunction decides nothing about one membership
            atoms = set()
            for t, v in conds:
                for atom, pol in cnd.canon(rules.expand_ast(fnode, t), v):
                    if not atom.startswith("ALL[") and " in " in atom:
                        atoms.add((atom, pol))
            hit = all(any(tb in a_txt and ("in" if a_pol else "not in") == polarity for a_txt, a_pol in atoms) for tb in tables)
            ctx.ob("C12.T1", f.qualname, hit, f"{const} is reported when the id is {polarity} {' / '.join(tables)}" if hit else
                   f"{const} is reported under {[(t, v) for t, v in expanded]}, which is not the test `id {polarity} {' / '.join(tables)}`", key="cond " + const, where=f.where)
            # the guarding test is evaluated for every entry unless the path refuses anyway
            tests = [x for x in cfg.nodes if x.kind == "test" and any(x.ast is t for t, _ in conds) and all(tb in rules.expand(fnode, x.ast) for tb in tables)]
            if not tests:
                continue
            T = tests[-1]
            inner_loops = [l for l in cfg.nodes if l.kind == "iter" and cfg.path_exists(rules.branch_marker(l, "true"), T, avoid=[l])]
            L = inner_loops[-1] if inner_loops else pre
            start = rules.branch_marker(L, "true")
            # a test nested under a precondition of its own operands (e.g. "the link exists" for "already linked")
            # is legitimately skipped when the precondition fails
            import re as _re

            support = set(_re.findall(r"self\._[a-z_]+", rules.expand(fnode, T.ast)))
            allowed = []
            for t, v in cfg.dominating_conditions(T):
                tn = next((x for x in cfg.nodes if x.kind == "test" and x.ast is t), None)
                if tn is None or tn is T or not cfg.path_exists(start, tn, avoid=[L]):
                    continue
                mentioned = set(_re.findall(r"self\._[a-z_]+", rules.expand(fnode, t)))
                if mentioned and mentioned <= support:
                    allowed.append(rules.branch_marker(tn, "false" if v else "true"))
            skip = cfg.path_exists(start, L, avoid=[T] + assigns + allowed)
            ctx.ob("C12.T1", f.qualname, not skip, f"the {const} test is evaluated for every entry (or the entry is refused on another ground)" if not skip else
                   f"the test for {const} (`{norm(T.ast)}`) is skipped on some path through an entry that is not refused otherwise (e.g. it became the elif of an unrelated test): an invalid id is acknowledged with 0 and stored",
                   key="always-tested " + const, where=f.where)


def check_integrity(ctx):
    repo = ctx.repo
    f = repo.method("CollectionEventCapability", "_on_s02f33", inherited=False)
    ctx.touch(f)
    q = f.qualname
    from .. import inline

    cfg = cfg_of(inline.expanded(ctx, f))  # the removal block may sit in a private helper
    # delete-all
    clears = {norm(c.func.value) for n in cfg.real_nodes() for c in n.calls if isinstance(c.func, ast.Attribute) and c.func.attr == "clear" and cnd.holds(cfg, n, "not function.DATA")}
    ok = clears == set(TABLES)
    ctx.ob("C12.R1", q, ok, "an empty S2F33 clears both the links and the reports" if ok else f"delete-all clears {sorted(clears)}: " + ("links to deleted reports remain" if "self._registered_collection_events" not in clears else "reports remain"), key="delete-all", where=f.where)
    # delete-one: removal from links
    removes = [(n, c) for n in cfg.real_nodes() for c in n.calls if isinstance(c.func, ast.Attribute) and c.func.attr == "remove" and norm(c.func.value).endswith(".reports")]
    rebuilds = [n for n in cfg.real_nodes() if isinstance(n.ast, ast.Assign) and norm(n.ast.targets[0]).endswith(".reports") and isinstance(n.ast.value, (ast.ListComp, ast.Call))]
    ctx.require(bool(removes) or bool(rebuilds), f"{q}: no removal of a deleted report from the links found")
    for n, c in removes:
        lst = norm(c.func.value)
        arg = norm(c.args[0])
        # complete removal: inside `while arg in lst`
        in_while = any(isinstance(t, ast.Compare) and norm(t) == f"{arg} in {lst}" and v and _is_while_test(cfg, t) for t, v in cfg.dominating_conditions(n))
        ctx.ob("C12.R1", q, in_while, "a deleted report is removed from a link until no occurrence is left" if in_while else
               f"`{norm(c)}` removes one occurrence only; S2F35 can link the same report twice in one request (the pre-check looks at existing links only), so a dangling reference survives the delete and the next S6F15 / event for that CEID fails with S6F0",
               key="remove-all-occurrences", where=f.where)
        under_delete = cnd.holds(cfg, n, "not report.VID")
        ctx.ob("C12.R1", q, under_delete, "links are touched only in the delete form (empty VID list)" if under_delete else "report removal from links is not restricted to the delete form", key="delete-form", where=f.where)
        over_all = any(isinstance(x.ast, ast.For) and "self._registered_collection_events" in norm(x.ast.iter) for x in cfg.nodes if x.kind == "iter" and cfg.path_exists(rules.branch_marker(x, "true"), n, avoid=[x]))
        ctx.ob("C12.R1", q, over_all, "every link is visited" if over_all else "the removal does not visit every registered link", key="all-links", where=f.where)
        it = [x for x in cfg.nodes if x.kind == "iter" and "self._registered_collection_events" in norm(x.ast.iter)]
        snap = all(norm(x.ast.iter).startswith("list(") for x in it)
        ctx.ob("C12.R1", q, snap, "the link table is iterated over a snapshot while links are deleted" if snap else "links are deleted while the link table itself is being iterated (RuntimeError: dictionary changed size)", key="snapshot", where=f.where)
    dels = [n for n in cfg.real_nodes() if isinstance(n.ast, ast.Delete)]
    link_del = [n for n in dels if norm(n.ast.targets[0]).startswith("self._registered_collection_events[")]
    ok = any(any(t.startswith("self._registered_collection_events[") and t.endswith(".reports") and not pol for t, pol in cnd.facts(cfg, n)) for n in link_del)
    ctx.ob("C12.R1", q, ok, "a link whose last report was deleted is deleted as well" if ok else "links left without reports are not deleted", key="empty-link", where=f.where)
    rep_del = [n for n in dels if norm(n.ast.targets[0]) == "self._registered_reports[report.RPTID]"]
    ok = len(rep_del) == 1 and cnd.holds(cfg, rep_del[0], "not report.VID")
    ctx.ob("C12.R1", q, ok, "the report itself is deleted in the delete form" if ok else "the delete form does not delete the report entry", key="report-deleted", where=f.where)
    stores = [n for n in cfg.real_nodes() if isinstance(n.ast, ast.Assign) and norm(n.ast.targets[0]) == "self._registered_reports[report.RPTID]"]
    ok = len(stores) == 1 and norm(stores[0].ast.value) == "CollectionEventReport(report.RPTID, report.VID)" and cnd.holds(cfg, stores[0], "report.VID")
    ctx.ob("C12.R1", q, ok, "the define form stores the report with its id and variable list" if ok else "the define form does not store CollectionEventReport(RPTID, VID)", key="define", where=f.where)
    # S2F35
    g = repo.method("CollectionEventCapability", "_on_s02f35", inherited=False)
    ctx.touch(g)
    gn = normal.normalised(ctx, g)  # locals for the repeated `event.CEID.get()` are spelled out
    gcfg = cfg_of(gn)
    dels = [n for n in gcfg.real_nodes() if isinstance(n.ast, ast.Delete) and norm(n.ast.targets[0]) == "self._registered_collection_events[event.CEID.get()]"]
    ok = len(dels) == 1 and cnd.holds(gcfg, dels[0], "not event.RPTID")
    ctx.ob("C12.R1", g.qualname, ok, "S2F35 with an empty report list deletes the link" if ok else "the unlink form does not delete the link", key="unlink", where=g.where)
    new = [n for n in gcfg.real_nodes() if isinstance(n.ast, ast.Assign) and norm(n.ast.targets[0]) == "self._registered_collection_events[event.CEID.get()]"]
    ok = len(new) == 1 and rules.expand(gn, new[0].ast.value).replace(" ", "") == "CollectionEventLink(self._collection_events[event.CEID.get()],event.RPTID.get())"
    ctx.ob("C12.R1", g.qualname, ok, "a new link is created for the named event with the listed reports in order" if ok else "a new link is not CollectionEventLink(collection_events[CEID], RPTID list)", key="new-link", where=g.where)
    apps = [(n, c) for n in gcfg.real_nodes() for c in n.calls if isinstance(c.func, ast.Attribute) and c.func.attr == "append" and norm(c.func.value).endswith(".reports")]
    ok = len(apps) == 1 and any(x.kind == "iter" and norm(x.ast.iter) == "event.RPTID.get()" and gcfg.path_exists(rules.branch_marker(x, "true"), apps[0][0], avoid=[x]) for x in gcfg.nodes)
    ctx.ob("C12.R1", g.qualname, ok, "additional reports are appended to an existing link in request order" if ok else "reports are not appended to the existing link in request order", key="extend-link", where=g.where)
    # link object
    init = repo.method("CollectionEventLink", "__init__", inherited=False)
    assigned = {dotted(t): norm(s.value) for s in rules.func_stmts(init.node) if isinstance(s, ast.Assign) for t in s.targets}
    ok = assigned.get("self._reports") == "reports" and assigned.get("self.enabled") == "False"
    ctx.ob("C12.R1", init.qualname, ok, "a new link holds the given report list and starts disabled" if ok else f"CollectionEventLink.__init__ stores {assigned}", where=init.where)
    prop = repo.method("CollectionEventLink", "reports", inherited=False)
    rets = [s for s in rules.func_stmts(prop.node) if isinstance(s, ast.Return)]
    ok = len(rets) == 1 and norm(rets[0].value) == "self._reports"
    ctx.ob("C12.R1", prop.qualname, ok, "link.reports is the stored list (mutations reach the link)" if ok else "link.reports is not the stored list", where=prop.where)


def _is_while_test(cfg, test_expr) -> bool:
    return any(n.kind == "test" and n.label == "while" and n.ast is test_expr for n in cfg.nodes)


def check_build(ctx):
    repo = ctx.repo
    b = repo.method("CollectionEventCapability", "_build_collection_event", inherited=False)
    ctx.touch(b)
    cfg = cfg_of(b.node)
    p = b.node.args.args[1].arg
    loops = [n for n in cfg.nodes if n.kind == "iter" and norm(n.ast.iter) == f"self._registered_collection_events[{p}].reports"]
    ok = len(loops) == 1
    ctx.ob("C12.P2", b.qualname, ok, "reports are built by one pass over the link's report list" if ok else "the report list of the link is not iterated exactly once", key="one-pass", where=b.where)
    if ok:
        L = loops[0]
        lv = L.ast.target.id
        vname = None
        apps = [n for n in cfg.real_nodes() if any(c == "reports.append" for c in n.call_names())]
        counts = cfg.loop_iteration_counts(L, lambda n: n in apps, no_exc=True)
        ok = bool(counts) and all(v == (1, 1) for v in counts.values())
        ctx.ob("C12.P2", b.qualname, ok, "exactly one report per linked id, in link order" if ok else f"reports appended per linked id: {counts}", key="one-per-link", where=b.where)
        idx = [n for n in cfg.real_nodes() if f"self._registered_reports[{lv}]" in n.text()]
        ok = len(idx) >= 1
        ctx.ob("C12.R2", b.qualname, ok, "the report table is indexed only with ids taken from the link (exists by C12.R1)" if ok else "the report table is indexed with something else than the linked id", key="index", where=b.where)
        for n in apps:
            c = next(c for c in n.calls if call_name(c) == "reports.append")
            body = {k.value: v for k, v in zip(c.args[0].keys, c.args[0].values)} if isinstance(c.args[0], ast.Dict) and all(isinstance(k, ast.Constant) for k in c.args[0].keys) else {}
            ok = set(body) == {"RPTID", "V"} and norm(body["RPTID"]) == lv and isinstance(body["V"], ast.Name)
            if ok:
                vname = body["V"].id
            ctx.ob("C12.P2", b.qualname, ok, "each report carries its RPTID and its variable values" if ok else f"`{norm(c)}`", key="report-body", where=b.where)
        vloops = [n for n in cfg.nodes if n.kind == "iter" and norm(n.ast.iter).endswith(".vars")]
        ok = len(vloops) == 1 and vname is not None
        if ok:
            va = [n for n in cfg.real_nodes() if any(c == f"{vname}.append" for c in n.call_names())]
            cts = cfg.loop_iteration_counts(vloops[0], lambda n: n in va, no_exc=True)
            ok = bool(cts) and all(v[1] == 1 for v in cts.values())
        ctx.ob("C12.P2", b.qualname, ok, "variables are read in the report's order, at most one value per variable" if ok else "variable values are not collected one per variable in order", key="vars", where=b.where)
    for mname in ("_on_s06f15",):
        f = repo.method("CollectionEventCapability", mname, inherited=False)
        ctx.touch(f)
        cfg = cfg_of(f.node)
        builds = [n for n in cfg.real_nodes() if any(c == "self._build_collection_event" for c in n.call_names())]
        ok = len(builds) == 1
        if ok:
            conds = [t for t, pol in cnd.facts(cfg, builds[0]) if pol]
            ok = any(" in self._registered_collection_events" in c for c in conds) and any(c.endswith(".enabled") for c in conds)
        ctx.ob("C12.P2", f.qualname, ok, "reports are built only for a registered and enabled link" if ok else "S6F15 builds reports without testing that the event is linked and enabled", key="guard", where=f.where)
        rets = [n for n in cfg.real_nodes() if isinstance(n.ast, ast.Return)]
        ok = len(rets) == 1 and norm(rets[0].ast.value) == "self.stream_function(6, 16)({'DATAID': 1, 'CEID': ceid, 'RPT': reports})"
        ctx.ob("C12.P2", f.qualname, ok, "S6F16 echoes the CEID and carries the built reports" if ok else f"returns `{norm(rets[0].ast.value) if rets else None}`", key="reply", where=f.where)
    t = repo.method("CollectionEventCapability", "trigger_collection_events", inherited=False)
    ctx.touch(t)
    inner = [n for n in ast.walk(t.node) if isinstance(n, ast.FunctionDef) and n is not t.node]
    ctx.require(len(inner) == 1, "trigger_collection_events: sender closure not found")
    icfg = cfg_of(inner[0])
    builds = [n for n in icfg.real_nodes() if any(c == "self._build_collection_event" for c in n.call_names())]
    sends = [n for n in icfg.real_nodes() if any(c in ("self.send_and_waitfor_response", "self.send_stream_function") for c in n.call_names())]
    ok = len(builds) == 1 and len(sends) == 1
    if ok:
        conds = [tt for tt, pol in cnd.facts(icfg, builds[0]) if pol]
        ok = any(" in self._registered_collection_events" in c for c in conds) and any(c.endswith(".enabled") for c in conds) and icfg.dominates(builds[0], sends[0])
        loops = [n for n in icfg.nodes if n.kind == "iter" and norm(n.ast.iter) == t.node.args.args[1].arg]
        ok = ok and len(loops) == 1
        if ok:
            cts = icfg.loop_iteration_counts(loops[0], lambda n: n in sends, no_exc=True)
            ok = all(v[1] == 1 for v in cts.values())
    ctx.ob("C12.P2", t.qualname, ok, "each triggered, linked and enabled event is reported once, in trigger order" if ok else "triggered events are not reported exactly once each under the linked+enabled test", key="trigger", where=t.where)
    body = [c for c in calls_in(inner[0]) if isinstance(c.func, ast.Call) and [norm(a) for a in c.func.args] == ["6", "11"]]
    ok = len(body) == 1 and norm(body[0].args[0]) == "{'DATAID': 1, 'CEID': ceid, 'RPT': reports}"
    ctx.ob("C12.P2", t.qualname, ok, "S6F11 carries the CEID and the built reports" if ok else "S6F11 body is not {DATAID, CEID, RPT: reports}", key="s6f11-body", where=t.where)
    s = repo.method("CollectionEventCapability", "_set_ce_state", inherited=False)
    ctx.touch(s)
    scfg = cfg_of(s.node)
    p_ceed, p_ids = [a.arg for a in s.node.args.args[1:3]]
    writes = [n for n in scfg.real_nodes() if isinstance(n.ast, ast.Assign) and norm(n.ast.targets[0]).endswith(".enabled")]
    ok = len(writes) == 2 and all(norm(w.ast.value) == p_ceed for w in writes)
    if ok:
        all_w = [w for w in writes if cnd.holds(scfg, w, f"not {p_ids}")]
        one_w = [w for w in writes if w not in all_w]
        ok = len(all_w) == 1 and len(one_w) == 1 and cnd.holds(scfg, one_w[0], p_ids) and any(" in self._registered_collection_events" in t and pol for t, pol in cnd.facts(scfg, one_w[0]))
    ctx.ob("C12.P2", s.qualname, ok, "an empty CEID list enables/disables every link; otherwise exactly the named, linked events" if ok else "_set_ce_state does not set `enabled = CEED` for all links (empty list) / the named linked events", where=s.where)


def run(ctx):
    check_transactional(ctx)
    check_ack_table(ctx)
    check_integrity(ctx)
    check_build(ctx)
