"""SECS-II item rules shared by C01 / C02 (variables API) and C14 (Item API): item-header bit rules evaluated with the
bit-provenance engine for all lengths, and the numeric type table against SEMI E5."""

from __future__ import annotations

import ast
import json
import os
import struct
import sys

from ..model import AnalysisError, call_name, calls_in, dotted, norm
from .. import bits, rules
from ..cfg import cfg_of

REF = os.path.join(os.path.dirname(os.path.dirname(__file__)), "reference", "e5_items.json")


def ref():
    with open(REF, encoding="utf-8") as handle:
        return json.load(handle)


# ------------------------------------------------------------------------------------------------ header encode
def check_header_encode(ctx, rule, cls_name, meth_name, code_attr):
    repo = ctx.repo
    r = ref()
    f = repo.method(cls_name, meth_name, inherited=False)
    ctx.touch(f)
    q = f.qualname
    param = f.node.args.args[1].arg
    fc = bits.SymInt.field("fc", 6)
    maxlen = r["max_length"]

    def mk(lo, hi):
        width = max(hi.bit_length(), 1)
        return bits.Evaluator(repo, f, {param: bits.SymInt.field("length", width, lo, hi)}, {f"self.{code_attr}": fc, "self.__class__.__name__": "X"})

    try:
        results = bits.explore_intervals(mk, "length", 0, maxlen)
    except bits.LayoutViolation as exc:
        ctx.ob(rule, q, False, f"item header encoding: {exc}", key="layout", where=f.where)
        return None
    intervals = []
    for lo, hi, (kind, val) in results:
        if kind == "raise":
            ctx.ob(rule, q, False, f"lengths {lo}..{hi} are valid E5 item lengths but the encoder raises {val}", key=f"accepts {lo}-{hi}", where=f.where)
            continue
        if not isinstance(val, bits.SymBytes) or len(val) < 2:
            ctx.ob(rule, q, False, f"lengths {lo}..{hi}: the encoder returns {val!r}, not a header of format byte + length bytes", key=f"shape {lo}-{hi}", where=f.where)
            continue
        n = len(val) - 1
        intervals.append((lo, hi, n))
        fb = val.items[0]
        exp_fb = bits.SymInt([(n >> 0) & 1, (n >> 1) & 1] + [("fc", k) for k in range(6)])
        ok = fb.same(exp_fb)
        ctx.ob(rule, q, ok, f"lengths {lo}..{hi}: format byte = format code << 2 | {n}" if ok else
               f"lengths {lo}..{hi}: format byte is {fb!r}; E5 prescribes format code in bits 7-2 and the number of length bytes ({n}) in bits 1-0", key=f"format-byte {lo}-{hi}", where=f.where)
        # length bytes = big-endian base-256 digits
        lenvec = bits.SymInt.field("length", max(hi.bit_length(), 1))
        ok = True
        for k in range(1, n + 1):
            shift = 8 * (n - k)
            exp = bits.SymInt([lenvec.bit(shift + j) for j in range(8)])
            if not val.items[k].same(exp):
                ok = False
        ctx.ob(rule, q, ok, f"lengths {lo}..{hi}: the {n} length byte(s) are the big-endian digits of the length" if ok else
               f"lengths {lo}..{hi}: length bytes {val.items[1:]!r} are not the big-endian base-256 digits of the length", key=f"length-bytes {lo}-{hi}", where=f.where)
        fits = hi < 256**n
        ctx.ob(rule, q, fits, f"lengths {lo}..{hi} fit into {n} length byte(s)" if fits else
               f"length {hi} is encoded with {n} length byte(s), which hold at most {256**n - 1}: the high digits are dropped and the item's bytes no longer match its header", key=f"no-truncation {lo}-{hi}", where=f.where)
        minimal = n == 1 or lo >= 256 ** (n - 1)
        ctx.ob(rule, q, minimal, f"lengths {lo}..{hi} use the minimal number of length bytes" if minimal else
               f"length {lo} is encoded with {n} length bytes although {n - 1} suffice (not the canonical E5 encoding)", key=f"minimal {lo}-{hi}", where=f.where)
    # outside the range the encoder refuses
    for bad in (-1, maxlen + 1):
        ev = bits.Evaluator(repo, f, {param: bad}, {f"self.{code_attr}": fc, "self.__class__.__name__": "X"})
        try:
            ev.run()
            ok = False
        except bits.RaiseOutcome:
            ok = True
        except AnalysisError:
            ok = False
        ctx.ob(rule, q, ok, f"length {bad} is refused" if ok else f"length {bad} is not refused with an exception", key=f"refuses {bad}", where=f.where)
    return intervals


# ------------------------------------------------------------------------------------------------ header decode
def _decode_env_variables(repo, f, data, code):
    params = [a.arg for a in f.node.args.args[1:]]
    env = {params[0]: data}
    if len(params) > 1:
        env[params[1]] = 0
    return env, {"self.format_code": code, "self.__class__.__name__": "X"}, {}


def eval_header_decode(repo, f, data_items, code, api, decisions=None):
    """Evaluate the decode-header function on the given symbolic bytes.  api = 'variables' | 'item'."""
    data = bits.SymBytes(list(data_items))
    if api == "variables":
        env, attr, hooks = _decode_env_variables(repo, f, data, code)
        ev = bits.Evaluator(repo, f, env, attr, hooks, decisions)
        ev.consumed = None
    else:
        p = f.node.args.args[1].arg
        state = {"pos": 0}

        def get_one(self, e):
            if state["pos"] >= len(data.items):
                raise bits.Unsupported("read beyond the modelled input")
            v = data.items[state["pos"]]
            state["pos"] += 1
            return v

        hooks = {f"{p}.get_one": get_one}
        ev = bits.Evaluator(repo, f, {p: bits.Obj("PacketData", [], {}), "cls": None}, {}, hooks, decisions)
        ev.consumed = state
    return ev


def check_header_decode(ctx, rule, cls_name, meth_name, api, require_all_accepted=True):
    repo = ctx.repo
    f = repo.method(cls_name, meth_name, inherited=False)
    ctx.touch(f)
    q = f.qualname
    for n in (0, 1, 2, 3):
        b0 = bits.SymInt([(n >> 0) & 1, (n >> 1) & 1] + [("b0", k) for k in range(2, 8)])
        data = [b0] + [bits.SymInt.field(f"b{i}", 8) for i in (1, 2, 3)]

        def mk(decisions, data=data):
            return eval_header_decode(repo, f, data, -1, api, decisions)

        try:
            outcomes = bits.explore_decisions(mk)
        except bits.LayoutViolation as exc:
            ctx.ob(rule, q, False, f"item header decoding: {exc}", key=f"layout n={n}", where=f.where)
            continue
        raises = [(log, o) for log, o in outcomes if o[0] == "raise"]
        if require_all_accepted:
            ctx.ob(rule, q, not raises,
                   f"a header with {n} length byte(s) is accepted for every value of the length bytes (non-minimal encodings included)" if not raises else
                   f"a header with {n} length byte(s) is rejected depending on the length value ({'; '.join(raises[0][0])} -> {raises[0][1][1]}): valid E5 items that use more length bytes than necessary cannot be decoded",
                   key=f"accepts n={n}", where=f.where)
        good = [o for log, o in outcomes if o[0] == "return"]
        if not good:
            continue
        val = good[0][1]
        if api == "variables":
            ok_shape = isinstance(val, tuple) and len(val) == 3
            pos, code, length = (val if ok_shape else (None, None, None))
        else:
            ok_shape = isinstance(val, tuple) and len(val) == 2
            code, length = (val if ok_shape else (None, None))
            pos = None
        ctx.ob(rule, q, ok_shape, "the decoder returns (position, format code, length)" if api == "variables" else "the decoder returns (format code, length)", key=f"shape n={n}", where=f.where) if not ok_shape else None
        if not ok_shape:
            continue
        exp_code = bits.SymInt([("b0", k) for k in range(2, 8)])
        ok = isinstance(code, (bits.SymInt, int)) and bits.as_sym(code).same(exp_code)
        ctx.ob(rule, q, ok, f"n={n}: format code = bits 7-2 of the format byte" if ok else f"n={n}: format code is {code!r}, expected bits 7-2 of the format byte", key=f"code n={n}", where=f.where)
        bitsv = []
        for k in range(n, 0, -1):
            bitsv.extend((f"b{k}", j) for j in range(8))
        exp_len = bits.SymInt(bitsv)
        ok = isinstance(length, (bits.SymInt, int)) and bits.as_sym(length).same(exp_len)
        ctx.ob(rule, q, ok, f"n={n}: length = big-endian value of the next {n} byte(s)" if ok else f"n={n}: length is {length!r}, expected the big-endian value of the next {n} bytes", key=f"length n={n}", where=f.where)
        if api == "variables":
            if isinstance(pos, bits.SymInt) and pos.is_const():
                pos = pos.value()  # a constant that went through bit arithmetic (`1 + (b & 3)` with known b)
            ok = isinstance(pos, int) and pos == 1 + n
            ctx.ob(rule, q, ok, f"n={n}: the cursor moves past format byte and {n} length byte(s)" if ok else f"n={n}: returned position is {pos!r}, expected start + {1 + n}", key=f"cursor n={n}", where=f.where)
    # the fixed-type check of the variables API: match accepted, mismatch refused
    if api == "variables":
        for own, wire, expect_raise in ((41, 41, False), (41, 42, True)):
            data = [bits.SymInt.const((wire << 2) | 1), bits.SymInt.field("b1", 8)]
            ev = eval_header_decode(repo, f, data, own, api)
            try:
                ev.run()
                raised = False
            except bits.RaiseOutcome:
                raised = True
            ok = raised == expect_raise
            ctx.ob(rule, q, ok, ("a format code other than the item's own is refused" if expect_raise else "the item's own format code is accepted") if ok else
                   ("a foreign format code is accepted for a fixed-type item" if expect_raise else "the item's own format code is refused"), key=f"type-check {own}/{wire}", where=f.where)
        # empty input refused
        ev = bits.Evaluator(repo, f, {f.node.args.args[1].arg: bits.SymBytes([]), f.node.args.args[2].arg: 0}, {"self.format_code": -1, "self.__class__.__name__": "X"})
        try:
            ev.run()
            ok = False
        except bits.RaiseOutcome:
            ok = True
        except AnalysisError:
            ok = False
        ctx.ob(rule, q, ok, "decoding without any bytes is refused with an exception" if ok else "empty input is not refused with a ValueError", key="empty", where=f.where)


def check_roundtrip(ctx, rule, enc_cls, enc_meth, code_attr, dec_cls, dec_meth, api, intervals):
    """decode(encode(code, length)) = (code, length) and the cursor ends right after the header."""
    repo = ctx.repo
    if not intervals:
        return
    fe = repo.method(enc_cls, enc_meth, inherited=False)
    fd = repo.method(dec_cls, dec_meth, inherited=False)
    fc = bits.SymInt.field("fc", 6)
    param = fe.node.args.args[1].arg
    for lo, hi, n in intervals:
        width = max(hi.bit_length(), 1)
        ev = bits.Evaluator(repo, fe, {param: bits.SymInt.field("length", width, lo, hi)}, {f"self.{code_attr}": fc, "self.__class__.__name__": "X"})
        try:
            hdr = ev.run()
        except (bits.NeedSplit, AnalysisError, bits.RaiseOutcome):
            continue
        # the decoder must read n from the encoded format byte: its low two bits are constants here
        dv = eval_header_decode(repo, fd, list(hdr.items) + [bits.SymInt.field("pad", 8)], -1, api)
        dv.field_ranges = {"length": (lo, hi)}
        try:
            val = dv.run()
        except (bits.RaiseOutcome, bits.NeedDecision, AnalysisError) as exc:
            ctx.ob(rule, fd.qualname, False, f"lengths {lo}..{hi}: the decoder does not accept the encoder's own header ({type(exc).__name__})", key=f"roundtrip {lo}-{hi}", where=fd.where)
            continue
        code, length = (val[1], val[2]) if api == "variables" else (val[0], val[1])
        ok = bits.as_sym(code).same(fc) and bits.as_sym(length).same(bits.SymInt.field("length", width))
        if api == "variables":
            p0 = val[0].value() if isinstance(val[0], bits.SymInt) and val[0].is_const() else val[0]
            ok = ok and p0 == len(hdr)
        ctx.ob(rule, fd.qualname, ok, f"lengths {lo}..{hi}: decode(encode(code, length)) = (code, length), cursor right after the header" if ok else
               f"lengths {lo}..{hi}: decoding the encoder's header yields code {code!r}, length {length!r}" + (f", position {val[0]}" if api == "variables" else ""), key=f"roundtrip {lo}-{hi}", where=fd.where)


# ------------------------------------------------------------------------------------------------ numeric table
def exact_range(code: str):
    size = struct.calcsize(">" + code)
    if code in "fd":
        mx = struct.unpack(">f", bytes.fromhex("7f7fffff"))[0] if code == "f" else sys.float_info.max
        return -mx, mx
    if code.islower():
        return -(1 << (8 * size - 1)), (1 << (8 * size - 1)) - 1
    return 0, (1 << (8 * size)) - 1


def check_numeric_table(ctx, rule, classes: dict, attrs: dict):
    """classes: E5 mnemonic -> class name; attrs: logical -> attribute name (code, bytes, struct, min, max)."""
    repo = ctx.repo
    r = ref()
    n = 0
    for mnem, cname in classes.items():
        spec = r["items"][mnem]
        cls = repo.cls(cname)
        ctx.touch(cls)
        n += 1
        code = repo.const(cls, attrs["code"])
        ok = code == spec["code"]
        ctx.ob(rule, cname, ok, f"{cname}: format code {oct(code)} = E5 {spec['octal']}" if ok else f"{cname}: format code {oct(code) if isinstance(code, int) else code} but E5 assigns 0o{spec['octal']} to {mnem}", key="code", where=cls.where)
        if "kind" not in spec:
            continue
        # a numeric class is a row of the table: the codec is the family's (BaseNumber / ItemNumber), not re-implemented per width
        inherited = {m for base in cls.mro[1:] for m in base.methods}
        overrides = sorted(m for m in cls.methods if m in inherited and m not in ("__init__",) and "@" not in m)
        ctx.ob(rule, cname, not overrides, f"{cname}: uses the family's codec unchanged" if not overrides else
               f"{cname} overrides {overrides} of its family: this width no longer encodes/decodes like the table row says (e.g. values post-processed after decoding)", key="no-override", where=cls.where)
        sc = repo.const(cls, attrs["struct"])
        nb = repo.const(cls, attrs["bytes"])
        try:
            size = struct.calcsize(">" + sc)
        except struct.error:
            size = None
        ok = size == nb == spec["bytes"]
        ctx.ob(rule, cname, ok, f"{cname}: {nb} bytes per element = calcsize('{sc}')" if ok else f"{cname}: struct code '{sc}' packs {size} bytes, the class declares {nb}, E5 prescribes {spec['bytes']}", key="size", where=cls.where)
        if spec["kind"] == "int":
            ok = sc.islower() == spec["signed"] and sc.lower() in "bhilq"
        else:
            ok = sc in "fd"
        ctx.ob(rule, cname, ok, f"{cname}: struct code '{sc}' has the right kind/signedness" if ok else f"{cname}: struct code '{sc}' is not a {'signed' if spec.get('signed') else 'unsigned'} {spec['kind']} code", key="kind", where=cls.where)
        if size is None:
            continue
        lo, hi = exact_range(sc)
        mn, mx = repo.const(cls, attrs["min"]), repo.const(cls, attrs["max"])
        ok = mn == lo and mx == hi
        ctx.ob(rule, cname, ok, f"{cname}: accepted range [{mn}, {mx}] = exact range of '{sc}'" if ok else
               f"{cname}: accepted range [{mn!r}, {mx!r}] differs from the exact range of struct code '{sc}' [{lo!r}, {hi!r}]: "
               + ("values between the two bounds are accepted but cannot be packed / round up to infinity" if (mx > hi or mn < lo) else "the boundary encodings (e.g. the largest finite float / 0xFF.. / 0x80..) are valid E5 items but are rejected when decoded"),
               key="range", where=cls.where, declared=[repr(mn), repr(mx)], exact=[repr(lo), repr(hi)])
    return n
