"""C09 - no peer behaviour wedges the endpoint: link loss ends in a clean, reusable state."""

from __future__ import annotations

import ast
import re

from ..cfg import cfg_of
from ..model import AnalysisError, call_name, calls_in, dotted, norm, walk_no_nested
from .. import callgraph, inline, normal, rules
from .. import conds as cnd
from ._dispatch import check_dispatcher

META = {
    "explanation": "Wait/wake-up and ordering rules on the shutdown paths: every blocking wait of the HSMS receive path must "
    "be bounded, provably non-blocking, or have a waker on the local stop path; every spin-wait flag must be reset on every "
    "exit of the thread that owns it and early returns of the waiter must test that same flag; the close sequence of the "
    "connection threads runs disconnecting -> close -> disconnected -> flag reset with each listener contained; "
    "_on_disconnected stops the threads, clears the receive buffer and leaves the SELECTED/NOT SELECTED states on every "
    "path; the peer's close (zero-length recv) ends the read loop; locals of the accept loop are definitely assigned.",
    "decides": [
        "C09.W1 blocking ByteQueue waits reachable from the HSMS receiver thread are non-blocking by a dominating length test, bounded, or woken by the stop path",
        "C09.W2 spin-wait handshakes: the owning thread resets/sets the flag on every exit; the waiter's early return tests the same flag",
        "C09.W3 receiver/dispatcher trigger discipline (no lost wake-up of the thread that must send Separate.req)",
        "C09.P6 a passive endpoint restarts its accepting thread only after the old link's disconnect handling is complete",
        "C09.P5 the reader suspension flag (_disconnecting) is lowered on every path on which a method raised it",
        "C09.P1 _on_disconnected (HSMS and SECS-I): thread stop + buffer clear on every path; HSMS also disconnect transition and connected flag; ByteQueue.clear empties under the lock",
        "C09.P2 close sequence order and containment in TcpConnection.__receiver_thread and SerialConnection._receiver_thread_function",
        "C09.P3 zero-length recv sets the loop's stop flag and clears the connected flag; reconnect is re-armed from on_disconnected while enabled",
        "C09.P4 a new link is taken into service: a readable socket is read (guards, select set, read size, would-block handling); the connect thread reports success only for an established link with receiver, non-blocking socket, connected flag and on_connected, and ends only connected or stopped; the accept thread serves a pending connection and releases the listening socket",
        "C09.D1 every local read in the accept/connect thread functions is definitely assigned",
    ],
    "does_not_decide": ["kernel/socket behaviour", "that a new connection actually selects (C05 covers the handlers)", "timing of the 0.2 s polls"],
    "assumptions": ["threading.Event/Condition/Thread semantics (stdlib)", "Connection events call their listeners synchronously on the calling thread"],
}


# --------------------------------------------------------------------------------------------- helpers
def possibly_undefined(cfg, func_node, var: str):
    """CFG nodes that read local `var` and are reachable from the entry on a path on which no assignment of `var`
    completed (an exception edge leaving the assigning statement does not count as an assignment)."""
    def assigns(n):
        a = n.ast
        if n.kind == "iter":
            return any(isinstance(t, ast.Name) and t.id == var for t in rules.assigned_targets(a))
        if n.kind == "handler":
            return a.name == var
        if n.kind == "with":
            return any(isinstance(i.optional_vars, ast.Name) and i.optional_vars.id == var for i in a.items)
        if n.kind != "stmt":
            return False
        return any(isinstance(t, ast.Name) and t.id == var for t in rules.assigned_targets(a))

    def reads(n):
        part = n.expr_part
        if part is None:
            return False
        parts = part if isinstance(part, list) else [part]
        for p in parts:
            for x in walk_no_nested(p):
                if isinstance(x, ast.Name) and x.id == var and isinstance(x.ctx, ast.Load):
                    return True
        return False

    seen = set()
    stack = [cfg.entry]
    out = []
    while stack:
        cur = stack.pop()
        if cur.id in seen:
            continue
        seen.add(cur.id)
        if cur.kind != "entry" and reads(cur):
            # an augmented assignment / `x = f(x)` reads before it assigns
            out.append(cur)
        for nxt, label in cur.succ:
            if assigns(cur) and label != "exc":
                continue
            stack.append(nxt)
    return out


def local_names(func_node):
    names = set()
    for n in walk_no_nested(func_node):
        if isinstance(n, ast.Name) and isinstance(n.ctx, ast.Store):
            names.add(n.id)
    params = {a.arg for a in func_node.args.args + func_node.args.kwonlyargs}
    if func_node.args.vararg:
        params.add(func_node.args.vararg.arg)
    if func_node.args.kwarg:
        params.add(func_node.args.kwarg.arg)
    return names - params


def spin_loops(func):
    """[(While node, flag dotted, continue_while_value)] for `while self.F:` / `while not self.F:` loops whose body only
    sleeps/passes."""
    out = []
    for st in rules.func_stmts(func.node if hasattr(func, "node") else func):
        if not isinstance(st, ast.While):
            continue
        body_ok = all(isinstance(b, ast.Pass) or (isinstance(b, ast.Expr) and isinstance(b.value, ast.Call) and (call_name(b.value) or "").endswith("sleep")) for b in st.body)
        if not body_ok:
            continue
        t = st.test
        bound = liveness_bound(t)
        if bound is not None:
            out.append((st, bound[0], True))
        elif isinstance(t, ast.UnaryOp) and isinstance(t.op, ast.Not):
            d = dotted(t.operand)
            if d and d.startswith("self."):
                out.append((st, d, False))
        else:
            d = dotted(t)
            if d and d.startswith("self."):
                out.append((st, d, True))
            elif isinstance(t, ast.BoolOp) and any(isinstance(x, ast.Attribute) and dotted(x) and dotted(x).startswith("self.") for x in ast.walk(t)):
                # a sleep-only wait on a compound condition that is not `flag and thread.is_alive()`: not in the table
                raise AnalysisError(f"wait loop `while {norm(t)}` with a sleep-only body: unknown hand-shake form")
    return out


def liveness_bound(test):
    """(flag, thread attribute) for `self.F and self.T.is_alive()` (either order): a wait for the flag that also ends when
    the thread that should lower it has ended."""
    if isinstance(test, ast.BoolOp) and isinstance(test.op, ast.And) and len(test.values) == 2:
        flags = [dotted(v) for v in test.values if dotted(v) and dotted(v).startswith("self.")]
        alive = [dotted(v.func.value) for v in test.values if isinstance(v, ast.Call) and isinstance(v.func, ast.Attribute) and v.func.attr == "is_alive" and not v.args]
        if len(flags) == 1 and len(alive) == 1 and alive[0]:
            return flags[0], alive[0]
    return None


def thread_attributes(repo, cls):
    """{attribute that holds a Thread object: name of its target method}."""
    out = {}
    for c in cls.mro:
        for m in c.methods.values():
            for st in rules.func_stmts(m.node):
                if isinstance(st, ast.Assign) and isinstance(st.value, ast.Call) and (call_name(st.value) or "") == "threading.Thread":
                    tgt = next((k.value for k in st.value.keywords if k.arg == "target"), None)
                    d = dotted(tgt) if tgt is not None else None
                    for t in st.targets:
                        if dotted(t) and dotted(t).startswith("self.") and d and d.startswith("self."):
                            out[dotted(t)] = d.split(".", 1)[1]
    return out


def thread_targets(repo, cls):
    """Methods of the class cone used as threading.Thread targets: {method name: FuncInfo}."""
    out = {}
    for c in cls.mro:
        for m in c.methods.values():
            for call in calls_in(m.node):
                if (call_name(call) or "") == "threading.Thread":
                    tgt = next((k.value for k in call.keywords if k.arg == "target"), None)
                    d = dotted(tgt) if tgt is not None else None
                    if d and d.startswith("self."):
                        name = d.split(".", 1)[1]
                        f = c.methods.get(name) or cls.find_method(name)
                        if f is not None:
                            out[name] = f
    return out


def assigns_flag(func, flag, value: bool, repo, depth=0, seen=None):
    """Does func (or a self-method it calls) assign self.flag = value?"""
    seen = seen or set()
    if id(func.node) in seen or depth > 4:
        return False
    seen.add(id(func.node))
    for st in rules.func_stmts(func.node):
        if isinstance(st, ast.Assign) and any(dotted(t) == flag for t in st.targets) and isinstance(st.value, ast.Constant) and st.value.value is value:
            return True
    for c in calls_in(func.node):
        cn = call_name(c) or ""
        if cn.startswith("self.") and cn.count(".") == 1 and func.cls is not None:
            callee = func.cls.methods.get(cn.split(".")[1]) or func.cls.find_method(cn.split(".")[1])
            if callee is not None and assigns_flag(callee, flag, value, repo, depth + 1, seen):
                return True
    return False


# --------------------------------------------------------------------------------------------- rules
def check_spin_handshakes(ctx):
    repo = ctx.repo
    n_loops = 0
    for cname in ("TcpConnection", "TcpServerConnection", "TcpClientConnection", "SerialConnection"):
        cls = repo.cls(cname)
        targets = thread_targets(repo, cls)
        # a wait loop moved into a private helper is still the wait of the method that calls the helper
        forms, inlined = {}, set()
        for mname, meth in cls.methods.items():
            node, used = normal.normalise(repo, meth, aliases=False, comps=False, ifexp=False)
            forms[mname] = node
            inlined |= {h.name for h in used}
        for mname, meth in cls.methods.items():
            if mname in inlined:
                continue
            mnode = forms[mname]
            for loop, flag, cont_val in spin_loops(mnode):
                n_loops += 1
                ctx.touch(meth)
                exit_val = not cont_val
                owners = [f for f in targets.values() if assigns_flag(f, flag, exit_val, repo)]
                q = f"{cname}.{mname}"
                key = f"spin {flag}"
                bound = liveness_bound(loop.test)
                if bound is not None:
                    # the wait ends with the thread, whichever way the thread ends: what remains is that the waited-for
                    # thread is the one that answers the flag, and that the waiter leaves the flag lowered for the next thread
                    tattr = thread_attributes(repo, cls).get(bound[1])
                    ok = tattr is not None and any(T.name == tattr or tattr.endswith(T.name) for T in owners + [f for f in targets.values() if _reads_flag(f, flag, repo)])
                    ctx.ob("C09.W2", q, ok, f"the wait for {flag} also ends when the thread in {bound[1]} has ended, and that thread is the one the flag stops" if ok else
                           f"`{norm(loop.test)}` is bounded by the liveness of {bound[1]}, which is not the thread that examines {flag}", key=key + " bounded-by", where=meth.where)
                    mcfg = cfg_of(mnode)
                    loop_node = next(n for n in mcfg.nodes if n.kind == "test" and n.ast is loop.test)
                    lowers = [n for n in mcfg.real_nodes() if isinstance(n.ast, ast.Assign) and any(dotted(t) == flag for t in n.ast.targets) and rules.literal(mnode, n.ast.value) == (True, False)]
                    after = rules.branch_marker(loop_node, "false")
                    lowered = bool(lowers) and not mcfg.path_exists(after, mcfg.exit, avoid=lowers, no_exc=True)
                    ctx.ob("C09.W2", q, lowered, f"{mname}() leaves {flag} lowered after the wait" if lowered else
                           f"after the liveness-bounded wait {mname}() can return with {flag} still raised (the thread may have ended without lowering it): the next thread started by enable() sees a stop request and ends at once - the endpoint never accepts/connects again",
                           key=key + " lowered-after-wait", where=meth.where)
                    for T in owners:
                        ctx.touch(T)
                        ctx.ob("C09.W2", q, True, f"{T.qualname} need not lower {flag} on every exit: the waiter does not depend on it", key=key + " by " + T.name, where=meth.where)
                    continue
                if not owners:
                    ctx.ob("C09.W2", q, False, f"`{norm(loop.test)}` spins on {flag} but no thread function of the class ever sets it to {exit_val}: the caller never returns", key=key, where=meth.where)
                    continue
                for T in owners:
                    ctx.touch(T)
                    tcfg = cfg_of(T.node)
                    sets = [n for n in tcfg.real_nodes() if isinstance(n.ast, ast.Assign) and any(dotted(t) == flag for t in n.ast.targets) and isinstance(n.ast.value, ast.Constant) and n.ast.value.value is exit_val]
                    # calls of helpers that set it count as setters too
                    for n in tcfg.real_nodes():
                        for c in n.calls:
                            cn = call_name(c) or ""
                            if cn.startswith("self.") and cn.count(".") == 1:
                                callee = cls.methods.get(cn.split(".")[1]) or cls.find_method(cn.split(".")[1])
                                if callee is not None and callee is not T and _always_sets(callee, flag, exit_val):
                                    sets.append(n)
                    if exit_val is True:
                        # "wait until the thread is running": the thread must set the flag before anything that can block
                        first_ok = bool(sets) and all(tcfg.dominates(sets[0], n) or n is sets[0] for n in tcfg.real_nodes())
                        ctx.ob("C09.W2", q, first_ok, f"{T.qualname} sets {flag} as its first action (the waiter in {mname} is released)" if first_ok else
                               f"{T.qualname} does not set {flag} before other work: `{norm(loop.test)}` in {mname} can spin for ever", key=key + " by " + T.name, where=meth.where)
                        continue
                    leak = tcfg.path_exists(tcfg.entry, tcfg.exit, avoid=sets, no_exc=True)
                    ctx.ob("C09.W2", q, not leak,
                           f"every normal exit of {T.qualname} resets {flag}" if not leak else
                           f"{T.qualname} has an exit that does not reset {flag}: a {mname}() that set the flag while this thread was alive spins in `while {norm(loop.test)}` for ever",
                           key=key + " by " + T.name, where=meth.where)
                    # raising statements outside any try before the reset end the thread with the flag still set
                    risky = [n for n in tcfg.real_nodes() if not n.in_try and n.calls and not any(n is s for s in sets) and any(tcfg.path_exists(n, s) for s in sets) and _is_listener_or_io(n)]
                    ctx.ob("C09.W2", q, not risky, f"listener calls before the reset of {flag} in {T.qualname} are contained" if not risky else
                           f"`{risky[0].text()}` in {T.qualname} is outside a try: if it raises the thread ends without resetting {flag}", key=key + " contained " + T.name, where=meth.where)
                    # the waiter closes a socket under the thread before it waits: what the thread does with that socket
                    # outside a try raises (EBADF) and ends the thread with the flag still raised
                    closed = {norm(c.func.value) for c in calls_in(mnode) if isinstance(c.func, ast.Attribute) and c.func.attr == "close" and norm(c.func.value).startswith("self.")
                              and c.lineno < loop.lineno}
                    hit = [n for n in tcfg.real_nodes() if closed and not n.in_try and not any(n is s for s in sets) and any(tcfg.path_exists(n, s) for s in sets)
                           and any(isinstance(c.func, ast.Attribute) and norm(c.func.value) in closed and c.func.attr not in ("close",) for c in n.calls)]
                    ctx.ob("C09.W2", q, not hit, f"{T.qualname} uses nothing outside a try that {mname}() closes under it" if not hit else
                           f"{mname}() closes {sorted(closed)[0]} and then waits for {flag}; `{hit[0].text()[:70]}` in {T.qualname} is outside a try: woken on the closed socket it raises, "
                           f"the thread ends with {flag} still raised and {mname}() never returns", key=key + " closed-resource " + T.name, where=meth.where)
                # waiter side: early returns before the spin must test the same flag
                if exit_val is False:
                    mcfg = cfg_of(mnode)
                    loop_node = next(n for n in mcfg.nodes if n.kind == "test" and n.ast is loop.test)
                    for r in [n for n in mcfg.real_nodes() if isinstance(n.ast, ast.Return) and not mcfg.path_exists(loop_node, n)]:
                        conds = mcfg.dominating_conditions(r)
                        same = any(flag in {dotted(x) for x in ast.walk(t) if isinstance(x, ast.Attribute)} for t, v in conds)
                        setters_before = [n for n in mcfg.real_nodes() if isinstance(n.ast, ast.Assign) and any(dotted(t) == flag for t in n.ast.targets)]
                        if setters_before:
                            continue  # the waiter itself raises the flag (stop request): the early return is about being enabled at all
                        ctx.ob("C09.W2", q, same, f"{mname}() returns early only when {flag} shows the thread is not running" if same else
                               f"{mname}() returns early under `{[norm(t) for t, _ in conds]}`, not under a test of {flag}: it can return while the thread is still running, "
                               "leaving the stop request pending and the connection state stale", key=key + " early-return", where=meth.where)
    ctx.floor("spin-wait loops", n_loops, 5)


def _reads_flag(func, flag, repo, depth=0) -> bool:
    """The thread function (or a private helper it calls) tests the flag."""
    for x in ast.walk(func.node):
        if isinstance(x, (ast.While, ast.If)) and any(dotted(a) == flag for a in ast.walk(x.test) if isinstance(a, ast.Attribute)):
            return True
    if depth < 2 and func.cls is not None:
        for c in calls_in(func.node):
            cn = call_name(c) or ""
            if cn.startswith("self.__") and cn.count(".") == 1:  # class-private helpers of the thread function only
                callee = func.cls.find_method(cn.split(".")[1])
                if callee is not None and callee is not func and _reads_flag(callee, flag, repo, depth + 1):
                    return True
    return False


def _always_sets(func, flag, value) -> bool:
    cfg = cfg_of(func.node)
    sets = [n for n in cfg.real_nodes() if isinstance(n.ast, ast.Assign) and any(dotted(t) == flag for t in n.ast.targets) and isinstance(n.ast.value, ast.Constant) and n.ast.value.value is value]
    return bool(sets) and not cfg.path_exists(cfg.entry, cfg.exit, avoid=sets, no_exc=True)


def _is_listener_or_io(n) -> bool:
    return any(c.startswith("self.on_") for c in n.call_names())


def check_close_sequence(ctx):
    repo = ctx.repo
    for cname, mname, closer, run_flag, stop_flag in (
        ("TcpConnection", "__receiver_thread", "self._socket.close", "self._thread_running", "self._stop_thread"),
        ("SerialConnection", "_receiver_thread_function", "self._port.close", "self._receiver_thread_running", "self._stop_receiver_thread"),
    ):
        f = repo.method(cname, mname, inherited=False)
        ctx.touch(f)
        q = f.qualname
        fnode = inline.expanded(ctx, f, keep={"__receiver_thread_read_data", "_receiver_loop"})  # notifications moved into private helpers
        cfg = cfg_of(fnode)

        def node_calling(name):
            return [n for n in cfg.real_nodes() if any(c == name for c in n.call_names())]

        d1, cl, d2 = node_calling("self.on_disconnecting"), node_calling(closer), node_calling("self.on_disconnected")
        ctx.require(len(d1) == 1 and len(cl) == 1 and len(d2) == 1, f"{q}: close sequence statements not found (disconnecting {len(d1)}, close {len(cl)}, disconnected {len(d2)})")
        order = cfg.path_exists(d1[0], cl[0]) and cfg.path_exists(cl[0], d2[0]) and not cfg.path_exists(cl[0], d1[0]) and not cfg.path_exists(d2[0], cl[0])
        ctx.ob("C09.P2", q, order, "order is on_disconnecting -> close -> on_disconnected" if order else "the close sequence is not on_disconnecting -> close -> on_disconnected", key="order", where=f.where)
        for label, n in (("on_disconnecting", d1[0]), ("on_disconnected", d2[0])):
            c = next(c for c in n.calls if call_name(c) == f"self.{label}")
            ok = callgraph.broadly_guarded(fnode, c)
            ctx.ob("C09.P2", q, ok, f"a raising {label} listener is contained" if ok else f"a raising {label} listener skips the rest of the close sequence (socket not closed / flags not reset)", key="contained " + label, where=f.where)
        # every step happens on every path (post-dominates entry, exceptional edges of contained listeners included)
        for label, nodes in (("on_disconnecting", d1), ("close", cl), ("on_disconnected", d2)):
            ok = not cfg.path_exists(cfg.entry, cfg.exit, avoid=nodes)
            ctx.ob("C09.P2", q, ok, f"{label} happens on every path to the thread's end" if ok else f"a path reaches the end of the thread without {label}", key="always " + label, where=f.where)
        # read loop contained
        loops = [n for n in cfg.real_nodes() if any("read_data" in c or "_receiver_loop" in c for c in n.call_names())]
        ctx.require(len(loops) == 1, f"{q}: read loop call not found")
        lc = next(c for c in loops[0].calls if "read_data" in (call_name(c) or "") or "_receiver_loop" in (call_name(c) or ""))
        ok = callgraph.broadly_guarded(fnode, lc)
        ctx.ob("C09.P2", q, ok, "an exception in the read loop still runs the close sequence" if ok else "an exception in the read loop escapes: no disconnect handling, flags never reset", key="read-loop-contained", where=f.where)
        ok = cfg.path_exists(loops[0], d1[0]) and not cfg.path_exists(d1[0], loops[0])
        ctx.ob("C09.P2", q, ok, "the close sequence follows the read loop" if ok else "the close sequence does not follow the read loop", key="after-loop", where=f.where)
        # the link is usually already down when this sequence runs (the peer closed or reset it): any other operation on it
        # raises (ENOTCONN, EBADF) and, unless contained, ends the thread before on_disconnected and the flag resets
        link = closer.rsplit(".", 1)[0] + "."
        for n in cfg.real_nodes():
            if n is loops[0] or not cfg.path_exists(loops[0], n):
                continue
            for c in n.calls:
                cn = call_name(c) or ""
                if cn.startswith(link) and cn != closer:
                    ok = callgraph.broadly_guarded(fnode, c)
                    ctx.ob("C09.P2", q, ok, f"`{cn}` in the close sequence is contained" if ok else
                           f"`{norm(c)[:70]}` runs on a link that the peer may already have closed or reset; it is outside any handler, so its OSError ends the receiver thread before on_disconnected and the flag resets: the endpoint stays CONNECTED, the listener is not re-armed, disable() waits for ever",
                           key="link-call-contained " + cn, where=f.where)
        # flag resets at the end, after on_disconnected
        resets = {}
        for n in cfg.real_nodes():
            if isinstance(n.ast, ast.Assign) and isinstance(n.ast.value, ast.Constant) and n.ast.value.value is False:
                for t in n.ast.targets:
                    resets.setdefault(dotted(t), []).append(n)
        for flag in (run_flag, "self._connected", stop_flag):
            ns = resets.get(flag, [])
            ok = bool(ns) and not cfg.path_exists(cfg.entry, cfg.exit, avoid=ns) and any(cfg.path_exists(d2[0], n) for n in ns)
            ctx.ob("C09.P2", q, ok, f"{flag} is reset after on_disconnected on every path" if ok else
                   f"{flag} is not reset on every path after on_disconnected" + (": after a close initiated by the peer the read loop of the next connection sees the stale stop request and tears the new connection down at once" if flag == stop_flag else ""),
                   key="reset " + flag, where=f.where)
        sets_running = [n for n in cfg.real_nodes() if isinstance(n.ast, ast.Assign) and any(dotted(t) == run_flag for t in n.ast.targets) and isinstance(n.ast.value, ast.Constant) and n.ast.value.value is True]
        ok = bool(sets_running) and cfg.dominates(sets_running[0], loops[0])
        ctx.ob("C09.P2", q, ok, f"{run_flag} is raised before the read loop" if ok else f"{run_flag} is not raised before the read loop", key="running-set", where=f.where)


def check_read_loop(ctx):
    repo = ctx.repo
    f = repo.method("TcpConnection", "__receiver_thread_read_data", inherited=False)
    ctx.touch(f)
    q = f.qualname
    cfg = cfg_of(f.node)
    heads = [n for n in cfg.nodes if n.kind == "test" and n.label == "while"]
    ctx.require(len(heads) >= 1, f"{q}: read loop not found")
    head = heads[0]
    ctx.require(isinstance(head.ast, ast.UnaryOp) and isinstance(head.ast.op, ast.Not) and dotted(head.ast.operand), f"{q}: read loop condition `{norm(head.ast)}` is not `not self.<flag>`")
    flag = dotted(head.ast.operand)
    recvs = [n for n in cfg.real_nodes() if any(c.endswith(".recv") for c in n.call_names())]
    ctx.require(len(recvs) == 1 and isinstance(recvs[0].ast, ast.Assign), f"{q}: recv statement not found")
    rv = recvs[0].ast.targets[0].id
    # the test for an empty read in any spelling and either orientation (`len(x) == 0`, `not x`, `len(x) >= 1` with the close in the else arm)
    zero_tests, zero_label = [], {}
    for n in cfg.nodes:
        if n.kind != "test":
            continue
        if norm(n.ast) in (f"not {rv}", f"{rv} == b''"):
            zero_tests.append(n)
            zero_label[id(n)] = "true"
            continue
        if norm(n.ast) in (rv, f"{rv} != b''"):
            zero_tests.append(n)
            zero_label[id(n)] = "false"
            continue
        fs = cnd.canon(n.ast, True)
        if fs in ({(f"len({rv}) < 1", True)}, {(f"len({rv}) == 0", True)}, {(rv, False)}):
            zero_tests.append(n)
            zero_label[id(n)] = "true"
        elif fs in ({(f"len({rv}) < 1", False)}, {(f"len({rv}) == 0", False)}, {(rv, True)}):
            zero_tests.append(n)
            zero_label[id(n)] = "false"
    ok = len(zero_tests) == 1
    ctx.ob("C09.P3", q, ok, "a zero-length recv (peer closed) is recognised" if ok else "no test for a zero-length recv: a closed peer is never noticed and the read loop spins", key="zero-test", where=f.where)
    if ok:
        Z = rules.branch_marker(zero_tests[0], zero_label[id(zero_tests[0])])
        sets = [n for n in cfg.real_nodes() if isinstance(n.ast, ast.Assign) and cfg.dominates(Z, n)]
        assigned = {dotted(t): norm(n.ast.value) for n in sets for t in n.ast.targets}
        ok1 = assigned.get(flag) == "True"
        ctx.ob("C09.P3", q, ok1, f"the peer's close sets {flag}, which ends the read loop" if ok1 else f"the zero-length branch does not set {flag}: the read loop never ends and no disconnect handling runs", key="stop-on-close", where=f.where)
        ok2 = assigned.get("self._connected") == "False"
        ctx.ob("C09.P3", q, ok2, "the peer's close clears the connected flag" if ok2 else "the zero-length branch does not clear _connected", key="connected-cleared", where=f.where)
        ondata = [n for n in cfg.real_nodes() if any(c == "self.on_data" for c in n.call_names())]
        ok3 = bool(ondata) and not any(cfg.path_exists(Z, n, avoid=[head]) for n in ondata)
        ctx.ob("C09.P3", q, ok3, "an empty read is not delivered as data" if ok3 else "the empty read of a closed socket is delivered as data", key="no-empty-data", where=f.where)
    # data is forwarded as received
    for n in [n for n in cfg.real_nodes() if any(c == "self.on_data" for c in n.call_names())]:
        c = next(c for c in n.calls if call_name(c) == "self.on_data")
        arg0 = rules.expand_ast(cfg.func, c.args[0], depth=1) if c.args and isinstance(c.args[0], ast.Name) else (c.args[0] if c.args else None)  # the event data may be built in a local
        ok = arg0 is not None and isinstance(arg0, ast.Dict) and any(isinstance(k, ast.Constant) and k.value == "data" and norm(v) == rv for k, v in zip(arg0.keys, arg0.values))
        ctx.ob("C09.P3", q, ok, "received bytes are handed on unchanged" if ok else f"`{norm(c)}` does not pass the received bytes", key="on-data", where=f.where)
    # reconnect re-armed from on_disconnected while enabled
    for cname, start in (("TcpServerConnection", "__start_server_thread"), ("TcpClientConnection", "__start_connect_thread")):
        cls = repo.cls(cname)
        init = cls.methods["__init__"]
        reg = [c for c in calls_in(init.node) if norm(c.func) == "self.on_disconnected.register"]
        ok = len(reg) == 1 and norm(reg[0].args[0]) == "self._disconnected"
        ctx.ob("C09.P3", f"{cname}.__init__", ok, "the connection listens to its own on_disconnected to re-arm" if ok else "no self-registration on on_disconnected: after a link loss nothing accepts/connects again", where=init.where)
        d = cls.methods.get("_disconnected")
        ctx.require(d is not None, f"{cname}._disconnected not found")
        dcfg = cfg_of(d.node)
        st = [n for n in dcfg.real_nodes() if any(c == f"self.{start}" for c in n.call_names())]
        conds = sorted((t, pol) for n in st for t, pol in cnd.facts(dcfg, n))
        ok = len(st) == 1 and any(t in ("self._enabled", "self.enabled") and pol for t, pol in conds)
        ctx.ob("C09.P3", f"{cname}._disconnected", ok, "a lost link restarts accepting/connecting while the connection is enabled" if ok else f"_disconnected does not restart the listener exactly when enabled ({conds})", where=d.where)


def _nodes_calling(cfg, pred):
    return [n for n in cfg.real_nodes() if any(pred(c) for c in n.call_names())]


def check_link_taken_into_service(ctx):
    """A new TCP link is taken into service completely (C09: 'accepts a new connection and selects again'): the data of a
    readable socket is read, the connecting/accepting thread reports success only for an established link whose receiver
    runs, keeps trying until then, and the listening socket is released for the next round."""
    repo = ctx.repo
    # ---- read loop: nothing but readiness / not-disconnecting stands between a readable socket and recv
    f = repo.method("TcpConnection", "__receiver_thread_read_data", inherited=False)
    ctx.touch(f)
    q = f.qualname
    cfg = cfg_of(f.node)
    recvs = [(n, c) for n in cfg.real_nodes() for c in n.calls if (call_name(c) or "").endswith(".recv")]
    ctx.require(len(recvs) == 1, f"{q}: recv statement not found")
    rn, rc = recvs[0]
    sel = [n for n in cfg.real_nodes() if isinstance(n.ast, ast.Assign) and isinstance(n.ast.value, ast.Call) and call_name(n.ast.value) == "select.select"]
    ctx.require(len(sel) == 1 and isinstance(sel[0].ast.targets[0], ast.Name), f"{q}: select statement not found")
    sv = sel[0].ast.targets[0].id
    heads = [n for n in cfg.nodes if n.kind == "test" and n.label == "while"]
    loop_facts = cnd.canon(heads[0].ast, True) if heads else set()
    allowed = {(f"{sv}[0]", True), ("self._disconnecting", False)} | loop_facts
    extra = sorted(cnd.facts(cfg, rn) - allowed)
    ctx.ob("C09.P4", q, not extra, "a readable socket is read unless the link is being closed" if not extra else
           f"recv runs only under {cnd.show(set(extra))}: data the peer sent is never read, the select procedure of the new link cannot complete", key="recv-guard", where=f.where)
    sc = sel[0].ast.value
    ok = bool(sc.args) and isinstance(sc.args[0], (ast.List, ast.Tuple)) and any(norm(e) in ("self._socket", "self._sock") for e in sc.args[0].elts)
    ctx.ob("C09.P4", q, ok, "select watches the connection's socket for readability" if ok else f"`{norm(sc)}` does not watch the socket for readability", key="select-reads", where=f.where)
    # the stop flag of the loop is only looked at between two selects: the select must come back without traffic
    tmo = sc.args[3] if len(sc.args) > 3 else next((k.value for k in sc.keywords if k.arg == "timeout"), None)
    ok = tmo is not None and not (isinstance(tmo, ast.Constant) and tmo.value is None)
    ctx.ob("C09.P4", q, ok, "the receive select has a timeout: a silent peer does not keep the loop from seeing the stop request" if ok else
           f"`{norm(sc)[:80]}` has no timeout: with a silent peer the reader never looks at its stop flag again, disconnect() / disable() wait for ever", key="select-timeout", where=f.where)
    known, size = rules.literal(f.node, rc.args[0]) if rc.args else (False, None)
    ok = known and isinstance(size, int) and not isinstance(size, bool) and size >= 1
    ctx.ob("C09.P4", q, ok, f"recv asks for {size} bytes at a time" if ok else
           f"recv size `{norm(rc.args[0]) if rc.args else ''}` is not a positive constant: a zero-sized read returns b'' for a live peer and is taken for its close", key="recv-size", where=f.where)
    raises = [n for n in cfg.real_nodes() if isinstance(n.ast, ast.Raise)]
    bad = [n for n in raises if not any(t.startswith("is_errorcode_ewouldblock(") and not pol for t, pol in cnd.facts(cfg, n))]
    ok = bool(raises) and not bad
    ctx.ob("C09.P4", q, ok, "a would-block error is ignored, every other socket error ends the read loop" if ok else
           "the socket-error handler does not re-raise exactly the errors that are not EWOULDBLOCK: a dead link is polled for ever or a momentarily empty socket tears the link down", key="ewouldblock", where=f.where)

    # ---- active side: __connect reports True only for an established link in service
    c = repo.method("TcpClientConnection", "__connect", inherited=False)
    ctx.touch(c)
    q = c.qualname
    cfg = cfg_of(c.node)
    rets = [n for n in cfg.real_nodes() if isinstance(n.ast, ast.Return)]
    conn = _nodes_calling(cfg, lambda x: x.endswith("_socket.connect") or x.endswith("_sock.connect"))
    ctx.require(len(conn) == 1 and rets, f"{q}: connect statement / returns not found")
    steps = {
        "the socket is made non-blocking": [n for n in cfg.real_nodes() if any(x.endswith(".setblocking") for x in n.call_names()) and any(rules.literal(c.node, k.args[0]) in ((True, 0), (True, False)) for k in n.calls if (call_name(k) or "").endswith(".setblocking") and k.args)],
        "the connected flag is raised": [n for n in cfg.real_nodes() if isinstance(n.ast, ast.Assign) and any(dotted(t) == "self._connected" for t in n.ast.targets) and isinstance(n.ast.value, ast.Constant) and n.ast.value.value is True],
        "the receiver is started": _nodes_calling(cfg, lambda x: x == "self._start_receiver"),
        "on_connected is fired": _nodes_calling(cfg, lambda x: x == "self.on_connected"),
    }
    handlers = [n for n in cfg.nodes if n.kind == "handler"]
    # where the result is decided: a `return <literal>` or, for `return name`, every assignment of a literal to that name
    sites = []
    for r in rets:
        v = r.ast.value
        if isinstance(v, ast.Name):
            defs = [n for n in cfg.real_nodes() if isinstance(n.ast, ast.Assign) and any(isinstance(t, ast.Name) and t.id == v.id for t in n.ast.targets)]
            ctx.require(bool(defs) and all(isinstance(n.ast.value, ast.Constant) for n in defs), f"{q}: the returned `{v.id}` is not assigned from literals only - unknown result idiom")
            sites.extend((n, n.ast.value) for n in defs)
        else:
            sites.append((r, v))
    for r, value in sites:
        known, val = rules.literal(c.node, value) if value is not None else (True, None)
        failed = any(cfg.dominates(h, r) for h in handlers if cfg.path_exists(conn[0], h) and not any(cfg.dominates(s, h) for s in steps["the receiver is started"]))
        if failed:
            ok = known and not val
            ctx.ob("C09.P4", q, ok, "a failed connect is reported as failure" if ok else f"the failed-connect path returns `{norm(value)}`: the connect loop stops retrying although no link exists", key="failure-value", where=c.where)
        else:
            ok = known and val is True
            ctx.ob("C09.P4", q, ok, "an established link is reported as success" if ok else f"the established-link path returns `{norm(value) if value is not None else None}`: the connect loop opens a second socket over a live link", key="success-value", where=c.where)
            # the result may be decided first and the link taken into service right after (try/except/else + single return):
            # what matters is that no path from the decision to the function's end skips a step
            for label, nodes in steps.items():
                ok = bool(nodes) and (any(cfg.dominates(n, r) for n in nodes) or not cfg.path_exists(r, cfg.exit, avoid=nodes, no_exc=True))
                ctx.ob("C09.P4", q, ok, f"before success is reported {label}" if ok else f"success is reported although not ({label}): the link exists but is not in service (nothing is received / nobody is told)", key="success " + label, where=c.where)
    # ---- active side: the connect thread ends only connected or stopped
    t = repo.method("TcpClientConnection", "__connect_thread", inherited=False)
    ctx.touch(t)
    q = t.qualname
    cfg = cfg_of(t.node)
    ends = [n for n in cfg.real_nodes() if isinstance(n.ast, ast.Return)] + [p for p in cfg.exit.pred if not isinstance(p.ast, ast.Return) and p.kind != "raise"]
    for e in ends:
        fs = cnd.facts(cfg, e)
        stopped = any(re.match(r"^self\.(_TcpClientConnection)?__idle\(.*\)$", x) and not pol for x, pol in fs)
        connected = any(re.match(r"^self\.(_TcpClientConnection)?__connect\(\)$", x) and pol for x, pol in fs)
        ok = stopped or connected
        ctx.ob("C09.P4", q, ok, "the connect thread ends only after a successful connect or a stop request" if ok else
               f"the connect thread can end under {cnd.show(fs)} - neither connected nor stopped: nothing connects any more", key=f"ends {'return' if isinstance(e.ast, ast.Return) else 'fall-through'} {cnd.show(fs)}", where=t.where)
    ctx.floor("ends of the connect thread", len(ends), 2)

    # ---- passive side: the accepted socket is taken into service, the listening socket released
    sfn = repo.method("TcpServerConnection", "__server_thread", inherited=False)
    ctx.touch(sfn)
    q = sfn.qualname
    snode = inline.expanded(ctx, sfn, keep={"_start_receiver"})
    cfg = cfg_of(snode)
    acc = [n for n in cfg.real_nodes() if isinstance(n.ast, ast.Assign) and any("self._sock" in norm(x) for x in ast.walk(n.ast.targets[0]) if isinstance(x, ast.Attribute))]
    ctx.require(len(acc) == 1, f"{q}: the statement that stores the accepted socket was not found")
    accept_calls = _nodes_calling(cfg, lambda x: x.endswith("_server_sock.accept"))
    ctx.require(len(accept_calls) == 1, f"{q}: accept statement not found")
    av = accept_calls[0].ast.targets[0].id if isinstance(accept_calls[0].ast, ast.Assign) and isinstance(accept_calls[0].ast.targets[0], ast.Name) else None
    sel = [n for n in cfg.real_nodes() if isinstance(n.ast, ast.Assign) and isinstance(n.ast.value, ast.Call) and call_name(n.ast.value) == "select.select"]
    sv = sel[0].ast.targets[0].id if sel and isinstance(sel[0].ast.targets[0], ast.Name) else None
    heads = [n for n in cfg.nodes if n.kind == "test" and n.label == "while"]
    allowed = (cnd.canon(heads[0].ast, True) if heads else set()) | {(f"{sv}[0]", True), (f"{av} is None", False)}
    extra = sorted(cnd.facts(cfg, acc[0]) - allowed)
    ctx.ob("C09.P4", q, not extra, "a pending connection is accepted and stored" if not extra else f"the accepted socket is stored only under {cnd.show(set(extra))}: a connecting peer is never served", key="accept-guard", where=sfn.where)
    after = [n for n in cfg.real_nodes() if isinstance(n.ast, ast.Return) and cfg.dominates(acc[0], n)]
    ctx.require(bool(after), f"{q}: no return after the accepted socket was stored")
    steps = {
        "the socket is made non-blocking": [n for n in cfg.real_nodes() if any(rules.literal(snode, k.args[0]) in ((True, 0), (True, False)) for k in n.calls if (call_name(k) or "").endswith("_socket.setblocking") and k.args)],
        "the connected flag is raised": [n for n in cfg.real_nodes() if isinstance(n.ast, ast.Assign) and any(dotted(x) == "self._connected" for x in n.ast.targets) and isinstance(n.ast.value, ast.Constant) and n.ast.value.value is True],
        "the receiver is started": _nodes_calling(cfg, lambda x: x == "self._start_receiver"),
        "on_connected is fired": _nodes_calling(cfg, lambda x: x == "self.on_connected"),
        "the listening socket is closed (the next round binds the port again)": _nodes_calling(cfg, lambda x: x == "self._server_sock.close"),
    }
    for r in after:
        for label, nodes in steps.items():
            ok = bool(nodes) and any(cfg.dominates(n, r) for n in nodes)
            ctx.ob("C09.P4", q, ok, f"before the accept thread ends {label}" if ok else f"the accept thread ends with a stored socket although not ({label})", key="accepted " + label, where=sfn.where)


def check_on_disconnected(ctx):
    repo = ctx.repo
    for cname, extra in (("HsmsProtocol", True), ("SecsIProtocol", False)):
        f = repo.method(cname, "_on_disconnected", inherited=False)
        ctx.touch(f)
        q = f.qualname
        cfg = cfg_of(inline.expanded(ctx, f))
        wanted = [("thread stop", lambda n: any(c == "self._thread.stop" for c in n.call_names())),
                  ("receive buffer clear", lambda n: any(c == "self._receive_buffer.clear" for c in n.call_names()))]
        if extra:
            wanted.append(("disconnect transition", lambda n: any(c == "self._connection_state.disconnect" for c in n.call_names())))
            wanted.append(("connected flag reset", lambda n: isinstance(n.ast, ast.Assign) and any(dotted(t) == "self._connected" for t in n.ast.targets) and norm(n.ast.value) == "False"))
        for label, pred in wanted:
            cnt = cfg.count_on_paths(pred, cfg.entry, cfg.exit, no_exc=True)
            ok = cnt[0] is not None and cnt[0] >= 1
            ctx.ob("C09.P1", q, ok, f"{label} happens on every path" if ok else
                   f"{label} is missing on some path of _on_disconnected" + (": bytes of a partial frame survive into the next connection and mis-frame its first message" if "buffer" in label else ""),
                   key=label, where=f.where)
    b = repo.method("ByteQueue", "clear", inherited=False)
    ctx.touch(b)
    ok = False
    for st in rules.func_stmts(b.node):
        if isinstance(st, ast.With) and any(dotted(i.context_expr) == "self._buffer_lock" for i in st.items):
            ok = any((call_name(c) or "") == "self._buffer.clear" for c in calls_in(st)) or any(isinstance(s, ast.Delete) and norm(s.targets[0]).startswith("self._buffer[") for s in st.body)
    ctx.ob("C09.P1", b.qualname, ok, "ByteQueue.clear empties the buffer under the lock" if ok else "ByteQueue.clear does not empty the buffer under its lock", where=b.where)
    # the dispatcher's stop() joins the receiver, so that no old receiver consumes the new connection's bytes
    s = repo.method("ProtocolDispatcher", "stop", inherited=False)
    ok = any((call_name(c) or "") == "self._receiver_thread.join" for c in calls_in(s.node))
    ctx.ob("C09.P1", s.qualname, ok, "stop() waits for the old receiver thread" if ok else "stop() does not join the receiver thread: two receivers frame one buffer after a reconnect", where=s.where)


def check_blocking_waits(ctx):
    """Unbounded ByteQueue waits on the HSMS receiver thread."""
    repo = ctx.repo
    # wakers of the condition
    bq = repo.cls("ByteQueue")
    wf = bq.methods["wait_for"]
    ctx.touch(wf)
    unbounded = True
    for c in calls_in(wf.node):
        if (call_name(c) or "").endswith("_buffer_lock.wait_for") or (call_name(c) or "").endswith("_buffer_lock.wait"):
            if len(c.args) > 1 or any(k.arg == "timeout" for k in c.keywords):
                unbounded = False
    notifiers = [m.name for m in bq.methods.values() if any((call_name(c) or "").endswith("_buffer_lock.notify_all") or (call_name(c) or "").endswith("_buffer_lock.notify") for c in calls_in(m.node))]
    # is a notifier reachable from the local stop path?
    stop_path = [repo.method("ProtocolDispatcher", "stop", inherited=False), repo.method("HsmsProtocol", "_on_disconnected", inherited=False), repo.method("HsmsProtocol", "_on_disconnecting", inherited=False)]
    stop_calls = set()
    for f in stop_path:
        for c in calls_in(f.node):
            cn = call_name(c) or ""
            if cn.startswith("self._receive_buffer."):
                stop_calls.add(cn.split(".")[-1])
    woken_by_stop = bool(set(notifiers) & stop_calls)
    for fname in ("_process_received_data",):
        f = repo.method("HsmsProtocol", fname, inherited=False)
        ctx.touch(f)
        q = f.qualname
        from .. import normal

        cfg = cfg_of(normal.normalised(ctx, f))  # a local alias of the buffer is still the buffer
        n_sites = 0
        for n in cfg.real_nodes():
            for c in n.calls:
                cn = call_name(c) or ""
                if cn not in ("self._receive_buffer.wait_for", "self._receive_buffer.wait_for_byte"):
                    continue
                n_sites += 1
                size = c.args[0] if c.args else None
                nonblocking = False
                if size is not None and isinstance(size, ast.Constant):
                    # a dominating `at least size bytes are buffered` (any spelling) makes the wait return at once
                    for t, pol in cnd.facts(cfg, n):
                        m = re.match(r"^len\(self\._receive_buffer\) < (\d+)$", t)
                        if m and not pol and int(m.group(1)) >= size.value:
                            nonblocking = True
                is_peek = any(k.arg == "peek" and isinstance(k.value, ast.Constant) and k.value.value is True for k in c.keywords) or (len(c.args) > 1 and isinstance(c.args[1], ast.Constant) and c.args[1].value is True)
                ok = nonblocking or not unbounded or woken_by_stop
                ctx.ob("C09.W1", q, ok,
                       (f"`{norm(c)}` cannot block: a dominating test guarantees the bytes are there" if nonblocking else f"`{norm(c)}` is bounded or woken by the stop path") if ok else
                       f"`{norm(c)}` blocks without bound on the thread that also serves the send queue and is joined by stop(); its only waker is ByteQueue.{'/'.join(notifiers)} "
                       "(peer bytes) - when the peer closes inside a frame, the Separate.req queued by _on_disconnecting is never sent, BlockSendInfo.wait() never returns and the close sequence never finishes",
                       key=("peek " if is_peek else "consume ") + ("constant-size" if isinstance(size, ast.Constant) else "frame-size"), where=f.where, notifiers=notifiers, stop_path_calls=sorted(stop_calls))
        if n_sites == 0:
            ctx.ob("C09.W1", q, True, "the framing loop contains no blocking ByteQueue wait", key="no-blocking-wait", where=f.where)


def check_bytequeue_wait(ctx, rule):
    repo = ctx.repo
    bq = repo.cls("ByteQueue")
    wf = bq.methods["wait_for"]
    ctx.touch(wf)
    # the wait itself: predicate loop under the condition (a spurious or early wake-up must re-check)
    pred_loop = any((call_name(c) or "").endswith("_buffer_lock.wait_for") for c in calls_in(wf.node))
    in_with = False
    for st in walk_no_nested(wf.node):
        if isinstance(st, ast.With) and any(dotted(i.context_expr) == "self._buffer_lock" for i in st.items):
            if any((call_name(c) or "").startswith("self._buffer_lock.wait") for c in calls_in(st)):
                in_with = True
    if not pred_loop:
        # `while len < size: cond.wait()` is the equivalent idiom
        for st in walk_no_nested(wf.node):
            if isinstance(st, ast.While) and any((call_name(c) or "").endswith("_buffer_lock.wait") for c in calls_in(st)):
                pred_loop = "len(self._buffer)" in norm(st.test)
    ctx.ob(rule, wf.qualname, pred_loop and in_with, "the wait re-checks its size predicate under the condition" if (pred_loop and in_with) else
           "ByteQueue.wait_for waits once without re-checking the predicate: the first chunk of a frame wakes the reader with too few bytes", key="predicate-loop", where=wf.where)
    ap = bq.methods["append"]
    ok = False
    for st in rules.func_stmts(normal.normalised(ctx, ap)):  # a local for the condition is the condition
        if isinstance(st, ast.With) and any(dotted(i.context_expr) == "self._buffer_lock" for i in st.items):
            names = [call_name(c) or "" for c in calls_in(st)]
            ok = "self._buffer.extend" in names and any(x.startswith("self._buffer_lock.notify") for x in names)
    ctx.ob(rule, ap.qualname, ok, "append extends the buffer and notifies under the same condition" if ok else "append does not extend+notify under the condition: a blocked reader is not woken by new bytes", where=ap.where)


def _unbounded_waiters(repo, cname, thread_func) -> list:
    """Spin waits in the class cone on a flag this thread function answers that do not also end with the thread."""
    out = []
    for c in repo.cls(cname).mro:
        for m in c.methods.values():
            node, _ = normal.normalise(repo, m, aliases=False, comps=False, ifexp=False)
            for loop, flag, cont_val in spin_loops(node):
                if cont_val and liveness_bound(loop.test) is None and (assigns_flag(thread_func, flag, False, repo) or _reads_flag(thread_func, flag, repo)):
                    out.append((m.qualname, flag))
    return out


def check_definite_assignment(ctx):
    repo = ctx.repo
    for cname, mname in (("TcpServerConnection", "__server_thread"), ("TcpClientConnection", "__connect_thread"), ("TcpClientConnection", "__connect"), ("TcpConnection", "__receiver_thread_read_data")):
        f = repo.method(cname, mname, inherited=False)
        ctx.touch(f)
        cfg = cfg_of(f.node)
        for var in sorted(local_names(f.node)):
            if var == "_":
                continue
            bad = possibly_undefined(cfg, f.node, var)
            if bad and not _unbounded_waiters(repo, cname, f):
                # the thread ends on the UnboundLocalError, but every wait for it in this class also ends with the thread
                ctx.ob("C09.D1", f.qualname, True, f"local `{var}` can be unbound when the guarded statement raises; the thread then ends, and no wait in {cname} depends on it staying alive", key="unbound " + var, where=f.where)
                continue
            ctx.ob("C09.D1", f.qualname, not bad, f"local `{var}` is assigned before every read" if not bad else
                   f"local `{var}` can be read before assignment at `{bad[0].text()}` (when the guarded statement raises on the first pass): UnboundLocalError ends the thread with its stop flag still set, and disable() spins for ever",
                   key="unbound " + var, where=f.where)


def check_idle(ctx):
    """TcpClientConnection.__idle must look at the stop flag at least once, whatever the timeout."""
    repo = ctx.repo
    f = repo.method("TcpClientConnection", "__idle", inherited=False)
    ctx.touch(f)
    cfg = cfg_of(f.node)
    tests = [n for n in cfg.nodes if n.kind == "test" and "stop_connection_thread" in norm(n.ast)]
    # the flag disable() raises and waits on is examined - and lowered again - by the waiting thread
    resets = [n for n in cfg.real_nodes() if isinstance(n.ast, ast.Assign) and any(dotted(t) == "self.stop_connection_thread" for t in n.ast.targets) and rules.literal(f.node, n.ast.value) == (True, False)]
    ok = bool(tests) and bool(resets)
    ctx.ob("C09.W2", f.qualname, ok, "__idle examines the stop flag and lowers it when it was raised" if ok else
           "__idle does not test and lower self.stop_connection_thread: disable() raises that flag and waits until the connect thread lowers it - it waits for ever", key="idle-handshake", where=f.where)
    if not tests:
        return
    skip = cfg.path_exists(cfg.entry, cfg.exit, avoid=tests, no_exc=True)
    ctx.ob("C09.W2", f.qualname, not skip, "__idle examines the stop flag on every path" if not skip else
           "__idle can return True without ever examining the stop flag (range(int(t5) * 5) is empty for t5 < 1): a connect loop with a short T5 never sees disable()", key="idle-skips-flag", where=f.where)


def check_idle_and_disable(ctx):
    """The stop-flag handshake seen from both ends: __idle answers False exactly for a stop request and True for an elapsed
    wait; disable() lowers the enabled flag, raises the stop flag only for a live thread and always disconnects."""
    repo = ctx.repo
    f = repo.method("TcpClientConnection", "__idle", inherited=False)
    cfg = cfg_of(f.node)
    flag = "self.stop_connection_thread"
    for r in [n for n in cfg.real_nodes() if isinstance(n.ast, ast.Return)]:
        known, val = rules.literal(f.node, r.ast.value) if r.ast.value is not None else (True, None)
        fs = cnd.facts(cfg, r)
        stop = (flag, True) in fs
        ok = known and (val is False if stop else val is True) and not ((flag, False) in fs and val is False)
        ctx.ob("C09.W2", f.qualname, ok, ("a stop request ends the wait with False" if stop else "an elapsed wait answers True") if ok else
               f"__idle returns `{norm(r.ast.value) if r.ast.value is not None else None}` under {cnd.show(fs) or 'no condition'}: "
               + ("a stop request is not reported, the connect loop goes on after disable()" if stop else "an elapsed wait is reported as a stop request, the connect loop gives up after one attempt"),
               key=f"idle-value {'stop' if stop else 'elapsed'}", where=f.where)
    for cname, enabled, thread, stop_flag in (("TcpClientConnection", "self.enabled", "self.connection_thread", "self.stop_connection_thread"),
                                              ("TcpServerConnection", "self._enabled", "self._server_thread", "self._stop_server_thread")):
        # the flags start lowered: an endpoint that is born "enabled" ignores enable(), one born with a stop request ends
        # its first listener / connect thread at once
        ini = repo.method(cname, "__init__", inherited=False)
        ctx.touch(ini)
        for fl in (enabled, stop_flag):
            sts = [st for st in rules.func_stmts(ini.node) if isinstance(st, (ast.Assign, ast.AnnAssign)) and any(dotted(t) == fl for t in (st.targets if isinstance(st, ast.Assign) else [st.target]))]
            ok = len(sts) == 1 and sts[0].value is not None and rules.literal(ini.node, sts[0].value) == (True, False)
            ctx.ob("C09.W2", ini.qualname, ok, f"{fl} starts lowered" if ok else f"{fl} is not initialised to False in the constructor: enable() does nothing / the first thread sees a stop request", key="initial " + fl, where=ini.where)
        d = repo.method(cname, "disable", inherited=False)
        ctx.touch(d)
        q = d.qualname
        dn = inline.expanded(ctx, d, keep={"disconnect"})
        cfg = cfg_of(dn)
        lowers = [n for n in cfg.real_nodes() if isinstance(n.ast, ast.Assign) and any(dotted(t) == enabled for t in n.ast.targets)]
        ok = len(lowers) == 1 and rules.literal(dn, lowers[0].ast.value) == (True, False) and cnd.facts(cfg, lowers[0]) == {(enabled, True)}
        ctx.ob("C09.W2", q, ok, "disable() of an enabled connection lowers the enabled flag" if ok else
               "disable() does not lower the enabled flag exactly when it was raised: the link is re-armed after the close (or an enabled connection is never disabled)", key="lowers-enabled", where=d.where)
        disc = _nodes_calling(cfg, lambda x: x == "self.disconnect")
        ok = bool(disc) and bool(lowers) and not cfg.path_exists(lowers[0], cfg.exit, avoid=disc, no_exc=True)
        ctx.ob("C09.W2", q, ok, "disable() always closes the open link" if ok else "there is a path through disable() of an enabled connection that does not call disconnect(): the link stays up, NOT CONNECTED is never reported", key="disconnects", where=d.where)
        raises = [n for n in cfg.real_nodes() if isinstance(n.ast, ast.Assign) and any(dotted(t) == stop_flag for t in n.ast.targets) and rules.literal(dn, n.ast.value) != (True, False)]
        ok = len(raises) == 1 and rules.literal(dn, raises[0].ast.value) == (True, True) and (f"{thread}.is_alive()", True) in cnd.facts(cfg, raises[0])
        ctx.ob("C09.W2", q, ok, "the stop flag is raised exactly for a live thread" if ok else
               f"{stop_flag} is not raised (to True) under `{thread}.is_alive()`: without a live thread nobody lowers it again and disable() spins for ever; with one that is not told to stop, connecting goes on after disable()", key="raises-stop-for-live-thread", where=d.where)


def check_socket_lifecycle(ctx):
    """The socket objects are created before they are used, and the listening socket is bound and listening before the
    accept loop."""
    repo = ctx.repo
    c = repo.method("TcpClientConnection", "__connect", inherited=False)
    cfg = cfg_of(c.node)
    made = [n for n in cfg.real_nodes() if isinstance(n.ast, ast.Assign) and any(dotted(t) == "self._sock" for t in n.ast.targets) and isinstance(n.ast.value, ast.Call) and call_name(n.ast.value) == "socket.socket"]
    uses = [n for n in cfg.real_nodes() if any(x.startswith("self._socket.") or x.startswith("self._sock.") for x in n.call_names())]
    ok = len(made) == 1 and bool(uses) and all(cfg.dominates(made[0], u) for u in uses)
    ctx.ob("C09.P4", c.qualname, ok, "every attempt creates a fresh socket before anything is done with it" if ok else
           "the socket is used before this attempt created it: the first attempt fails with 'not connected', later ones configure the closed socket of the previous link", key="fresh-socket", where=c.where)
    sfn = repo.method("TcpServerConnection", "__server_thread", inherited=False)
    cfg = cfg_of(inline.expanded(ctx, sfn, keep={"_start_receiver"}))
    made = [n for n in cfg.real_nodes() if isinstance(n.ast, ast.Assign) and any(dotted(t) == "self._server_sock" for t in n.ast.targets) and isinstance(n.ast.value, ast.Call) and call_name(n.ast.value) == "socket.socket"]
    bind = _nodes_calling(cfg, lambda x: x == "self._server_sock.bind")
    listen = _nodes_calling(cfg, lambda x: x == "self._server_sock.listen")
    heads = [n for n in cfg.nodes if n.kind == "test" and n.label == "while"]
    ok = len(made) == 1 and len(bind) == 1 and len(listen) == 1 and bool(heads) and cfg.dominates(made[0], bind[0]) and cfg.dominates(bind[0], listen[0]) and cfg.dominates(listen[0], heads[0])
    ctx.ob("C09.P4", sfn.qualname, ok, "the listening socket is created, bound and listening before the accept loop" if ok else
           "the accept loop is entered without socket -> bind -> listen: no peer can connect", key="bind-listen", where=sfn.where)
    reuse = [n for n in cfg.real_nodes() if any(call_name(k) == "self._server_sock.setsockopt" and any("SO_REUSEADDR" in norm(a) for a in k.args) for k in n.calls)]
    if reuse and bind:
        ok = all(cfg.path_exists(r, bind[0]) and not cfg.path_exists(bind[0], r) for r in reuse)
        ctx.ob("C09.P4", sfn.qualname, ok, "SO_REUSEADDR is set before the port is bound" if ok else
               "SO_REUSEADDR is set after bind(): it has no effect on that bind, so re-enabling while the old connection is in TIME_WAIT fails with EADDRINUSE and nothing listens any more", key="reuseaddr-before-bind", where=sfn.where)
    if bind:
        bc = next(k for k in bind[0].calls if call_name(k) == "self._server_sock.bind")
        ok = bool(bc.args) and norm(bc.args[0]) == "(self._settings.address, self._settings.port)"
        ctx.ob("C09.P4", sfn.qualname, ok, "it is bound to the configured address and port" if ok else f"it is bound to `{norm(bc.args[0]) if bc.args else ''}`", key="bind-address", where=sfn.where)
    acc = [n for n in cfg.real_nodes() if isinstance(n.ast, ast.Assign) and any("self._sock" == norm(x) for x in ast.walk(n.ast.targets[0]) if isinstance(x, ast.Attribute))]
    uses = [n for n in cfg.real_nodes() if any(x.startswith("self._socket.") for x in n.call_names())] + _nodes_calling(cfg, lambda x: x == "self._start_receiver")
    ok = len(acc) == 1 and all(cfg.dominates(acc[0], u) for u in uses)
    ctx.ob("C09.P4", sfn.qualname, ok, "the accepted socket is stored before it is configured and served" if ok else "the accepted socket is configured / served before it is stored", key="accepted-socket-first", where=sfn.where)


def check_read_suspension(ctx, rule="C09.P5"):
    """The socket reader stands still while `_disconnecting` is raised (so that the close sequence can write its
    Separate.req undisturbed).  Raising and lowering are paired: every normal path from a store of True to the end of the
    method passes a store of False - otherwise one disable() without a live connection stops all later reading, and the
    next connection's Select.req is never answered."""
    repo = ctx.repo
    cls = repo.cls("TcpConnection")
    flag = "self._disconnecting"
    n = 0
    readers = [f for f in cls.methods.values() if any(isinstance(t, (ast.If, ast.While)) and any(dotted(a) == flag for a in ast.walk(t.test) if isinstance(a, ast.Attribute)) for t in ast.walk(f.node))]
    ctx.require(readers, "TcpConnection: no method tests self._disconnecting - the read-suspension rule has lost its anchor")
    for f in cls.methods.values():
        fn = normal.normalised(ctx, f, aliases=False, comps=False, ifexp=False)
        cfg = cfg_of(fn)
        ups = [x for x in cfg.real_nodes() if isinstance(x.ast, ast.Assign) and any(dotted(t) == flag for t in x.ast.targets) and rules.literal(fn, x.ast.value) == (True, True)]
        downs = [x for x in cfg.real_nodes() if isinstance(x.ast, ast.Assign) and any(dotted(t) == flag for t in x.ast.targets) and rules.literal(fn, x.ast.value) == (True, False)]
        if not ups or f.name == "__init__":
            continue
        n += 1
        ctx.touch(f)
        stuck = [u for u in ups if cfg.path_exists(u, cfg.exit, avoid=downs, no_exc=True)]
        ctx.ob(rule, f.qualname, not stuck, f"{f.name}() lowers {flag} again on every path on which it raised it" if not stuck else
               f"`{stuck[0].text()}` in {f.name}() is followed by a return without `{flag} = False`: the reader thread of every later connection skips its reads - nothing the peer sends is ever answered",
               key="suspension-paired", where=f.where)
    ctx.floor("methods that suspend the reader", n, 1)


def _starts_accepting(fn, starters, accepting) -> bool:
    """The (expanded) function starts a thread whose target accepts connections, directly or through a starter method."""
    for k in calls_in(fn):
        cn = call_name(k) or ""
        if cn.split(".")[-1] in starters:
            return True
        if cn == "threading.Thread":
            tgt = next((x.value for x in k.keywords if x.arg == "target"), None)
            if tgt is not None and dotted(tgt) in {f"self.{a}" for a in accepting}:
                return True
    return False


def check_rearm_order(ctx):
    """C09.P6: a passive endpoint listens again only when the old link's handling is complete.  The connection's
    `on_disconnected` callbacks run in registration order on the old receiver thread, which lowers its own flags only
    afterwards; a callback registered in the connection's constructor therefore runs before every callback the protocol
    registers later.  If that first callback starts the accepting thread, a peer that reconnects at once is accepted while
    the protocol still resets the session for the old link - the new link ends up NOT CONNECTED and unanswered."""
    repo = ctx.repo
    cls = repo.cls("TcpServerConnection")
    init = cls.methods.get("__init__")
    ctx.require(init is not None, "TcpServerConnection.__init__ not found")
    ctx.touch(init)
    targets = thread_targets(repo, cls)
    accepting = {name for name, f in targets.items() if any((call_name(c) or "").endswith(".accept") for c in calls_in(f.node))}
    ctx.require(accepting, "TcpServerConnection: no thread function that accepts connections - the re-arm rule has lost its anchor")
    starters = {m.name for m in cls.methods.values() if any((call_name(c) or "") == "threading.Thread" and dotted(next((k.value for k in c.keywords if k.arg == "target"), None) or ast.Constant(value=None)) in {f"self.{a}" for a in accepting}
                                                          for c in calls_in(m.node))}
    early = []
    for c in calls_in(init.node):
        if (call_name(c) or "") == "self.on_disconnected.register" and c.args:
            h = dotted(c.args[0]) or ""
            hm = cls.find_method(h.split(".", 1)[1]) if h.startswith("self.") else None
            if hm is not None and _starts_accepting(inline.expanded(ctx, hm), starters, accepting):
                early.append(hm)
    for st in rules.func_stmts(init.node):
        if isinstance(st, ast.AugAssign) and dotted(st.target) == "self.on_disconnected" and (dotted(st.value) or "").startswith("self."):
            hm = cls.find_method(dotted(st.value).split(".", 1)[1])
            if hm is not None and _starts_accepting(inline.expanded(ctx, hm), starters, accepting):
                early.append(hm)
    rt = repo.method("TcpConnection", "__receiver_thread", inherited=False)
    ctx.touch(rt)
    rfn = inline.expanded(ctx, rt)  # the notifications may sit in private helpers
    rcfg = cfg_of(rfn)
    fire = [n for n in rcfg.real_nodes() if any(c == "self.on_disconnected" for c in n.call_names())]
    resets = [n for n in rcfg.real_nodes() if isinstance(n.ast, ast.Assign) and any(dotted(t) in ("self._connected", "self._thread_running") for t in n.ast.targets)
              and rules.literal(rfn, n.ast.value) == (True, False)]
    ctx.require(fire, "TcpConnection.__receiver_thread: the on_disconnected notification was not found")
    resets_after = [r for r in resets if any(rcfg.path_exists(f, r) for f in fire)]
    bad = bool(early) and bool(resets_after)
    ctx.ob("C09.P6", "TcpServerConnection.__init__", not bad, "the accepting thread is not restarted before the old link's handling is complete" if not bad else
           f"`{early[0].name}` is registered on on_disconnected in the constructor - ahead of every callback of the protocol - and restarts the accepting thread, while {rt.qualname} lowers "
           f"`{resets_after[0].text()}` only after the callbacks: a peer that reconnects at once is accepted during the old link's disconnect handling, which then resets the session under the new link",
           key="rearm-before-reset", where=init.where)


def run(ctx):
    check_read_suspension(ctx)
    check_rearm_order(ctx)
    check_on_disconnected(ctx)
    check_close_sequence(ctx)
    check_read_loop(ctx)
    check_link_taken_into_service(ctx)
    check_blocking_waits(ctx)
    check_spin_handshakes(ctx)
    # a socket error while sending is reported to the sender (resolve False), not raised past it: the Separate.req of the
    # disconnect handling is such a send, and its sender waits without timeout (rules shared with C10.P2)
    from . import c10

    sub = type(ctx)(ctx.prop, ctx.tier, ctx.seed, ctx.repo)
    c10.check_all_send_data(sub)
    c10.check_helper(sub)
    for o in sub.obligations:
        if o["rule"] == "C10.P2":
            o = dict(o)
            o["rule"] = "C09.W1"
            ctx.obligations.append(o)
    for kind in ("files", "functions"):
        ctx.analysed[kind] |= sub.analysed[kind]
    check_idle(ctx)
    check_idle_and_disable(ctx)
    check_socket_lifecycle(ctx)
    check_definite_assignment(ctx)
    check_dispatcher(ctx, "C09.W3", wakeups=True, consumers=False, threads=("receiver",))
    # a reader blocked in the byte queue is released as soon as the bytes it asked for are there (`>=`, not `>`): otherwise a
    # complete last frame keeps the receive thread in the framing loop and the close sequence behind it (byte-queue group)
    from .c04 import check_byte_queue

    check_byte_queue(ctx, "C09.W1")
    # the linktest timer armed on entering CONNECTED is cancelled on leaving it, whichever sub-state the link was lost in: a
    # timer that survives the link queues a Linktest.req for a connection that is gone and parks a thread in send_message,
    # and the stale block is the first thing written on the next connection (wiring rules of C05.P5)
    from .. import report
    from .c05 import check_wiring

    report.share(ctx, "C09.W1", check_wiring)
