"""C18 - the state-machine engine keeps one consistent current state."""

from __future__ import annotations

import ast
import copy

from ..cfg import cfg_of
from ..model import AnalysisError, call_name, calls_in, dotted, norm, walk_no_nested
from .. import machines, normal, rules
from .. import conds as cnd

MACHINES = ["ConnectionStateMachine", "CommunicationStateMachine", "ControlStateMachine"]
EXPECTED_TRANSITIONS = {"ConnectionStateMachine": 5, "CommunicationStateMachine": 9, "ControlStateMachine": 17}

META = {
    "explanation": "Path rules on StateMachine._perform_transition / transition and State.enter / leave (source check "
    "dominates every effect, one write of the current state with the transition's destination, order leave -> write -> "
    "enter -> called, active flag set before enter handlers run), plus table rules on the three shipped machine "
    "declarations (unique names, declared states, lock-step parent walk = true LCA walk for every declared transition) "
    "and a lock rule for the check-then-act.",
    "decides": [
        "C18.P1 _perform_transition: unknown name raises; wrong source raises before any effect; exactly one write of the current state = transition.destination; order and exactly-once of leave/enter/called",
        "C18.O1 State.enter/leave: the active flag of the step is written before enter handlers run (they re-enter the engine), True in enter / False in leave on every path, one fire per call with the right event, symmetric parent propagation",
        "C18.T1 shipped machines: unique state/transition names, one initial state = initial current state, transitions reference declared states, every wrapper performs a declared transition, lock-step walk coincides with the LCA walk for all 5+9+17 transitions",
        "C18.O2 the whole ancestor walk of enter / leave, evaluated on an abstract forest with composites of depth 1 and 2: exactly the states below the nearest state strictly above both are left / entered (equal depth and composite / own substate: hold; different depth: known finding)",
        "C18.L1 the check-then-act in _perform_transition is under one lock although it is entered from timer threads and caller threads",
        "C18.E1 Event/EventProducer: every fire dispatches to every registered callback exactly once (no re-entrancy guard drops nested events)",
    ],
    "does_not_decide": ["machine definitions deeper than the abstract forest of C18.O2 (two roots, composites of depth 1 and 2)", "actual interleavings of two concurrent triggers"],
    "assumptions": ["EventProducer.fire calls the registered handlers synchronously (checked in C18.O1 only as far as State uses events.fire)"],
}


def _calls_named(node, suffix):
    return [c for c in node.calls if (call_name(c) or "").endswith(suffix)]


def check_transition_lookup(ctx):
    f = ctx.repo.method("StateMachine", "transition", inherited=False)
    ctx.touch(f)
    fn = f.node
    param = fn.args.args[1].arg
    # the lookup must compare the transition's name with the requested name
    cmp_ok = False
    for n in walk_no_nested(fn):
        if isinstance(n, ast.Compare) and len(n.ops) == 1 and isinstance(n.ops[0], ast.Eq):
            sides = {norm(n.left), norm(n.comparators[0])}
            if param in sides and any(s.endswith(".name") for s in sides):
                cmp_ok = True
    ctx.ob("C18.P1", f.qualname, cmp_ok, "the transition is looked up by equality of its name with the requested name" if cmp_ok else
           "the lookup does not compare transition.name with the requested name", key="lookup", where=f.where)
    cfg = cfg_of(fn)
    raises = [n for n in cfg.real_nodes() if isinstance(n.ast, ast.Raise) and "UnknownTransitionError" in norm(n.ast)]
    rets = [n for n in cfg.real_nodes() if isinstance(n.ast, ast.Return)]

    def found(r):
        """The facts at a return say that a transition was found: a name match, or the looked-up value is not None."""
        fs = cnd.facts(cfg, r)
        return any((t.endswith(" is None") and not pol) or (" == " in t and param in t.split(" == ") and ".name" in t and pol) for t, pol in fs)

    guarded = bool(raises) and bool(rets) and all(found(r) for r in rets) and not cfg.path_exists(cfg.entry, cfg.exit, avoid=rets, no_exc=True) and all(cfg.path_exists(cfg.entry, r) for r in raises)
    ctx.ob("C18.P1", f.qualname, guarded, "an unknown transition name raises UnknownTransitionError" if guarded else
           "no raise of UnknownTransitionError when the lookup finds nothing: an unknown request would be silently accepted or crash later",
           key="unknown-raises", where=f.where)
    # every normal return returns the looked-up value (not a default transition)
    ok = all(not cfg.path_exists(cfg.entry, r, avoid=[n for n in cfg.nodes if n.kind == "test"]) for r in rets) and bool(rets)
    ctx.ob("C18.P1", f.qualname, ok, "the found transition is returned only after the found/not-found test" if ok else "a return bypasses the not-found test",
           key="return-after-test", where=f.where)


def check_perform(ctx):
    f = ctx.repo.method("StateMachine", "_perform_transition", inherited=False)
    ctx.touch(f)
    fn = normal.normalised(ctx, f)
    q = f.qualname
    cfg = cfg_of(fn)
    # variable holding the transition
    tvar = None
    lookup_node = None
    for n in cfg.real_nodes():
        if isinstance(n.ast, ast.Assign) and isinstance(n.ast.value, ast.Call) and (call_name(n.ast.value) or "") == "self.transition":
            tvar = n.ast.targets[0].id if isinstance(n.ast.targets[0], ast.Name) else None
            lookup_node = n
    ctx.require(tvar is not None, f"{q}: the transition lookup `x = self.transition(name)` was not found")
    # source test
    src_tests = []
    for n in cfg.nodes:
        if n.kind == "test" and isinstance(n.ast, ast.Compare) and len(n.ast.ops) == 1 and isinstance(n.ast.ops[0], (ast.In, ast.NotIn)):
            if norm(n.ast.left) == "self._current_state" and norm(n.ast.comparators[0]) == f"{tvar}.sources":
                src_tests.append(n)
    ok = len(src_tests) == 1
    ctx.ob("C18.P1", q, ok, "the current state is tested for membership in transition.sources" if ok else
           "no test `self._current_state in transition.sources` found: a request from a wrong source state is not refused", key="source-test", where=f.where)
    if not ok:
        return
    T = src_tests[0]
    allowed = rules.branch_marker(T, "true" if isinstance(T.ast.ops[0], ast.In) else "false")
    refused = rules.branch_marker(T, "false" if isinstance(T.ast.ops[0], ast.In) else "true")
    # refused branch raises WrongSourceStateError on every path and has no effect
    def is_effect(n):
        if isinstance(n.ast, (ast.Assign, ast.AugAssign)) and any((dotted(t) or "").startswith("self.") for t in rules.assigned_targets(n.ast)):
            return True
        for c in n.call_names():
            if c.endswith(".leave") or c.endswith(".enter") or c == tvar or c.endswith(".fire"):
                return True
        return False

    effects = [n for n in cfg.real_nodes() if is_effect(n)]
    ctx.require(len(effects) >= 4, f"{q}: fewer than 4 effect statements found ({[e.text() for e in effects]})")
    bad = [e for e in effects if not cfg.dominates(allowed, e)]
    ctx.ob("C18.P1", q, not bad, "every effect (leave, state write, enter, called) is dominated by the allowed-source branch" if not bad else
           f"`{bad[0].text()}` can execute although the current state is not an allowed source", key="effects-guarded", where=f.where)
    reach_exit = cfg.path_exists(refused, cfg.exit)
    raises = [n for n in cfg.real_nodes() if isinstance(n.ast, ast.Raise) and cfg.dominates(refused, n) and "WrongSourceStateError" in norm(n.ast)]
    ctx.ob("C18.P1", q, (not reach_exit) and bool(raises), "a request from a wrong source state raises WrongSourceStateError on every path" if (not reach_exit and raises) else
           "the refused branch can return normally (the request is silently ignored or performed)", key="refused-raises", where=f.where)
    # exactly one write of _current_state, value transition.destination
    writes = [n for n in cfg.real_nodes() if isinstance(n.ast, (ast.Assign, ast.AugAssign, ast.AnnAssign)) and any(dotted(t) == "self._current_state" for t in rules.assigned_targets(n.ast))]
    ok = len(writes) == 1 and norm(writes[0].ast.value) == f"{tvar}.destination"
    ctx.ob("C18.P1", q, ok, "the current state is written once, with transition.destination" if ok else
           f"writes of the current state: {[w.text() for w in writes]} (expected exactly one: = {tvar}.destination)", key="one-write", where=f.where)
    if len(writes) != 1:
        return
    W = writes[0]
    # old state variable
    old_vars = set()
    for n in cfg.real_nodes():
        if isinstance(n.ast, ast.Assign) and norm(n.ast.value) == "self._current_state" and cfg.dominates(n, W):
            old_vars |= {t.id for t in n.ast.targets if isinstance(t, ast.Name)}
    leave = [n for n in cfg.real_nodes() if any(c.endswith(".leave") for c in n.call_names())]
    enter = [n for n in cfg.real_nodes() if any(c.endswith(".enter") for c in n.call_names())]
    called = [n for n in cfg.real_nodes() if any(isinstance(c.func, ast.Name) and c.func.id == tvar for c in n.calls)]
    for label, nodes in (("leave", leave), ("enter", enter), ("called", called)):
        mn_mx = cfg.count_on_paths(lambda n, nodes=nodes: n in nodes, allowed, cfg.exit, no_exc=True)
        ok = mn_mx == (1, 1)
        ctx.ob("C18.P1", q, ok, f"{label} happens exactly once on every allowed path" if ok else f"{label} happens {mn_mx} times on allowed paths (must be exactly once)",
               key=f"once-{label}", where=f.where)
    if leave and enter and called:
        L, E, C = leave[0], enter[0], called[0]
        order_ok = cfg.dominates(L, W) and cfg.dominates(W, E) and cfg.dominates(E, C)
        ctx.ob("C18.P1", q, order_ok, "order is leave(old) -> write current -> enter(new) -> called" if order_ok else
               f"order of effects is not leave -> write -> enter -> called (lines {L.lineno}, {W.lineno}, {E.lineno}, {C.lineno})", key="order", where=f.where)
        lcall = _calls_named(L, ".leave")[0]
        ecall = _calls_named(E, ".enter")[0]
        recv_ok = norm(lcall.func.value) in ({"self._current_state"} | old_vars) and len(lcall.args) == 1 and norm(lcall.args[0]) == f"{tvar}.destination"
        ctx.ob("C18.P1", q, recv_ok, "leave is invoked on the state being left with the destination as argument" if recv_ok else
               f"`{norm(lcall)}`: leave must be invoked on the old current state with transition.destination", key="leave-args", where=f.where)
        erecv = norm(ecall.func.value)
        earg = norm(ecall.args[0]) if ecall.args else ""
        e_ok = erecv in (f"{tvar}.destination", "self._current_state") and earg in old_vars
        ctx.ob("C18.P1", q, e_ok, "enter is invoked on the destination with the old state as argument" if e_ok else
               f"`{norm(ecall)}`: enter must be invoked on transition.destination with the state that was left", key="enter-args", where=f.where)
    # lock rule
    in_with = _enclosing_with_lock(fn, T.ast)
    ctx.ob("C18.L1", q, in_with is not None,
           f"the check-then-act is inside `with {in_with}`" if in_with else
           "the source test and the write of the current state are not under a lock, although transitions are requested from timer threads, "
           "the dispatcher thread and user threads: two concurrent requests can both pass the test",
           key="lock", where=f.where)


def _enclosing_with_lock(fn, target):
    res = []

    def rec(n, stack):
        if n is target:
            res.extend(stack)
            return True
        for ch in ast.iter_child_nodes(n):
            if isinstance(ch, (ast.FunctionDef, ast.Lambda)) and ch is not fn:
                continue
            if rec(ch, stack + ([n] if isinstance(n, ast.With) else [])):
                return True
        return False

    rec(fn, [])
    for w in res:
        for item in w.items:
            d = dotted(item.context_expr) or ""
            if "lock" in d.lower():
                return d
    return None


def check_state_methods(ctx):
    repo = ctx.repo
    facts = {}
    walks = {}
    pending = {}
    for meth, flag, event in (("enter", True, "enter"), ("leave", False, "leave")):
        f = repo.method("State", meth, inherited=False)
        ctx.touch(f)
        fn = normal.normalised(ctx, f)
        q = f.qualname
        cfg = cfg_of(fn)
        fires = [n for n in cfg.real_nodes() if any(c.endswith("events.fire") or c.endswith("_event_producer.fire") for c in n.call_names())]
        writes = [n for n in cfg.real_nodes() if isinstance(n.ast, (ast.Assign, ast.AnnAssign)) and any(dotted(t) == "self._active" for t in rules.assigned_targets(n.ast))]
        cnt = cfg.count_on_paths(lambda n: n in fires, cfg.entry, cfg.exit, no_exc=True)
        ok = cnt == (1, 1)
        ctx.ob("C18.O1", q, ok, f"exactly one events.fire per {meth}() call" if ok else f"{meth}() fires {cnt} times per call (must be exactly once)", key="one-fire", where=f.where)
        for n in fires:
            call = next(c for c in n.calls if (call_name(c) or "").endswith(".fire"))
            ev = call.args[0].value if call.args and isinstance(call.args[0], ast.Constant) else None
            ctx.ob("C18.O1", q, ev == event, f"{meth}() fires the '{event}' event" if ev == event else f"{meth}() fires '{ev}' instead of '{event}'", key="event-name", where=f.where)
        wcnt = cfg.count_on_paths(lambda n: n in writes, cfg.entry, cfg.exit, no_exc=True)
        vals = {norm(w.ast.value) for w in writes}
        ok = wcnt[0] is not None and wcnt[0] >= 1 and vals == {str(flag)}
        ctx.ob("C18.O1", q, ok, f"{meth}() sets the active flag to {flag} on every path" if ok else
               f"{meth}() writes the active flag {wcnt} times with values {sorted(vals)} (must be {flag} on every path)", key="flag-value", where=f.where)
        if meth == "enter" and fires and writes:
            # enter handlers re-enter the engine (see check_reentrancy): the flag of this step must be set before they run
            ok = all(any(cfg.dominates(w, fi) for w in writes) for fi in fires)
            ctx.ob("C18.O1", q, ok, "the active flag is set before the enter handlers run" if ok else
                   "the enter handlers run before the active flag is set: a handler that performs a further transition leaves this state, "
                   "and the flag is set to True afterwards although the state is no longer current",
                   key="flag-before-fire", where=f.where)
        # parent propagation statement
        param = fn.args.args[1].arg
        props = [n for n in cfg.real_nodes() if any(c == f"self.parent.{meth}" or c == f"self._parent.{meth}" for c in n.call_names())]
        ok = len(props) >= 1
        ctx.ob("C18.O1", q, ok, "the parent is propagated to" if ok else "no parent propagation call", key="propagate", where=f.where)
        if ok:
            # the decision to propagate is a function of the tree alone (own parent, the other state and its parent): a guard
            # that reads anything an event handler can change (the active flag, ...) makes the walk depend on what the
            # handlers of this very step did
            helpers_ = _pure_state_helpers(repo)
            foreign = sorted({norm(a) for n_ in props for t_, _v in cfg.dominating_conditions(n_) for a in ast.walk(t_)
                              if isinstance(a, ast.Attribute) and isinstance(a.value, ast.Name) and a.value.id == "self" and a.attr not in ("parent", "_parent") and a.attr not in helpers_})
            ctx.ob("C18.O1", q, not foreign, f"{meth}(): parent propagation depends on the state tree only" if not foreign else
                   f"{meth}(): the parent is propagated to only under a test of {foreign}: a handler of this step that changes it (a nested transition) makes an ancestor stay inactive / active",
                   key="propagate-guard-state", where=f.where)
            if foreign:
                continue
            table = _propagation_table(cfg, props, meth, param, _pure_state_helpers(repo))
            facts[meth] = table
            walks[meth] = (cfg, props, param)
            pending[meth] = (q, table, f.where)
    # the whole walk first: if it is exact for equal and for different depths, the step rule below (which describes today's
    # lock-step protocol: compare the parents, pass the other state's parent on) has nothing left to say
    exact = False
    if "enter" in walks and "leave" in walks:
        exact = _check_ancestor_walk(ctx, walks, _pure_state_helpers(repo))
    for meth, (q, table, where_) in pending.items():
        ok = exact or (table is not None and all(v == "canonical" for v in table.values()))
        ctx.ob("C18.O1", q, ok, ("parent propagation: the whole ancestor walk is exact (C18.O2)" if exact else
                                  "parent propagation: ascend iff a parent exists and the other state is absent or has a different parent, passing the other state's parent (exactly one call)") if ok else
               f"parent propagation deviates from `if parent is not None and (OTHER is None or OTHER.parent != parent): parent.{meth}(OTHER.parent or None)`: {table}", key="propagation-cond", where=where_)
    if "enter" in facts and "leave" in facts:
        ok = exact or facts["enter"] == facts["leave"]
        ctx.ob("C18.O1", "State.enter/leave", ok, "enter and leave propagate to the parent under the same condition (siblings agree)" if ok else
               f"enter and leave disagree on parent propagation: {facts['enter']} vs {facts['leave']}", key="siblings", where="secsgem/common/state_machine.py")
    # active property returns the flag
    f = repo.method("State", "active", inherited=False)
    rets = [n for n in rules.func_stmts(f.node) if isinstance(n, ast.Return)]
    ok = len(rets) == 1 and norm(rets[0].value) == "self._active"
    ctx.ob("C18.O1", "State.active", ok, "State.active reports the flag" if ok else f"State.active returns {norm(rets[0].value) if rets else None}", where=f.where)
    init = repo.method("State", "__init__", inherited=False)
    init_ok = any(isinstance(s, ast.Assign) and any(dotted(t) == "self._active" for t in s.targets) and norm(s.value) == "initial" for s in rules.func_stmts(init.node))
    ctx.ob("C18.O1", "State.__init__", init_ok, "a state starts active iff it is declared initial" if init_ok else "the initial active flag is not the `initial` argument", where=init.where)


def _pure_state_helpers(repo):
    """Methods of State that only read: no store to an attribute or element, no call except to each other, isinstance and
    len.  They are interpreted on the abstract states like the guard expressions themselves (loops are fuel-limited)."""
    cls = repo.cls("State")
    pure = {}
    for name, f in cls.methods.items():
        node = f.node
        if name in ("__init__", "enter", "leave") or node.decorator_list:
            continue
        writes = any(isinstance(t, (ast.Attribute, ast.Subscript)) for x in ast.walk(node) if isinstance(x, (ast.Assign, ast.AugAssign, ast.AnnAssign, ast.Delete))
                     for t in (x.targets if isinstance(x, (ast.Assign, ast.Delete)) else [x.target]))
        if writes or any(isinstance(x, (ast.Global, ast.Nonlocal, ast.Yield, ast.Await, ast.Import, ast.ImportFrom)) for x in ast.walk(node)):
            continue
        pure[name] = f
    changed = True
    while changed:
        changed = False
        for name, f in list(pure.items()):
            for c in calls_in(f.node):
                cn = call_name(c) or ""
                if cn in ("isinstance", "len") or ("." in cn and cn.rsplit(".", 1)[1] in pure):
                    continue
                del pure[name]
                changed = True
                break
    fuel = [20000]

    def _fuel():
        fuel[0] -= 1
        if fuel[0] < 0:
            raise RuntimeError("helper loop does not end on the abstract states")
        return True

    out = {}
    for name, f in pure.items():
        node = copy.deepcopy(f.node)
        node.returns = None
        node.decorator_list = []
        for a in node.args.args + node.args.kwonlyargs:
            a.annotation = None
        for x in ast.walk(node):
            if isinstance(x, ast.While):
                x.test = ast.BoolOp(op=ast.And(), values=[ast.Call(func=ast.Name(id="_fuel", ctx=ast.Load()), args=[], keywords=[]), x.test])
        mod = ast.fix_missing_locations(ast.Module(body=[node], type_ignores=[]))
        ns = {"_fuel": _fuel}
        exec(compile(mod, f"<abstract {name}>", "exec"), ns)  # noqa: S102 - a read-only predicate, applied to abstract states only
        out[name] = ns[name]
    return out


def _check_ancestor_walk(ctx, walks, helpers):
    """The whole walk, not one step: on a small forest (two roots, composites of depth 1 and 2) the guards and arguments of
    the propagation calls are evaluated from the state left / entered upwards, for every ordered pair of states neither of
    which contains the other.  The states visited must be exactly the chain from the state up to, and excluding, the
    nearest common ancestor of the two.  Pure evaluation of the guard expressions on abstract states; no library code runs."""
    class S:
        def __init__(self, parent, label):
            self.parent = parent
            self._parent = parent
            self.label = label

    for name, fn in (helpers or {}).items():
        setattr(S, name, fn)
    a, p = S(None, "A"), S(None, "P")
    b, x, q = S(a, "B"), S(p, "X"), S(p, "Q")
    z, z2 = S(q, "Z"), S(q, "Z2")
    states = [a, b, p, x, q, z, z2]

    def chain(s):
        out = []
        while s is not None:
            out.append(s)
            s = s.parent
        return out

    def visited(meth, start, other):
        cfg, props, param = walks[meth]
        cur, arg, seen = start, other, []
        for _ in range(8):
            seen.append(cur.label)
            env = {"self": cur, param: arg}
            try:
                active = []
                for node in props:
                    if all(bool(eval(compile(ast.Expression(t), "<cond>", "eval"), {}, env)) == v for t, v in cfg.dominating_conditions(node)):  # noqa: S307 - abstract values only
                        call = next(c for c in node.calls if (call_name(c) or "").endswith(f"parent.{meth}"))
                        active.append(eval(compile(ast.Expression(call.args[0]), "<arg>", "eval"), {}, env))  # noqa: S307
            except Exception as exc:
                raise AnalysisError(f"State.{meth}: propagation guard not evaluable on the abstract states ({type(exc).__name__}: {exc})")
            if not active:
                return seen
            if len(active) > 1 or cur.parent is None:
                return seen + ["<more than one call / call on a missing parent>"]
            cur, arg = cur.parent, active[0]
        return seen + ["<does not end>"]

    bad = {"equal": [], "uneven": [], "related": []}
    n = 0
    for s in states:
        for d in states:
            if s is d:
                continue
            n += 1
            related = s in chain(d) or d in chain(s)
            # the nearest state strictly above both: a transition between a composite and one of its own substates leaves and
            # re-enters the composite (both endpoints are exited / entered themselves)
            common = next((k for k in chain(s)[1:] if k in chain(d)[1:]), None)
            left = [k.label for k in chain(s)[: chain(s).index(common)]] if common is not None else [k.label for k in chain(s)]
            entered = [k.label for k in chain(d)[: chain(d).index(common)]] if common is not None else [k.label for k in chain(d)]
            got_l, got_e = visited("leave", s, d), visited("enter", d, s)
            if got_l != left or got_e != entered:
                top = s if s in chain(d) else d
                # a composite that has a parent of its own and one of its substates are states of different depth below that parent
                kind = "related" if related and top.parent is None else ("equal" if len(chain(s)) == len(chain(d)) else "uneven")
                bad[kind].append(f"{s.label}->{d.label}: leaves {got_l} (exited: {left}), enters {got_e} (entered: {entered})")
    ctx.floor("state pairs walked on the abstract forest", n, 20)
    where = "secsgem/common/state_machine.py"
    ctx.ob("C18.O2", "State.enter/leave", not bad["equal"], "between states of equal depth exactly the states below the nearest common ancestor are left and entered" if not bad["equal"] else
           f"between states of equal depth the walk does not stop at the nearest common ancestor: {bad['equal'][:2]}", key="ancestor-walk equal depth", where=where)
    ctx.ob("C18.O2", "State.enter/leave", not bad["related"], "between a composite state and one of its own substates the composite is left and entered with them" if not bad["related"] else
           f"between a composite state and its own substate the walk is wrong: {bad['related'][:2]} (the composite is left by the transition and must be entered again, or the other way round)", key="ancestor-walk composite and substate", where=where)
    ctx.ob("C18.O2", "State.enter/leave", not bad["uneven"], "between states of different depth exactly the states below the nearest common ancestor are left and entered" if not bad["uneven"] else
           f"the two parent chains are climbed in lock step (the other state's parent is compared with this state's parent), which finds the common ancestor only for states of equal depth: {bad['uneven'][:2]} - a composite state that is not exited fires leave and enter",
           key="ancestor-walk uneven depth", where=where)
    return not bad["equal"] and not bad["uneven"] and not bad["related"]


def _propagation_table(cfg, props, meth, param, helpers=None):
    """Evaluate the guards and the argument of every propagation call over the finite abstraction
    (self.parent in {None, P}, OTHER in {None, state with parent P, state with parent Q, state without parent}) and
    compare with the canonical rule: exactly one call happens iff a parent exists and OTHER is absent or has another
    parent, and it passes OTHER's parent.  Pure expression evaluation on abstract values, no library code runs."""
    class S:  # abstract state
        def __init__(self, parent, label):
            self.parent = parent
            self._parent = parent
            self.label = label

    for name, fn in (helpers or {}).items():  # side-effect free predicates of State (e.g. an ancestry test) read the same abstract states
        setattr(S, name, fn)
    P, Q = S(None, "P"), S(None, "Q")
    table = {}
    for self_parent in (None, P):
        # P itself: a transition between a composite and its own child; a grandchild of P: a transition between different depths below one ancestor
        for other in (None, S(P, "child of P"), S(Q, "child of Q"), S(None, "root"), P, S(S(P, "another child of P"), "grandchild of P")):
            env = {"self": S(self_parent, "self"), param: other}
            label = f"parent={'P' if self_parent else None}, other={other.label if other else None}"
            try:
                active = []
                for node in props:
                    conds = cfg.dominating_conditions(node)
                    if all(bool(eval(compile(ast.Expression(t), "<cond>", "eval"), {}, env)) == v for t, v in conds):  # noqa: S307 - abstract values only
                        call = next(c for c in node.calls if (call_name(c) or "").endswith(f"parent.{meth}"))
                        active.append(eval(compile(ast.Expression(call.args[0]), "<arg>", "eval"), {}, env))  # noqa: S307
            except Exception as exc:  # a guard that cannot be evaluated on the abstraction: unknown idiom
                raise AnalysisError(f"State.{meth}: propagation guard not evaluable on the abstract states ({type(exc).__name__}: {exc})")
            canon = self_parent is not None and (other is None or other.parent is not self_parent)
            want = other.parent if other is not None else None
            if canon and len(active) == 1 and active[0] is want:
                table[label] = "canonical"
            elif not canon and not active:
                table[label] = "canonical"
            else:
                table[label] = f"{len(active)} call(s)" + (f" passing {getattr(active[0], 'label', active[0])}" if active else "") + f", expected {'1 passing ' + str(getattr(want, 'label', want)) if canon else 'none'}"
    return table


def check_reentrancy(ctx):
    """Which registered enter handlers perform transitions (so that the flag-before-fire rule is not vacuous)."""
    repo = ctx.repo
    n = 0
    for mname in MACHINES:
        m = machines.extract(repo, mname)
        for reg in m.registrations:
            if reg["event"] != "enter":
                continue
            h = m.cls.find_method(reg["handler"])
            if h is None:
                continue
            if any((call_name(c) or "") == "self._perform_transition" for c in calls_in(h.node)):
                n += 1
    ctx.floor("enter handlers that re-enter the engine", n, 1)
    return n


def check_machine_tables(ctx):
    repo = ctx.repo
    total = 0
    for mname in MACHINES:
        m = machines.extract(repo, mname)
        ctx.touch(m.cls.methods["__init__"])
        where = m.cls.where
        names = [s["name"] for s in m.states.values()]
        enums = [s["enum"] for s in m.states.values()]
        ok = len(set(names)) == len(names) and len(set(enums)) == len(enums) and None not in names
        ctx.ob("C18.T1", mname, ok, "state names and enum values are unique" if ok else f"duplicate state names/enum values: {names} / {enums}", key="unique-states", where=where)
        tnames = [t["name"] for t in m.transitions]
        ok = len(set(tnames)) == len(tnames)
        ctx.ob("C18.T1", mname, ok, "transition names are unique (the engine performs the first match)" if ok else f"duplicate transition names {sorted(x for x in tnames if tnames.count(x) > 1)}: the later one is unreachable",
               key="unique-transitions", where=where)
        initials = [a for a, s in m.states.items() if s["initial"]]
        ok = len(initials) == 1 and m.initial_current == initials[0]
        ctx.ob("C18.T1", mname, ok, "exactly one state is declared initial and it is the initial current state" if ok else
               f"initial states {initials}, initial current state {m.initial_current}: the active set does not match the current state from the start", key="initial", where=where)
        if len(m.transitions) < EXPECTED_TRANSITIONS[mname]:
            raise AnalysisError(f"{mname}: only {len(m.transitions)} transitions extracted (floor {EXPECTED_TRANSITIONS[mname]})")
        for t in m.transitions:
            total += 1
            declared = all(s in m.states for s in t["sources"]) and t["dest"] in m.states
            ctx.ob("C18.T1", mname, declared, f"transition {t['name']} references declared states" if declared else f"transition {t['name']} references undeclared states {t['sources']} -> {t['dest']}",
                   key="declared " + t["name"], where=where)
            if not declared:
                continue
            for src in t["sources"]:
                ls = machines.lockstep_sets(m, src, t["dest"])
                lca = machines.lca_sets(m, src, t["dest"])
                ok = ls == lca
                ctx.ob("C18.T1", mname, ok,
                       f"{t['name']}: {src}->{t['dest']} lock-step walk leaves {ls[0]} / enters {ls[1]} = exits/entries of the declared tree" if ok else
                       f"{t['name']}: {src}->{t['dest']} the engine's lock-step walk leaves {ls[0]} and enters {ls[1]} but the declared tree requires leaving {lca[0]} and entering {lca[1]}: wrong states stay/become active",
                       key=f"lca {t['name']} {src}", where=where)
        for meth, performed in m.methods.items():
            for p in performed:
                ok = m.by_name(p) is not None
                ctx.ob("C18.T1", mname, ok, f"{meth}() performs the declared transition {p}" if ok else f"{meth}() performs '{p}', which is not declared: it always raises UnknownTransitionError",
                       key="wrapper " + meth + " " + p, where=where)
    ctx.floor("declared transitions", total, 31)


def check_threads(ctx):
    """C18.L1 precondition: transitions really are requested from more than one thread role."""
    repo = ctx.repo
    timer_cbs = []
    for cls in [repo.cls(m) for m in MACHINES]:
        for meth in cls.methods.values():
            for c in calls_in(meth.node):
                if (call_name(c) or "") == "threading.Timer" and len(c.args) >= 2:
                    cb = dotted(c.args[1])
                    if cb and cb.startswith("self."):
                        target = cls.find_method(cb.split(".", 1)[1])
                        if target is not None and any((call_name(k) or "") == "self._perform_transition" for k in calls_in(target.node)):
                            timer_cbs.append(target.qualname)
    ctx.floor("timer callbacks that perform transitions (second thread role)", len(set(timer_cbs)), 1)
    return sorted(set(timer_cbs))


def check_transition_call(ctx):
    f = ctx.repo.method("Transition", "__call__", inherited=False)
    ctx.touch(f)
    fires = [c for c in calls_in(f.node) if (call_name(c) or "").endswith(".fire")]
    ok = len(fires) == 1 and fires[0].args and isinstance(fires[0].args[0], ast.Constant) and fires[0].args[0].value == "called"
    ctx.ob("C18.P1", f.qualname, ok, "calling a transition fires its 'called' event once" if ok else "Transition.__call__ does not fire exactly one 'called' event", where=f.where)
    init = ctx.repo.method("Transition", "__init__", inherited=False)
    # sources normalised to a list, destination stored
    txt = " ".join(norm(s) for s in rules.func_stmts(init.node))
    ok = "self._sources = sources if isinstance(sources, list) else [sources]" in txt and "self._destination = destination" in txt
    if not ok:
        # accept any form in which both fields are assigned from the parameters
        assigned = {dotted(t): norm(s.value) for s in rules.func_stmts(init.node) if isinstance(s, ast.Assign) for t in s.targets}
        ok = "sources" in assigned.get("self._sources", "") and assigned.get("self._destination") == "destination"
    ctx.ob("C18.P1", init.qualname, ok, "a transition stores its sources (as list) and destination" if ok else "Transition.__init__ does not store sources/destination from its arguments", where=init.where)
    for prop, field in (("sources", "self._sources"), ("destination", "self._destination"), ("name", "self._name")):
        p = ctx.repo.method("Transition", prop, inherited=False)
        rets = [n for n in rules.func_stmts(p.node) if isinstance(n, ast.Return)]
        ok = len(rets) == 1 and norm(rets[0].value) == field
        ctx.ob("C18.P1", p.qualname, ok, f"Transition.{prop} returns {field}" if ok else f"Transition.{prop} returns {norm(rets[0].value) if rets else None}", where=p.where)
    for prop, field in (("current", "self._current_state.state"), ("current_state", "self._current_state")):
        p = ctx.repo.method("StateMachine", prop, inherited=False)
        rets = [n for n in rules.func_stmts(p.node) if isinstance(n, ast.Return)]
        ok = len(rets) == 1 and norm(rets[0].value) == field
        ctx.ob("C18.P1", p.qualname, ok, f"StateMachine.{prop} reports {field}" if ok else f"StateMachine.{prop} returns {norm(rets[0].value) if rets else None}", where=p.where)


def check_events(ctx):
    """The event plumbing the engine relies on: every fire reaches every registered callback, every time."""
    repo = ctx.repo
    call = repo.method("Event", "__call__", inherited=False)
    ctx.touch(call)
    cfg = cfg_of(call.node)
    p = call.node.args.args[1].arg
    loops = [n for n in cfg.nodes if n.kind == "iter" and norm(n.ast.iter) in ("self._callbacks", "list(self._callbacks)", "tuple(self._callbacks)", "self._callbacks[:]")]
    ok = len(loops) == 1
    ctx.ob("C18.E1", call.qualname, ok, "an event iterates over its registered callbacks" if ok else "Event.__call__ does not iterate self._callbacks", key="iterates", where=call.where)
    if ok:
        L = loops[0]
        skip = cfg.path_exists(cfg.entry, cfg.exit, avoid=[L], no_exc=True)
        ctx.ob("C18.E1", call.qualname, not skip, "every call dispatches (no path bypasses the callbacks)" if not skip else
               "a guard lets Event.__call__ return without dispatching (e.g. a re-entrancy flag): an enter/leave/called event raised from inside one of its own handlers - a state re-entered during its own enter notification - is silently dropped",
               key="always-dispatches", where=call.where)
        lv = L.ast.target.id
        inv = [n for n in cfg.real_nodes() if any(isinstance(c.func, ast.Name) and c.func.id == lv and [norm(a) for a in c.args] == [p] for c in n.calls)]
        cnt = cfg.loop_iteration_counts(L, lambda n: n in inv, no_exc=True)
        ok2 = bool(cnt) and all(v == (1, 1) for v in cnt.values())
        ctx.ob("C18.E1", call.qualname, ok2, "each callback is invoked exactly once per fire with the event data" if ok2 else f"callback invocations per registered callback: {cnt}", key="each-once", where=call.where)
    reg = repo.method("Event", "register", inherited=False)
    ok = [norm(s) for s in rules.func_stmts(reg.node)] == [f"self._callbacks.append({reg.node.args.args[1].arg})"]
    ctx.ob("C18.E1", reg.qualname, ok, "register appends the callback" if ok else "Event.register does not append the callback", where=reg.where)
    fire = repo.method("EventProducer", "fire", inherited=False)
    ctx.touch(fire)
    fcfg = cfg_of(fire.node)
    pe, pd = [a.arg for a in fire.node.args.args[1:3]]
    disp = [n for n in fcfg.real_nodes() if f"self._events[{pe}]({pd})" in n.text()]
    ok = len(disp) == 1 and cnd.facts(fcfg, disp[0]) == {(f"{pe} in self._events", True)}
    ctx.ob("C18.E1", fire.qualname, ok, "fire dispatches the named event whenever it has been created" if ok else "EventProducer.fire does not call self._events[event](data) under `event in self._events` alone", key="dispatch", where=fire.where)
    ga = repo.method("EventProducer", "__getattr__", inherited=False)
    txt = [norm(s) for s in rules.func_stmts(ga.node)]
    p2 = ga.node.args.args[1].arg
    ok = f"return self._events[{p2}]" in txt and any(t.startswith(f"if {p2} not in self._events") for t in txt)
    ctx.ob("C18.E1", ga.qualname, ok, "events.<name> always yields the one Event object of that name (registration and fire meet)" if ok else "EventProducer.__getattr__ does not create-once-and-return the named Event", where=ga.where)


def check_fresh_iterators(ctx):
    """C18.E1: enter handlers fire events and request transitions themselves, so the containers a dispatch walks over are
    iterated while they are being iterated.  Each `for` must get an iterator of its own: a container that hands out itself
    (`__iter__` returns self, cursor stored on the container) lets the inner walk run the shared cursor to the end - the
    outer dispatch stops early and the remaining observers never see the event."""
    repo = ctx.repo
    mod = repo.module("secsgem.common.events")
    n = 0
    for cls in [c for c in repo.classes.values() if c.module is mod]:
        it = cls.methods.get("__iter__")
        if it is None:
            continue
        n += 1
        ctx.touch(it)
        all_rets = [x for x in walk_no_nested(it.node) if isinstance(x, ast.Return)]
        nothing = not all_rets or any(x.value is None or (isinstance(x.value, ast.Constant) and x.value.value is None) for x in all_rets)
        ctx.ob("C18.E1", f"{cls.name}.__iter__", not nothing, f"{cls.name}.__iter__ hands out an iterator" if not nothing else f"{cls.name}.__iter__ returns nothing: every dispatch over {cls.name} fails", key="iterator-returned", where=it.where)
        rets = [x for x in all_rets if x.value is not None]
        returns_self = any(isinstance(r.value, ast.Name) and r.value.id == "self" for r in rets)
        holds_more = any(m not in ("__iter__", "__next__", "__init__") for m in cls.methods)
        bad = returns_self and "__next__" in cls.methods and holds_more
        ctx.ob("C18.E1", f"{cls.name}.__iter__", not bad, f"every walk over {cls.name} gets an iterator of its own" if not bad else
               f"{cls.name}.__iter__ returns the container itself and {cls.name}.__next__ keeps the cursor on it: a nested fire from a handler finishes the shared walk, the outer dispatch skips the remaining observers",
               key="fresh-iterator", where=it.where)
    ctx.floor("iterable event containers", n, 2)


def check_wrappers_atomic(ctx):
    """A refused request raises and changes nothing: in the machines' request methods every write to the machine's own
    fields happens after _perform_transition returned (it raises on an unknown name / wrong source)."""
    from .. import inline

    repo = ctx.repo
    n = 0
    for mname in MACHINES:
        cls = repo.cls(mname)
        for name, meth in cls.methods.items():
            if name.startswith("__") or name.startswith("_on_"):
                continue
            fn = inline.expand(repo, meth, keep={"_perform_transition"})[0]
            cfg = cfg_of(fn)
            perf = [x for x in cfg.real_nodes() if any(c == "self._perform_transition" for c in x.call_names())]
            if not perf:
                continue
            n += 1
            ctx.touch(meth)
            early = [x for x in cfg.real_nodes() if isinstance(x.ast, (ast.Assign, ast.AugAssign)) and any((dotted(t) or "").startswith("self.") for t in rules.assigned_targets(x.ast))
                     and not any(cfg.dominates(p, x) for p in perf)]
            ctx.ob("C18.P1", meth.qualname, not early, "the machine's fields are written only after the transition was performed" if not early else
                   f"`{early[0].text()}` is executed before the transition is checked: a request that is refused (WrongSourceStateError) has already changed the machine",
                   key="write-after-transition", where=meth.where)
    ctx.floor("request methods of the shipped machines", n, 20)


def run(ctx):
    check_wrappers_atomic(ctx)
    check_events(ctx)
    check_fresh_iterators(ctx)
    check_transition_lookup(ctx)
    check_perform(ctx)
    check_transition_call(ctx)
    check_reentrancy(ctx)
    check_state_methods(ctx)
    check_machine_tables(ctx)
    check_threads(ctx)
