"""Rules on ProtocolDispatcher shared by C04 (no lost wake-up, in-order hand-over) and C06 (single consumer)."""

from __future__ import annotations

import ast

from ..cfg import cfg_of
from ..model import AnalysisError, call_name, calls_in, dotted, norm
from .. import callgraph, inline, rules
from .. import conds as cnd


def _thread_creations(fn):
    """[(field, target attr, creating Assign stmt)] for `self.<field> = threading.Thread(target=self.<m>, ...)`, also when
    the thread object goes through a local first (`thread = threading.Thread(...); ...; self.<field> = thread`, the
    shape an inlined start-helper has): the creation that reaches the store is the last one that dominates it."""
    out = []
    cfg = cfg_of(fn)
    local = []  # (node, name, target)
    for n in cfg.real_nodes():
        st = n.ast
        if isinstance(st, ast.Assign) and isinstance(st.value, ast.Call) and (call_name(st.value) or "") == "threading.Thread":
            tgt = next((k.value for k in st.value.keywords if k.arg == "target"), None)
            for t in st.targets:
                d = dotted(t)
                if d and d.startswith("self."):
                    out.append((d, dotted(tgt) if tgt is not None else None, st))
                elif isinstance(t, ast.Name):
                    local.append((n, t.id, dotted(tgt) if tgt is not None else None))
    for n in cfg.real_nodes():
        st = n.ast
        if isinstance(st, ast.Assign) and isinstance(st.value, ast.Name) and any((dotted(t) or "").startswith("self.") for t in st.targets):
            # follow local-to-local copies back to the local that was bound to the new thread (`r = thread; self.x = r`)
            name, at = st.value.id, n
            for _ in range(4):
                copies = [m for m in cfg.real_nodes() if isinstance(m.ast, ast.Assign) and isinstance(m.ast.value, ast.Name) and any(isinstance(t, ast.Name) and t.id == name for t in m.ast.targets)
                          and cfg.dominates(m, at)]
                if not copies or any(c[1] == name and cfg.dominates(c[0], at) and c[0].id > max(m.id for m in copies) for c in local):
                    break
                last = max(copies, key=lambda m: m.id)
                name, at = last.ast.value.id, last
            cands = [c for c in local if c[1] == name and cfg.dominates(c[0], at)]
            if cands:
                c = max(cands, key=lambda c: c[0].id)
                for t in st.targets:
                    d = dotted(t)
                    if d and d.startswith("self."):
                        out.append((d, c[2], c[0].ast))
    return out


def check_dispatcher(ctx, rule: str, wakeups=True, consumers=True, reconnect=None, threads=("dispatcher", "receiver")):
    """consumers: FIFO / one consumer function / one item at a time; reconnect: one consumer thread across start/stop/start
    (defaults to `consumers`); threads: which thread functions get the wake-up rule."""
    if reconnect is None:
        reconnect = consumers
    repo = ctx.repo
    cls = repo.cls("ProtocolDispatcher")
    start = repo.method("ProtocolDispatcher", "start", inherited=False)
    stop = repo.method("ProtocolDispatcher", "stop", inherited=False)
    ctx.touch(start)
    ctx.touch(stop)
    start_fn = inline.expanded(ctx, start)  # thread creation moved into a private helper is still thread creation
    scfg = cfg_of(start_fn)
    creations = _thread_creations(start_fn)
    # a Thread object can be started once: a thread that start() starts must be created in start() (stop() ends it on every
    # disconnect), not once in the constructor
    created_here = {field for field, _t, _st in creations}
    started = sorted({c[:-len(".start")] for n in scfg.real_nodes() for c in n.call_names() if c.endswith("_thread.start") and c.startswith("self.")})
    stale = [fld for fld in started if fld not in created_here]
    if stale:
        elsewhere = [m.qualname for m in cls.methods.values() if m is not start and any(fld == fl for fl, _t, _s in _thread_creations(inline.expanded(ctx, m)) for fld in stale)]
        ctx.ob(rule, "ProtocolDispatcher.start", False, f"start() starts {stale[0]} without creating it (created in {elsewhere or 'another method'}): on the second connection Thread.start() raises "
               "RuntimeError (threads can only be started once), nothing is received or answered after a reconnect", key="created-per-start " + stale[0], where=start.where)
        return
    ctx.require(len(creations) >= 2, "ProtocolDispatcher.start: fewer than two thread creations found")
    stop_names = [call_name(c) or "" for c in calls_in(stop.node)]
    stop_assigns = {dotted(t): norm(st.value) for st in rules.func_stmts(stop.node) if isinstance(st, ast.Assign) for t in st.targets}
    if reconnect:
        for field, target, st in creations:
            node = next(n for n in scfg.real_nodes() if n.ast is st)
            joined = f"{field}.join" in stop_names
            def none_alive(n, field=field):
                """The facts at n say that no thread object exists or the existing one is not alive."""
                about = {(t, p) for t, p in cnd.facts(scfg, n, fn=start.node) if field in t}
                return about in ({(f"ALL[+{field}.is_alive();-{field} is None]", False)}, {(f"{field}.is_alive()", False), (f"{field} is None", False)}, {(f"{field}.is_alive()", False)})

            alive_guard = none_alive(node)
            # a guard only helps if the start() call of that thread is under it as well
            starts = [n for n in scfg.real_nodes() if any(c == f"{field}.start" for c in n.call_names())]
            start_guarded = all(none_alive(n) for n in starts) if starts else False
            ok = joined or (alive_guard and start_guarded)
            ctx.ob(rule, "ProtocolDispatcher.start", ok,
                   f"thread {field} is joined by stop()" if joined else (f"thread {field} is only created while no previous one is alive" if ok else
                   f"thread {field} (target {target}) is created on every start() but never stopped by stop(): after a reconnect two such threads consume the same queue, "
                   "so messages are handled concurrently and out of order"),
                   key="single " + field, where=start.where)
            if joined:
                # stop(): flag set and trigger set before join
                tfunc = cls.methods.get((target or "").split(".")[-1])
                ctx.require(tfunc is not None, f"thread target {target} not found")
                flags = [norm(n.ast.operand) for n in cfg_of(tfunc.node).nodes if n.kind == "test" and n.label == "while" and isinstance(n.ast, ast.UnaryOp) and isinstance(n.ast.op, ast.Not)]
                flag_set = any(stop_assigns.get(fl) == "True" for fl in flags)
                cfg2 = cfg_of(stop.node)
                jn = [n for n in cfg2.real_nodes() if any(c == f"{field}.join" for c in n.call_names())]
                sets = [n for n in cfg2.real_nodes() if any(c.endswith("_trigger.set") for c in n.call_names())]
                fl_nodes = [n for n in cfg2.real_nodes() if isinstance(n.ast, ast.Assign) and any(dotted(t) in flags for t in n.ast.targets)]
                ok = flag_set and bool(jn) and any(cfg2.dominates(s, jn[0]) for s in sets) and any(cfg2.dominates(f, jn[0]) for f in fl_nodes)
                ctx.ob(rule, "ProtocolDispatcher.stop", ok, f"stop() sets the stop flag and wakes {field} before joining it" if ok else
                       f"stop() joins {field} without first setting its stop flag and trigger: the join never returns", key="stop-protocol " + field, where=stop.where)
    # every thread start() creates is started, with its stop flag lowered first
    for field, target, st in creations:
        node = next(n for n in scfg.real_nodes() if n.ast is st)
        # ... and is created whenever no live one exists: unconditionally, or under `none or not alive`
        about = {(t, p) for t, p in cnd.facts(scfg, node, fn=start.node) if field in t}
        ok = about in (set(), {(f"ALL[+{field}.is_alive();-{field} is None]", False)}, {(f"{field}.is_alive()", False), (f"{field} is None", False)}, {(f"{field}.is_alive()", False)})
        ctx.ob(rule, "ProtocolDispatcher.start", ok, f"thread {field} is (re)created whenever none is alive" if ok else
               f"thread {field} (target {target}) is created only under {cnd.show(about)}: after stop() ended the previous thread nothing runs the {target.split('.')[-1] if target else 'target'} on the next connection", key="recreated " + field, where=start.where)
        starts = [n for n in scfg.real_nodes() if any(c == f"{field}.start" for c in n.call_names())]
        ok = bool(starts) and not scfg.path_exists(node, scfg.exit, avoid=starts, no_exc=True)
        ctx.ob(rule, "ProtocolDispatcher.start", ok, f"thread {field} is started on every path that creates it" if ok else
               f"thread {field} (target {target}) is created but not started: nothing is received / dispatched on this link", key="started " + field, where=start.where)
        tfunc = cls.methods.get((target or "").split(".")[-1])
        if tfunc is None or not starts:
            continue
        heads_t = [n for n in cfg_of(tfunc.node).nodes if n.kind == "test" and n.label == "while"]
        flags = [t for h in heads_t[:1] for t, pol in cnd.canon(h.ast, True) if not pol and t.startswith("self._stop")]
        for fl in flags:
            lowered = [n for n in scfg.real_nodes() if isinstance(n.ast, ast.Assign) and any(dotted(t) == fl for t in n.ast.targets)]
            ok = bool(lowered) and all(rules.literal(start_fn, n.ast.value) == (True, False) for n in lowered) and any(scfg.dominates(n, starts[0]) for n in lowered)
            ctx.ob(rule, "ProtocolDispatcher.start", ok, f"{fl} is lowered before {field} starts" if ok else
                   f"{fl} is not set to False before {field} is started: the thread sees a stop request and ends at once (after a reconnect: the previous stop())", key="flag-lowered " + fl, where=start.where)
    if consumers:
        # exactly one consumer function of the dispatch queue, FIFO, one at a time
        init = repo.method("ProtocolDispatcher", "__init__", inherited=False)
        ctor = None
        for st in rules.func_stmts(init.node):
            if isinstance(st, (ast.Assign, ast.AnnAssign)) and any(dotted(t) == "self._dispatch_queue" for t in rules.assigned_targets(st)) and isinstance(st.value, ast.Call):
                ctor = call_name(st.value)
        ok = ctor in ("queue.Queue", "queue.SimpleQueue")
        ctx.ob(rule, "ProtocolDispatcher.__init__", ok, f"the dispatch queue is a FIFO ({ctor})" if ok else f"the dispatch queue is {ctor}: blocks can overtake each other", key="fifo", where=init.where)
        consumers_f = [m for m in cls.methods.values() if any((call_name(c) or "") in ("self._dispatch_queue.get", "self._dispatch_queue.get_nowait") for c in calls_in(m.node))]
        ok = len(consumers_f) == 1
        ctx.ob(rule, "ProtocolDispatcher", ok, f"one function consumes the dispatch queue ({consumers_f[0].name})" if ok else f"{len(consumers_f)} functions consume the dispatch queue", key="one-consumer-function", where=cls.where)
    disp = repo.method("ProtocolDispatcher", "_dispatcher_thread_function", inherited=False)
    recv = repo.method("ProtocolDispatcher", "_receiver_thread_function", inherited=False)
    for f, trig, work in ((disp, "self._dispatcher_thread_trigger", "self._dispatcher_target"), (recv, "self._receiver_thread_trigger", "self._receiver_target")):
        if ("dispatcher" if f is disp else "receiver") not in threads:
            continue
        ctx.touch(f)
        cfg = cfg_of(f.node)
        waits = [n for n in cfg.real_nodes() if any(c == f"{trig}.wait" for c in n.call_names())]
        clears = [n for n in cfg.real_nodes() if any(c == f"{trig}.clear" for c in n.call_names())]
        works = [n for n in cfg.real_nodes() if any(c == work for c in n.call_names())]
        ctx.require(len(waits) == 1 and len(works) == 1, f"{f.qualname}: expected one wait and one target call")
        W, K = waits[0], works[0]
        if wakeups:
            ok = len(clears) == 1 and cfg.dominates(W, clears[0]) and not cfg.path_exists(W, K, avoid=clears) and not any(cfg.path_exists(K, c, avoid=[W]) for c in clears)
            # stronger for the drain loop: the clear must precede the first look at the queue
            looks = [n for n in cfg.nodes if n.kind == "test" and "_dispatch_queue" in norm(n.ast)]
            if looks and clears:
                ok = ok and all(not cfg.path_exists(W, l, avoid=clears) for l in looks) and all(not cfg.path_exists(l, clears[0], avoid=[W]) for l in looks)
            ctx.ob(rule, f.qualname, ok, "the trigger is cleared right after the wait and before the work is looked at (no lost wake-up)" if ok else
                   "the trigger is cleared after the work was examined/processed: a trigger that arrives in between is erased and the queued work waits until unrelated traffic arrives",
                   key="clear-before-work", where=f.where)
        # the work is done for every wake-up that is not a stop request
        heads_f = [n for n in cfg.nodes if n.kind == "test" and n.label == "while"]
        flags = {t for h in heads_f[:1] for t, pol in cnd.canon(h.ast, True) if not pol and t.startswith("self._stop")}
        odd = sorted((t, pol) for t, pol in cnd.facts(cfg, K) if not ((t in flags and not pol) or "_dispatch_queue" in t))
        ok = bool(flags) and not odd
        ctx.ob(rule, f.qualname, ok, "after a wake-up the target runs unless a stop was requested" if ok else
               f"the target runs only under {cnd.show(set(odd)) if odd else 'an unrecognised loop condition'}: wake-ups without a stop request do no work", key="works-unless-stopped", where=f.where)
        guarded = callgraph.broadly_guarded(f.node, next(c for c in K.calls if call_name(c) == work))
        ctx.ob(rule, f.qualname, guarded, "an exception of the target does not end the thread" if guarded else "an exception raised by the target ends the thread: nothing is received/dispatched afterwards", key="target-contained", where=f.where)
    if consumers:
        # the dispatch queue is filled by the receiver thread, which is also the only writer to the link: a bounded queue
        # lets it block in put() while the consumer waits for it to write a reply - nothing moves any more
        made = [st for st in rules.func_stmts(repo.method("ProtocolDispatcher", "__init__", inherited=False).node)
                if isinstance(st, (ast.Assign, ast.AnnAssign)) and dotted(st.targets[0] if isinstance(st, ast.Assign) else st.target) == "self._dispatch_queue" and isinstance(st.value, ast.Call)]
        ctx.require(len(made) == 1, "ProtocolDispatcher.__init__: creation of the dispatch queue not found")
        qc = made[0].value
        size = qc.args[0] if qc.args else next((k.value for k in qc.keywords if k.arg == "maxsize"), None)
        unbounded = (call_name(qc) or "").endswith("Queue") and (size is None or rules.literal(repo.method("ProtocolDispatcher", "__init__", inherited=False).node, size) in ((True, 0), (True, None)))
        ctx.ob(rule, "ProtocolDispatcher.__init__", unbounded, "the dispatch queue is unbounded: the receiver thread never blocks handing a block on" if unbounded else
               f"`{norm(qc)}` bounds the dispatch queue: during a burst the receiver thread blocks in put() while a handler on the dispatcher thread waits for that same thread to write its reply - "
               "the rest of the burst is never handed on", key="queue-unbounded", where=repo.method("ProtocolDispatcher", "__init__", inherited=False).where)
        cfg = cfg_of(disp.node)
        gets = [n for n in cfg.real_nodes() if any(c in ("self._dispatch_queue.get", "self._dispatch_queue.get_nowait") for c in n.call_names())]
        K = next(n for n in cfg.real_nodes() if any(c == "self._dispatcher_target" for c in n.call_names()))
        heads = [n for n in cfg.nodes if n.kind == "test" and n.label == "while" and "_dispatch_queue" in norm(n.ast)]
        if gets and not heads:
            # no drain loop: after one block the thread must not go back to sleep while blocks may still be queued
            waits_ = [n for n in cfg.real_nodes() if any(c == "self._dispatcher_thread_trigger.wait" for c in n.call_names())]
            empt = [n for n in cfg.nodes if (n.kind == "test" and "_dispatch_queue" in norm(n.ast)) or (n.kind == "handler" and "Empty" in n.text())]
            drains = bool(waits_) and not cfg.path_exists(K, waits_[0], avoid=empt)
            ctx.ob(rule, disp.qualname, drains, "after a wake-up the queue is drained before the thread waits again" if drains else
                   "one wake-up handles one block: the trigger is an Event (set() does not count), so blocks queued while a handler runs stay in the queue until unrelated traffic arrives - the last one for ever",
                   key="one-at-a-time", where=disp.where)
            return
        ctx.require(len(gets) == 1 and len(heads) == 1, "dispatcher drain loop not recognised")
        # the drain loop goes on as long as something is queued
        hc = cnd.canon(heads[0].ast, True)
        always = {("self._dispatch_queue.qsize() < 1", False), ("self._dispatch_queue.empty()", False), ("self._dispatch_queue.qsize() < 0", False), ("self._dispatch_queue.qsize() == 0", False)}
        import re as _re

        leaves = [(t, pol) for t, pol in hc if (t, pol) not in always]
        short = [(t, pol) for t, pol in leaves if _re.fullmatch(r"self\._dispatch_queue\.qsize\(\) < \d+", t) and not pol]
        ctx.require(not leaves or len(short) == len(leaves), f"dispatcher drain loop condition `{norm(heads[0].ast)}` not recognised")
        ctx.ob(rule, disp.qualname, not short, "the drain loop runs while anything is queued" if not short else
               f"the drain loop stops under `{norm(heads[0].ast)}` although blocks are still queued: the last block(s) wait until more traffic arrives", key="drains-all", where=disp.where)
        c1 = cfg.loop_iteration_counts(heads[0], lambda n: n in gets, no_exc=True)
        c2 = cfg.loop_iteration_counts(heads[0], lambda n: n is K, no_exc=True)
        ok = all(v == (1, 1) for v in c1.values()) and all(v == (1, 1) for v in c2.values()) and cfg.dominates(gets[0], K)
        ctx.ob(rule, disp.qualname, ok, "each drain iteration takes one block and hands it to the target once, in queue order" if ok else f"per drain iteration: gets {c1}, hand-overs {c2}", key="one-at-a-time", where=disp.where)
        # what is handed over is what was taken
        kcall = next(c for c in K.calls if call_name(c) == "self._dispatcher_target")
        gvar = {t.id for t in rules.assigned_targets(gets[0].ast) if isinstance(t, ast.Name)} if isinstance(gets[0].ast, ast.Assign) else set()
        ok = any(isinstance(a, ast.Starred) and norm(a.value) in gvar for a in kcall.args) or any(norm(a) in gvar for a in kcall.args)
        ctx.ob(rule, disp.qualname, ok, "the dequeued block is what the target receives" if ok else f"`{norm(kcall)}` does not pass the dequeued item", key="passes-item", where=disp.where)
        spawned = any((call_name(c) or "").startswith("threading.") for c in calls_in(disp.node))
        ctx.ob(rule, disp.qualname, not spawned, "messages are handled on the one dispatcher thread" if not spawned else "the dispatcher spawns threads per message: handlers run concurrently", key="no-spawn", where=disp.where)
    qb = repo.method("ProtocolDispatcher", "queue_block", inherited=False)
    ctx.touch(qb)
    cfg = cfg_of(qb.node)
    puts = [n for n in cfg.real_nodes() if any(c in ("self._dispatch_queue.put", "self._dispatch_queue.put_nowait") for c in n.call_names())]
    sets = [n for n in cfg.real_nodes() if any(c == "self._dispatcher_thread_trigger.set" for c in n.call_names())]
    ok = len(puts) == 1 and len(sets) >= 1 and cfg.dominates(puts[0], sets[0]) and cfg.count_on_paths(lambda n: n in sets, cfg.entry, cfg.exit, no_exc=True)[0] == 1
    ctx.ob(rule, qb.qualname, ok, "queue_block enqueues the block and then wakes the dispatcher on every path" if ok else "queue_block does not wake the dispatcher after enqueueing on every path", key="put-then-set", where=qb.where)
    if puts:
        pc = next(c for c in puts[0].calls if (call_name(c) or "").startswith("self._dispatch_queue.put"))
        params = [a.arg for a in qb.node.args.args[1:]]
        ok = bool(pc.args) and rules.expand(qb.node, pc.args[0]) == "(" + ", ".join(params) + ")"
        ctx.ob(rule, qb.qualname, ok, "the queued item is (source, block)" if ok else f"`{norm(pc)}` does not queue (source, block)", key="item", where=qb.where)
    tr = repo.method("ProtocolDispatcher", "trigger_receiver", inherited=False)
    ok = any(call_name(c) == "self._receiver_thread_trigger.set" for c in calls_in(tr.node))
    ctx.ob(rule, tr.qualname, ok, "trigger_receiver sets the receiver trigger" if ok else "trigger_receiver does not set the receiver trigger", where=tr.where)
