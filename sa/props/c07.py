"""C07 - GEM communication state follows the E30 establish-communications model."""

from __future__ import annotations

import ast
import json
import os

from ..cfg import cfg_of
from ..model import AnalysisError, call_name, calls_in, dotted, norm
from .. import inline, machines, normal, rules
from .. import conds as cnd

REF = os.path.join(os.path.dirname(os.path.dirname(__file__)), "reference", "e30_comm.json")

META = {
    "explanation": "Table rule on the CommunicationStateMachine declaration against the E30 communications state table, "
    "guard rules on GemHandler._on_message_received (dispatch to callbacks only in COMMUNICATING; the transitions to "
    "COMMUNICATING are control-dependent on COMMACK == 0 of the message just received / just sent; the S1F14 answer "
    "carries the request's system bytes), timer pairing rules (armed on enter, cancelled - never joined - on leave, "
    "callbacks perform exactly the prescribed transition, durations are T3 and the establish-communications delay), "
    "wiring of the protocol's communicating event and of link loss.",
    "decides": [
        "C07.T1 CommunicationStateMachine states/parents/transitions = E30 table; wrappers perform the declared transitions",
        "C07.P1 user callbacks are reached from _on_message_received only under current == COMMUNICATING",
        "C07.P2 s1f14received() is guarded by COMMACK == 0 of the received S1F14; s1f13received() by the COMMACK value sent in our S1F14; the S1F14 is sent exactly once with the request's system bytes",
        "C07.P3 link loss reaches the state machine: a listener of the protocol's disconnected event leaves every enabled state; equipment updates the control state only after the communication state",
        "C07.P4 T3 / delay timers are armed on enter and cancelled on leave of the same state, never joined from their own callback; callbacks perform communicationreqfail / delayexpired; entering WAIT_CRA sends S1F13 once; enable/disable order",
    ],
    "does_not_decide": ["wall-clock behaviour (T3, delay values)", "discrimination of stale S1F14 replies by time"],
    "assumptions": ["threading.Timer runs its callback on its own thread (stdlib)"],
}


def _ref():
    with open(REF, encoding="utf-8") as handle:
        return json.load(handle)


def check_machine(ctx):
    ref = _ref()
    repo = ctx.repo
    m = machines.extract(repo, "CommunicationStateMachine")
    ctx.touch(m.cls.methods["__init__"])
    where = m.cls.where
    by_name = {s["name"]: (a, s) for a, s in m.states.items()}
    ok = set(by_name) == set(ref["states"])
    ctx.ob("C07.T1", "CommunicationStateMachine", ok, "declared states = E30 states" if ok else f"declared states {sorted(by_name)} differ from {sorted(ref['states'])}", key="states", where=where)
    for name, spec in ref["states"].items():
        if name not in by_name:
            continue
        attr, st = by_name[name]
        parent = m.states[st["parent"]]["name"] if st["parent"] else None
        ok = parent == spec["parent"] and st["initial"] == spec["initial"] and (st["enum"] or "").endswith("." + name)
        ctx.ob("C07.T1", "CommunicationStateMachine", ok, f"state {name}: parent {parent}, initial {st['initial']}" if ok else f"state {name}: parent {parent}, initial {st['initial']}, enum {st['enum']} (E30: parent {spec['parent']}, initial {spec['initial']})", key="state " + name, where=where)
    declared = {t["name"]: t for t in m.transitions}
    ok = set(declared) == set(ref["transitions"])
    ctx.ob("C07.T1", "CommunicationStateMachine", ok, "declared transitions = E30 transitions" if ok else f"transitions {sorted(declared)} differ from {sorted(ref['transitions'])}", key="transitions", where=where)
    for name, spec in ref["transitions"].items():
        t = declared.get(name)
        if t is None:
            continue
        srcs = sorted(m.states[s]["name"] for s in t["sources"] if s in m.states)
        dst = m.states[t["dest"]]["name"] if t["dest"] in m.states else None
        ok = srcs == sorted(spec["sources"]) and dst == spec["dest"]
        ctx.ob("C07.T1", "CommunicationStateMachine", ok, f"{name}: {srcs} -> {dst}" if ok else f"{name}: declared {srcs} -> {dst}; E30 ({spec['e30']}) prescribes {sorted(spec['sources'])} -> {spec['dest']}", key="transition " + name, where=where)
    for w in ("enable", "disable", "select", "s1f14received", "s1f13received", "communicationfail"):
        ok = m.methods.get(w) == [w]
        ctx.ob("C07.T1", "CommunicationStateMachine", ok, f"{w}() performs '{w}'" if ok else f"{w}() performs {m.methods.get(w)}", key="wrapper " + w, where=where)
    return m


def _state_conds(cfg, n):
    """[(member, truth)] for dominating tests `self._communication_state.current == CommunicationState.X`."""
    out = []
    for t, v in cfg.dominating_conditions(n, derive=True):
        if isinstance(t, ast.Compare) and len(t.ops) == 1 and norm(t.left) == "self._communication_state.current" and norm(t.comparators[0]).startswith("CommunicationState."):
            member = norm(t.comparators[0]).split(".")[-1]
            if isinstance(t.ops[0], (ast.Eq, ast.Is)):
                out.append((member, v))
            elif isinstance(t.ops[0], (ast.NotEq, ast.IsNot)):
                out.append((member, not v))
    return out


def _sf_conds(cfg, n, param):
    s = f = None
    for p, v in cfg.dominating_conditions(n, derive=True):
        if isinstance(p, ast.Compare) and len(p.ops) == 1 and isinstance(p.comparators[0], ast.Constant):
            if (isinstance(p.ops[0], ast.Eq) and v) or (isinstance(p.ops[0], ast.NotEq) and not v):
                if norm(p.left) == f"{param}.header.stream":
                    s = p.comparators[0].value
                if norm(p.left) == f"{param}.header.function":
                    f = p.comparators[0].value
    return s, f


def check_message_received(ctx):
    repo = ctx.repo
    f = repo.method("GemHandler", "_on_message_received", inherited=False)
    ctx.touch(f)
    q = f.qualname
    fn = inline.expanded(ctx, f, keep={"_handle_stream_function"})
    cfg = cfg_of(fn)
    dp = fn.args.args[1].arg
    msgvars = {t.id for s in rules.func_stmts(fn) if isinstance(s, ast.Assign) and norm(s.value) == f"{dp}['message']" for t in s.targets if isinstance(t, ast.Name)}
    ctx.require(len(msgvars) == 1, f"{q}: `message = data['message']` not found")
    param = next(iter(msgvars))
    # P1 gate
    disp = [n for n in cfg.real_nodes() if any(c in ("self._handle_stream_function", "super()._on_message_received") for c in n.call_names())]
    ok = len(disp) == 1
    ctx.ob("C07.P1", q, ok, "one hand-over to the callback dispatcher" if ok else f"{len(disp)} hand-overs to the callback dispatcher", key="one-dispatch", where=f.where)
    for n in disp:
        sc = _state_conds(cfg, n)
        ok = ("COMMUNICATING", True) in sc
        ctx.ob("C07.P1", q, ok, "application messages reach callbacks only while the state is COMMUNICATING" if ok else
               f"the callback dispatcher is reached under {sc if sc else 'no test of the communication state'}: messages are handed to user callbacks while communication is not established (e.g. in DISABLED or NOT_COMMUNICATING)",
               key="gate", where=f.where)
        # ... and in COMMUNICATING they always do: no other state is required to hold, nothing else is tested on the way
        others = sorted((m, v) for m, v in sc if m != "COMMUNICATING" and v)
        extra = sorted((t, pol) for t, pol in cnd.facts(cfg, n) if not t.startswith("self._communication_state.current == CommunicationState."))
        ok = not others and not extra
        ctx.ob("C07.P1", q, ok, "every message received while COMMUNICATING is handed to the callback dispatcher" if ok else
               f"the callback dispatcher is reached only under {others + extra} as well: messages received in COMMUNICATING are dropped, no primary is answered any more", key="gate-open", where=f.where)
        c = next(c for c in n.calls if call_name(c) in ("self._handle_stream_function", "super()._on_message_received"))
        ok = bool(c.args) and norm(c.args[0]) in (param, dp)
        ctx.ob("C07.P1", q, ok, "the received message is what is dispatched" if ok else f"`{norm(c)}` does not pass the received message", key="dispatch-arg", where=f.where)
    # P2
    t14 = [n for n in cfg.real_nodes() if any(c == "self._communication_state.s1f14received" for c in n.call_names())]
    t13 = [n for n in cfg.real_nodes() if any(c == "self._communication_state.s1f13received" for c in n.call_names())]
    ctx.require(len(t14) == 1 and len(t13) == 1, f"{q}: s1f14received/s1f13received calls not found once each ({len(t14)}/{len(t13)})")
    for n, fnum in ((t14[0], 14), (t13[0], 13)):
        sc = _state_conds(cfg, n)
        ok = ("WAIT_CRA", True) in sc
        ctx.ob("C07.P2", q, ok, f"S1F{fnum} is acted upon in WAIT_CRA" if ok else f"s1f{fnum}received() is called under {sc}", key=f"state s1f{fnum}", where=f.where)
        s, fx = _sf_conds(cfg, n, param)
        ok = (s, fx) == (1, fnum)
        ctx.ob("C07.P2", q, ok, f"s1f{fnum}received() only for stream 1 function {fnum}" if ok else f"s1f{fnum}received() is called for S{s}F{fx}", key=f"sf s1f{fnum}", where=f.where)
    # the S1F14 written in WAIT_CRA: the host answers with an empty MDLN list, the equipment with model and software revision (E30)
    replies = [(n, c) for n in cfg.real_nodes() for c in n.calls if call_name(c) == "self.send_response"]
    for n, c in replies:
        body = rules.expand(fn, c.args[0]) if c.args else ""
        host = {pol for t, pol in cnd.facts(cfg, n) if t == "self._is_host"}
        if "stream_function(1, 14)" not in body or len(host) != 1:
            continue
        is_host = next(iter(host))
        want = "'MDLN': []" if is_host else "'MDLN': [self._mdln, self._softrev]"
        ok = want in body
        ctx.ob("C07.P2", q, ok, f"the {'host' if is_host else 'equipment'} answers S1F13 with {want}" if ok else
               f"the {'host' if is_host else 'equipment'} side answers S1F13 with `{body[:120]}`: E30 prescribes {want} (the peer refuses or misreads the reply)", key=f"s1f14-body {'host' if is_host else 'equipment'}", where=f.where)
    # COMMACK of the received S1F14
    tainted14 = rules.taint(fn, lambda x: isinstance(x, ast.Attribute) and x.attr == "COMMACK")
    ok = _guarded_by_zero(cfg, t14[0], lambda e: rules.expr_depends_on(e, tainted14, lambda x: isinstance(x, ast.Attribute) and x.attr == "COMMACK"), truthiness=False)
    ctx.ob("C07.P2", q, ok, "COMMUNICATING is entered on S1F14 only if its COMMACK is 0" if ok else
           "s1f14received() is not guarded by `COMMACK == 0` of the received S1F14: a refused establish-communications request (COMMACK 1), or one whose COMMACK item is empty (falsy, but not 0), is reported as established", key="commack-received", where=f.where)
    if ok:
        # the COMMACK examined is decoded from *this* message
        dec = [c for c in calls_in(fn) if (call_name(c) or "").endswith("streams_functions.decode")]
        ok2 = any(c.args and norm(c.args[0]) == param for c in dec)
        ctx.ob("C07.P2", q, ok2, "the COMMACK examined is decoded from the message just received" if ok2 else "the examined COMMACK is not decoded from the received message", key="commack-source", where=f.where)
    # COMMACK we send
    is_req = lambda x: isinstance(x, ast.Call) and call_name(x) == "self.on_commack_requested"  # noqa: E731
    tainted13 = rules.taint(fn, is_req)
    ok = _guarded_by_zero(cfg, t13[0], lambda e: rules.expr_depends_on(e, tainted13, is_req))
    ctx.ob("C07.P2", q, ok, "COMMUNICATING is entered on S1F13 only if we answered COMMACK 0" if ok else
           "s1f13received() is not guarded by the COMMACK value we answered: a request we refused still establishes communication", key="commack-sent", where=f.where)
    sends = [(n, c) for n in cfg.real_nodes() for c in n.calls if call_name(c) == "self.send_response"]
    ok = bool(sends) and all(len(c.args) == 2 and norm(c.args[1]) == f"{param}.header.system" for _, c in sends)
    ctx.ob("C07.P2", q, ok, "the S1F14 answer carries the system bytes of the S1F13" if ok else "the S1F14 answer does not carry message.header.system", key="s1f14-system", where=f.where)
    cnt = cfg.count_on_paths(lambda n: any(n is s for s, _ in sends), cfg.entry, t13[0], no_exc=True)
    ok = cnt == (1, 1)
    ctx.ob("C07.P2", q, ok, "exactly one S1F14 is sent before the transition" if ok else f"S1F14 sends before s1f13received(): {cnt}", key="s1f14-once", where=f.where)
    for n, c, a0 in [(n, c, v) for n, c in sends for v, _conds in (rules.reaching_values(fn, cfg, n, c.args[0]) if isinstance(c.args[0], ast.Name) else [(c.args[0], ())])]:
        # (a reply built in a local first: every value that local may hold at the send)
        sf_ok = isinstance(a0, ast.Call) and isinstance(a0.func, ast.Call) and call_name(a0.func) == "self.stream_function" and [norm(x) for x in a0.func.args] == ["1", "14"]
        body = a0.args[0] if sf_ok and a0.args and isinstance(a0.args[0], ast.Dict) else None
        commack_expr = None
        if body is not None:
            for k, v in zip(body.keys, body.values):
                if isinstance(k, ast.Constant) and k.value == "COMMACK":
                    commack_expr = v
        same = commack_expr is not None and rules.expr_depends_on(commack_expr, tainted13, is_req)
        once = sum(1 for x in calls_in(fn) if is_req(x)) == 1
        ctx.ob("C07.P2", q, sf_ok and same and once, "the COMMACK sent is the one the guard examines (asked for once)" if (sf_ok and same and once) else
               "the S1F14 body's COMMACK is not the single value the guard examines (the user hook is asked twice or another value is sent)", key="s1f14-commack " + ("host" if "MDLN': []" in norm(a0) else "equipment"), where=f.where)
        sc = _state_conds(cfg, n)
        s, fx = _sf_conds(cfg, n, param)
        ok = ("WAIT_CRA", True) in sc and (s, fx) == (1, 13)
        ctx.ob("C07.P2", q, ok, "the inline S1F14 answers an S1F13 received in WAIT_CRA" if ok else f"inline S1F14 sent under {sc} for S{s}F{fx}", key="s1f14-branch", where=f.where)
    # no other transition to COMMUNICATING / no transition in other states
    others = [n for n in cfg.real_nodes() if any(c.startswith("self._communication_state.") and c.split(".")[-1] not in ("s1f14received", "s1f13received", "current") for c in n.call_names())]
    ctx.ob("C07.P2", q, not others, "no other transition is requested from the receive path" if not others else f"additional transitions on the receive path: {[o.text() for o in others]}", key="no-other-transition", where=f.where)


def _guarded_by_zero(cfg, node, depends, truthiness=True) -> bool:
    """truthiness=False: only a comparison with 0 counts.  For a value decoded from a received item `not x` is not
    `x == 0`: an item of length zero reads as an empty list, which is falsy."""
    for p, v in cfg.dominating_conditions(node, derive=True):
        if isinstance(p, ast.Compare) and len(p.ops) == 1 and isinstance(p.comparators[0], ast.Constant) and p.comparators[0].value == 0 and depends(p.left):
            if isinstance(p.ops[0], ast.Eq) and v:
                return True
            if isinstance(p.ops[0], ast.NotEq) and not v:
                return True
        if truthiness and not isinstance(p, (ast.Compare, ast.BoolOp, ast.UnaryOp)) and depends(p) and not v:
            return True  # `if not commack:` - the value is falsy, i.e. 0
    return False


def check_link_loss(ctx):
    repo = ctx.repo
    ref = _ref()
    gh = repo.cls("GemHandler")
    init = gh.methods["__init__"]
    ctx.touch(init)
    # listeners registered on protocol events
    regs = {}
    for st in rules.func_stmts(init.node):
        if isinstance(st, ast.AugAssign) and ".events." in norm(st.target):
            regs[norm(st.target).split(".")[-1]] = norm(st.value)
    for c in calls_in(init.node):
        if isinstance(c.func, ast.Attribute) and c.func.attr == "register" and ".events." in norm(c.func.value) and "_protocol" in norm(c.func.value):
            regs[norm(c.func.value).split(".")[-1]] = norm(c.args[0])
    ok = regs.get("communicating") == "self._on_communicating"
    ctx.ob("C07.P3", "GemHandler.__init__", ok, "the handler listens to the protocol's communicating event" if ok else "the handler does not listen to `communicating`: S1F13 is never sent", key="communicating-wired", where=init.where)
    oc = gh.methods["_on_communicating"]
    ok = any(call_name(c) == "self._communication_state.select" for c in calls_in(oc.node))
    ctx.ob("C07.P3", oc.qualname, ok, "link selected => select transition (NOT_COMMUNICATING -> WAIT_CRA)" if ok else "_on_communicating does not perform select()", where=oc.where)
    # link loss
    listener = regs.get("disconnected")
    has_event_method = any(c.find_method("_on_event_disconnected") is not None for c in [gh])
    handler = None
    if listener and listener.startswith("self."):
        handler = gh.find_method(listener.split(".", 1)[1])
    elif has_event_method:
        handler = gh.find_method("_on_event_disconnected")
    if handler is None:
        occ = gh.methods.get("on_connection_closed")
        callers = [f.qualname for f in repo.functions if f.node is not (occ.node if occ else None) and any((call_name(c) or "").endswith(".on_connection_closed") and not (call_name(c) or "").startswith("super()") for c in calls_in(f.node))]
        ctx.ob("C07.P3", "GemHandler", False,
               "loss of the link never reaches the communication state machine: nothing listens to the protocol's `disconnected` event and on_connection_closed() has no caller"
               + (f" (callers: {callers})" if callers else "") + " - after a peer close the handler keeps reporting COMMUNICATING, and a loss in WAIT_CRA/WAIT_DELAY makes the next select() raise so no S1F13 is sent on the new link",
               key="link-loss-wired", where=gh.where)
    else:
        m = machines.extract(repo, "CommunicationStateMachine")
        reach = set()
        for c in calls_in(handler.node):
            cn = call_name(c) or ""
            if cn.startswith("self._communication_state."):
                t = m.by_name((m.methods.get(cn.split(".")[-1]) or [None])[0]) if cn.split(".")[-1] in m.methods else None
                if t:
                    reach |= {m.states[s]["name"] for s in t["sources"]}
        missing = [s for s in ref["enabled_leaves"] if s not in reach and s != "NOT_COMMUNICATING"]
        ctx.ob("C07.P3", handler.qualname, not missing, "link loss leaves every enabled state that depends on the link" if not missing else f"link loss is not handled in {missing}", key="link-loss-wired", where=handler.where)
    occ = gh.methods.get("on_connection_closed")
    if occ is not None:
        ctx.touch(occ)
        cfg = cfg_of(occ.node)
        cf = [n for n in cfg.real_nodes() if any(c == "self._communication_state.communicationfail" for c in n.call_names())]
        ok = len(cf) == 1 and ("COMMUNICATING", True) in _state_conds(cfg, cf[0])
        ctx.ob("C07.P3", occ.qualname, ok, "on_connection_closed leaves COMMUNICATING via communicationfail" if ok else "on_connection_closed does not perform communicationfail() exactly when COMMUNICATING", key="communicationfail", where=occ.where)
    # the handler classes are assembled from capability mix-ins: whichever class of the hierarchy answers
    # on_connection_closed first must pass the call on, or GemHandler's (the one that leaves COMMUNICATING) is never reached
    if occ is not None:
        for cname in ("GemEquipmentHandler", "GemHostHandler"):
            leaf = repo.cls(cname)
            chain = [k for k in leaf.mro if "on_connection_closed" in k.methods]
            ctx.require(any(k.name == "GemHandler" for k in chain), f"{cname}: GemHandler.on_connection_closed is not in the method resolution order")
            cut = []
            for k in chain:
                if k.name == "GemHandler":
                    break
                m_ = k.methods["on_connection_closed"]
                ctx.touch(m_)
                cfg_ = cfg_of(m_.node)
                sup_ = [n for n in cfg_.real_nodes() if any(c == "super().on_connection_closed" for c in n.call_names())]
                if not (len(sup_) == 1 and cfg_.count_on_paths(lambda n: n in sup_, cfg_.entry, cfg_.exit, no_exc=True) == (1, 1)):
                    cut.append(m_.qualname)
            ctx.ob("C07.P3", f"{cname}.on_connection_closed", not cut, "every override on the way to GemHandler.on_connection_closed passes the call on" if not cut else
                   f"{cut} answer on_connection_closed for {cname} without calling super().on_connection_closed() on every path: GemHandler.on_connection_closed is never reached, the handler stays COMMUNICATING after the link is lost",
                   key="link-loss-chain", where=leaf.where)
    # "reported as established only after an exchange on the current link": what a handler keeps about its own link (the
    # events of callers waiting for COMMUNICATING, ...) is its own - a mutable object made in a class body and changed in
    # place belongs to every handler of the process, and one link's establishment wakes the waiters of another
    family = [gh] + list(repo.subclasses("GemHandler"))
    shared = rules.shared_class_state(repo, family)
    ctx.ob("C07.P3", "GemHandler", not shared, f"no handler state is shared between handler objects ({len(family)} classes and their bases read)" if not shared else
           "; ".join(f"`{o.name}.{n} = {norm(e)}` is created once in the class body and changed in place ({how}): every handler object of the process shares it" for o, n, e, how in shared[:3]),
           key="per-object-state", where=gh.where)
    eq = repo.cls("GemEquipmentHandler").methods.get("on_connection_closed")
    if eq is not None:
        ctx.touch(eq)
        cfg = cfg_of(eq.node)
        sup = [n for n in cfg.real_nodes() if any(c == "super().on_connection_closed" for c in n.call_names())]
        ctl = [n for n in cfg.real_nodes() if any(c.startswith("self._control_state.") and c.split(".")[-1] != "current" for c in n.call_names())]
        ok = len(sup) == 1 and all(cfg.dominates(sup[0], n) for n in ctl)
        ctx.ob("C07.P3", eq.qualname, ok, "the equipment leaves COMMUNICATING before it updates the control state" if ok else
               "the control-state update (whose attempt-online handler consults the communication state and probes the host) runs before the communication state is left: the handler still reports COMMUNICATING and blocks for T3 on the dead link",
               key="comm-before-control", where=eq.where)
    # enable / disable order
    for name, first, second in (("enable", "self._communication_state.enable", "self.protocol.enable"), ("disable", "self.protocol.disable", "self._communication_state.disable")):
        m_ = gh.methods[name]
        ctx.touch(m_)
        cfg = cfg_of(normal.normalised(ctx, m_))  # locals that stand for the machine / the protocol are read through
        a = [n for n in cfg.real_nodes() if any(c == first for c in n.call_names())]
        b = [n for n in cfg.real_nodes() if any(c == second for c in n.call_names())]
        ok = len(a) == 1 and len(b) == 1 and cfg.count_on_paths(lambda n: n in a + b, cfg.entry, cfg.exit, no_exc=True) == (2, 2)
        ctx.ob("C07.P4", m_.qualname, ok, f"{name}() performs {first.split('.', 1)[1]} and {second.split('.', 1)[1]} on every path" if ok else f"{name}() does not perform both {first} and {second} on every path", where=m_.where)
        if ok and name == "enable":
            # a transport may report the link as up from inside its own enable() (serial SECS-I does): the state machine
            # must already be ENABLED then, or select() is refused in DISABLED and no S1F13 is ever sent
            ok2 = cfg.dominates(a[0], b[0])
            ctx.ob("C07.P4", m_.qualname, ok2, "the communication state machine is enabled before the link can come up" if ok2 else
                   "enable() opens the link before the communication state machine is enabled: a link that is up immediately (SECS-I serial, or a peer already waiting) is reported while the machine is still DISABLED; select() raises, no S1F13 is sent and the handler stays NOT_COMMUNICATING with the link up",
                   key="enable-order", where=m_.where)


def check_timers(ctx, m):
    repo = ctx.repo
    cls = m.cls
    regs = {(r["on"], r["event"]): r["handler"] for r in m.registrations}
    spec = {
        "wait_cra": {"timer": "self._wait_cra_timer", "duration": "self._settings.timeouts.t3", "transition": "communicationreqfail"},
        "wait_delay": {"timer": "self._comm_delay_timer", "duration": "self._settings.establish_communication_timeout", "transition": "delayexpired"},
    }
    for state, sp in spec.items():
        enter = regs.get((state, "enter"))
        leave = regs.get((state, "leave"))
        ok = enter is not None and leave is not None
        ctx.ob("C07.P4", "CommunicationStateMachine", ok, f"{state} has enter and leave handlers" if ok else f"{state}: enter handler {enter}, leave handler {leave}", key="handlers " + state, where=cls.where)
        if not ok:
            continue
        eh, lh = cls.methods[enter], cls.methods[leave]
        ctx.touch(eh)
        ctx.touch(lh)
        timers = [c for c in calls_in(eh.node) if call_name(c) == "threading.Timer"]
        ok = len(timers) == 1
        ctx.ob("C07.P4", eh.qualname, ok, "entering the state creates one timer" if ok else f"{len(timers)} timers created on enter", key="arms", where=eh.where)
        if not ok:
            continue
        ecfg = cfg_of(eh.node)
        made = ecfg.count_on_paths(lambda n: any(call_name(c) == "threading.Timer" for c in n.calls), ecfg.entry, ecfg.exit, no_exc=True)
        started = ecfg.count_on_paths(lambda n: any(c == f"{sp['timer']}.start" for c in n.call_names()), ecfg.entry, ecfg.exit, no_exc=True)
        ok = made == (1, 1) and started == (1, 1)
        ctx.ob("C07.P4", eh.qualname, ok, "every entry into the state arms a fresh timer and starts it" if ok else
               f"timer created {made} / started {started} times per entry: an entry that does not arm the timer (e.g. only when none was created before) leaves the state without its expiry - the attempt is never retried",
               key="arms-every-entry", where=eh.where)
        t = timers[0]
        dur, cb = rules.expand(eh.node, t.args[0]), dotted(t.args[1])
        ok = dur == sp["duration"]
        ctx.ob("C07.P4", eh.qualname, ok, f"the timer runs for {sp['duration']}" if ok else f"the timer runs for {dur}, not {sp['duration']}", key="duration", where=eh.where)
        assigned = [dotted(tg) for s in rules.func_stmts(eh.node) if isinstance(s, ast.Assign) and s.value is t for tg in s.targets]
        started = any(call_name(c) == f"{sp['timer']}.start" for c in calls_in(eh.node))
        ok = assigned == [sp["timer"]] and started
        ctx.ob("C07.P4", eh.qualname, ok, "the timer is stored and started" if ok else "the timer is not stored in its field and started", key="started", where=eh.where)
        cbm = cls.methods.get((cb or "").split(".")[-1])
        performed = [rules.literal(cbm.node, c.args[0])[1] for c in calls_in(cbm.node) if call_name(c) == "self._perform_transition" and c.args] if cbm else []
        ok = performed == [sp["transition"]]
        ctx.ob("C07.P4", eh.qualname, ok, f"the timer's callback performs exactly {sp['transition']}" if ok else f"the timer's callback performs {performed}, expected [{sp['transition']}]", key="callback", where=eh.where)
        names = [call_name(c) or "" for c in calls_in(lh.node)]
        ok = f"{sp['timer']}.cancel" in names
        ctx.ob("C07.P4", lh.qualname, ok, "leaving the state cancels its timer" if ok else "leaving the state does not cancel its timer: a stale expiry fires a transition in a later state", key="cancels", where=lh.where)
        joins = [n for n in names if n.endswith(".join")]
        ctx.ob("C07.P4", lh.qualname, not joins, "the leave handler does not wait for the timer thread" if not joins else
               f"the leave handler calls {joins[0]}(): when the expiry itself triggers the transition the handler runs on the timer thread, join() raises 'cannot join current thread', the transition aborts after the state was left half-way and the attempt is never retried",
               key="no-join", where=lh.where)
    # S1F13 on entering WAIT_CRA (GemHandler side)
    gh = repo.cls("GemHandler")
    init = gh.methods["__init__"]
    init_n = normal.normalised(ctx, init)  # a local that holds the freshly created state machine is the attribute it is stored in
    regs2 = {norm(c.func.value): norm(c.args[0]) for c in calls_in(init_n) if isinstance(c.func, ast.Attribute) and c.func.attr == "register" and c.args}
    h = regs2.get("self._communication_state.wait_cra.events.enter")
    ok = h == "self._on_state_wait_cra"
    ctx.ob("C07.P4", "GemHandler.__init__", ok, "entering WAIT_CRA is wired to the S1F13 sender" if ok else f"WAIT_CRA enter handler is {h}", key="wait-cra-wired", where=init.where)
    sender = gh.methods["_on_state_wait_cra"]
    ctx.touch(sender)
    cfg = cfg_of(sender.node)
    sends = [(n, c) for n in cfg.real_nodes() for c in n.calls if call_name(c) == "self.send_stream_function"]
    cnt = cfg.count_on_paths(lambda n: any(n is s for s, _ in sends), cfg.entry, cfg.exit, no_exc=True)
    values = [(v, conds) for n, c in sends if c.args for v, conds in rules.reaching_values(sender.node, cfg, n, c.args[0])]
    is_s1f13 = lambda v: isinstance(v, ast.Call) and isinstance(v.func, ast.Call) and call_name(v.func) == "self.stream_function" and [norm(x) for x in v.func.args] == ["1", "13"]  # noqa: E731
    ok = cnt == (1, 1) and bool(values) and all(is_s1f13(v) for v, _ in values)
    ctx.ob("C07.P4", sender.qualname, ok, "entering WAIT_CRA sends exactly one S1F13" if ok else f"S1F13 sends on entering WAIT_CRA: {cnt}, values {[norm(v) for v, _ in values]}", key="s1f13-once", where=sender.where)
    for v, conds in values:
        if not is_s1f13(v):
            continue
        host = any(norm(t) == "self._is_host" and tv for t, tv in conds)
        body = v.args
        ok = (host and not body) or (not host and len(body) == 1 and norm(body[0]) == "[self._mdln, self._softrev]")
        ctx.ob("C07.P4", sender.qualname, ok, ("host sends an empty S1F13" if host else "equipment sends S1F13 with MDLN/SOFTREV") if ok else f"S1F13 body for {'host' if host else 'equipment'} is {[norm(b) for b in body]}", key="s1f13-body " + ("host" if host else "equipment"), where=sender.where)
    h = regs2.get("self._communication_state.communicating.events.enter")
    ok = h == "self._on_state_communicating"
    ctx.ob("C07.P4", "GemHandler.__init__", ok, "entering COMMUNICATING is wired to the handler_communicating notifier" if ok else f"COMMUNICATING enter handler is {h}", key="communicating-wired", where=init.where)
    sc = gh.methods["_on_state_communicating"]
    fires = [c for c in calls_in(sc.node) if (call_name(c) or "").endswith("events.fire") and c.args and isinstance(c.args[0], ast.Constant) and c.args[0].value == "handler_communicating"]
    sets = [c for c in calls_in(sc.node) if (call_name(c) or "").endswith(".set")]
    ok = len(fires) == 1 and len(sets) >= 1
    ctx.ob("C07.P4", sc.qualname, ok, "handler_communicating is fired and waiters are released when COMMUNICATING is entered" if ok else "entering COMMUNICATING does not fire handler_communicating / release waiters", where=sc.where)


def run(ctx):
    m = check_machine(ctx)
    check_message_received(ctx)
    check_link_loss(ctx)
    check_timers(ctx, m)
