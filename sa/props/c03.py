"""C03 - every catalogued stream/function round-trips and is found by its S/F numbers."""

from __future__ import annotations

import ast
import os
import re

from ..cfg import cfg_of
from ..model import AnalysisError, call_name, calls_in, dotted, norm, walk_no_nested
from .. import fde, rules, sfdl

META = {
    "explanation": "Exhaustive table rules over all 134 function classes and 124 data-item classes: the Python classes and the two "
    "YAML catalogues agree field by field; primary/secondary pairing, reply flags and directions agree with the partner "
    "function; every structure parses under an independent reader of the documented SFDL grammar, names only catalogued "
    "data items, derives distinct member keys and stays inside the region where documented and implemented naming agree; "
    "lookup by (stream, function) is unique and tests both numbers; the body round trip is delegated to the variable tree "
    "(C01) without shortcuts that lose empty values; the default catalogue list is never shared mutably between containers; "
    "Dynamic picks the preferred type before the generic one.",
    "decides": [
        "C03.T1 functions/*.py = functions.yaml (stream, function, class/file name, direction, reply, reply_required, multi_block, structure modulo whitespace); _all and __init__ list every class exactly once",
        "C03.T2 pairing: odd F has_reply <=> S,F+1 exists; reply_required => has_reply; directions of the secondary mirror the primary; even F carry no reply flags and have a primary",
        "C03.T3 data_items/*.py = data_items.yaml (type, ordered allowed types, length, constants)",
        "C03.T4 every structure: balanced, only catalogued item names, distinct member keys per record, outside the documented/implemented naming deviation region",
        "C03.P1 StreamsFunctions.function compares stream AND function; decode selects by the header's numbers and decodes into a fresh instance; the default container owns a private copy of the catalogue",
        "C03.P2 SecsStreamFunction encode/decode/get delegate to the variable tree and treat only `data is None` as header-only",
        "C03.P3 Dynamic._match_type tries preferred Python types (in declared order) before generic support; preferred_types table",
        "C03.P4 Dynamic.decode refuses only unsupported format codes (shared with C02.T1)",
        "C03.P5 every class a data item lists as an allowed type can be built the way Dynamic._match_type builds its candidates (count only)",
    ],
    "does_not_decide": ["which alternative type Dynamic picks for an arbitrary plain value (value dependent)", "value equality of the body round trip beyond C01"],
    "assumptions": ["PyYAML parses the catalogues as the library's generator did"],
}

FN_RE = re.compile(r"^SecsS(\d\d)F(\d\d)$")


def _squash(s):
    return "".join((s or "").split())


def _load_yaml(repo, relpath):
    import yaml

    return yaml.safe_load(repo.read_text(relpath))


def function_classes(repo):
    out = {}
    for cls in repo.classes.values():
        m = FN_RE.match(cls.name)
        if m and cls.module.name.startswith("secsgem.secs.functions.s"):
            out[(int(m.group(1)), int(m.group(2)))] = cls
    return out


def check_functions(ctx):
    repo = ctx.repo
    y = _load_yaml(repo, os.path.join("secsgem", "secs", "functions.yaml"))
    classes = function_classes(repo)
    ctx.floor("function classes", len(classes), 134)
    ykeys = {}
    for k in y:
        m = re.match(r"^S(\d\d)F(\d\d)$", k)
        ctx.require(m is not None, f"functions.yaml key {k} is not SxxFyy")
        ykeys[(int(m.group(1)), int(m.group(2)))] = y[k]
    ok = set(ykeys) == set(classes)
    ctx.ob("C03.T1", "catalogue", ok, f"functions.yaml and functions/*.py define the same {len(classes)} stream/functions" if ok else
           f"only in yaml: {sorted(set(ykeys) - set(classes))}, only in py: {sorted(set(classes) - set(ykeys))}", key="same-set", where="secsgem/secs/functions.yaml")
    flag_map = {"_to_host": "to_host", "_to_equipment": "to_equipment", "_has_reply": "reply", "_is_reply_required": "reply_required", "_is_multi_block": "multi_block"}
    facts = {}
    for (S, F), cls in sorted(classes.items()):
        ctx.touch(cls)
        st, fn = repo.const(cls, "_stream"), repo.const(cls, "_function")
        fname = os.path.basename(cls.module.path)
        ok = (st, fn) == (S, F) and fname == f"s{S:02d}f{F:02d}.py"
        ctx.ob("C03.T1", cls.name, ok, f"{cls.name}: _stream/_function/file name agree" if ok else f"{cls.name} in {fname} declares S{st}F{fn}: lookup by the header's numbers finds the wrong class", key="numbers", where=cls.where)
        flags = {a: repo.const(cls, a) for a in flag_map}
        fmt = repo.const(cls, "_data_format") if cls.find_const_expr("_data_format")[1] is not None else None
        facts[(S, F)] = (flags, fmt)
        spec = ykeys.get((S, F))
        if spec is None:
            continue
        bad = {a: (flags[a], spec.get(yk)) for a, yk in flag_map.items() if flags[a] != spec.get(yk)}
        ctx.ob("C03.T1", cls.name, not bad, f"{cls.name}: direction/reply/multi-block flags = yaml" if not bad else f"{cls.name}: flags differ from functions.yaml: " + ", ".join(f"{a}={v[0]} (yaml {v[1]})" for a, v in bad.items()), key="flags", where=cls.where)
        ok = _squash(fmt if isinstance(fmt, str) else "") == _squash(spec.get("structure"))
        ctx.ob("C03.T1", cls.name, ok, f"{cls.name}: structure = yaml" if ok else f"{cls.name}: _data_format differs from the yaml structure", key="structure", where=cls.where)
    # registries
    for modname, what in (("secsgem.secs.functions._all", "secs_streams_functions"), ("secsgem.secs.functions", "__all__")):
        mod = repo.module(modname)
        lst = mod.defs.get(what)
        ctx.require(isinstance(lst, ast.List), f"{modname}.{what} is not a list literal")
        names = [norm(e).strip("'\"") for e in lst.elts]
        fnames = [n for n in names if FN_RE.match(n)]
        dup = sorted({n for n in fnames if fnames.count(n) > 1})
        missing = sorted(c.name for c in classes.values() if c.name not in fnames)
        ok = not dup and not missing
        ctx.ob("C03.T1", f"{modname}.{what}", ok, f"lists each of the {len(classes)} function classes exactly once" if ok else f"duplicates {dup}, missing {missing}: " + ("lookup raises 'more than one function'" if dup else "the function is not found by its numbers"),
               where=os.path.relpath(mod.path, repo.root))
    return classes, facts


def check_pairing(ctx, classes, facts):
    for (S, F), cls in sorted(classes.items()):
        flags, _ = facts[(S, F)]
        if F == 0:
            continue
        if F % 2 == 1:
            partner = (S, F + 1) in classes
            ok = flags["_has_reply"] == partner
            ctx.ob("C03.T2", cls.name, ok, f"{cls.name}: has_reply = {flags['_has_reply']} and S{S}F{F + 1} {'exists' if partner else 'does not exist'}" if ok else
                   f"{cls.name} declares reply={flags['_has_reply']} although its secondary S{S}F{F + 1} {'exists' if partner else 'does not exist'}", key="has-reply", where=cls.where)
            ok = (not flags["_is_reply_required"]) or flags["_has_reply"]
            ctx.ob("C03.T2", cls.name, ok, f"{cls.name}: reply_required implies has_reply" if ok else f"{cls.name}: reply is required but no reply is declared", key="required-implies-reply", where=cls.where)
            if partner:
                pf, _ = facts[(S, F + 1)]
                ok = pf["_to_host"] == flags["_to_equipment"] and pf["_to_equipment"] == flags["_to_host"]
                ctx.ob("C03.T2", cls.name, ok, f"{cls.name}: the secondary travels in the opposite direction(s)" if ok else
                       f"{cls.name} (to_host={flags['_to_host']}, to_equipment={flags['_to_equipment']}) and S{S}F{F + 1} (to_host={pf['_to_host']}, to_equipment={pf['_to_equipment']}) are not mirrored", key="directions", where=cls.where)
        else:
            ok = not flags["_has_reply"] and not flags["_is_reply_required"]
            ctx.ob("C03.T2", cls.name, ok, f"{cls.name}: a secondary expects no reply" if ok else f"{cls.name} is a secondary but declares reply flags", key="secondary-flags", where=cls.where)
            ok = (S, F - 1) in classes
            ctx.ob("C03.T2", cls.name, ok, f"{cls.name}: its primary S{S}F{F - 1} is catalogued" if ok else f"{cls.name} has no primary S{S}F{F - 1}", key="has-primary", where=cls.where)


def data_item_classes(repo):
    out = {}
    for cls in repo.classes.values():
        if cls.module.name.startswith("secsgem.secs.data_items.") and cls.find_const_expr("__type__")[1] is not None and cls.name not in ("DataItemBase",):
            out[cls.name] = cls
    return out


def _type_names(expr):
    if isinstance(expr, ast.List):
        return [norm(e).split(".")[-1] for e in expr.elts]
    return norm(expr).split(".")[-1]


def check_data_items(ctx):
    repo = ctx.repo
    y = _load_yaml(repo, os.path.join("secsgem", "secs", "data_items.yaml"))
    classes = data_item_classes(repo)
    ctx.floor("data item classes", len(classes), 124)
    ok = set(y) == set(classes)
    ctx.ob("C03.T3", "catalogue", ok, f"data_items.yaml and data_items/*.py define the same {len(classes)} items" if ok else f"only in yaml: {sorted(set(y) - set(classes))}, only in py: {sorted(set(classes) - set(y))}", key="same-set", where="secsgem/secs/data_items.yaml")
    for name, cls in sorted(classes.items()):
        spec = y.get(name)
        if spec is None:
            continue
        ctx.touch(cls)
        owner, texpr = cls.find_const_expr("__type__")
        typ = _type_names(texpr)
        ytype = spec.get("type")
        if isinstance(ytype, list):
            _, aexpr = cls.find_const_expr("__allowedtypes__")
            allowed = _type_names(aexpr) if aexpr is not None else None
            ok = typ == "Dynamic" and allowed == ytype
            got = f"Dynamic{allowed}"
        else:
            ok = typ == ytype
            got = typ
        ctx.ob("C03.T3", name, ok, f"{name}: type {got} = yaml" if ok else f"{name}: type {got} differs from data_items.yaml {ytype} (order matters: the first allowed type is the default)", key="type", where=cls.where)
        _, cexpr = cls.find_const_expr("__count__")
        count = repo.fold(cexpr, cls.module, cls) if cexpr is not None else -1
        ylen = spec.get("length", -1)
        ok = count == ylen
        ctx.ob("C03.T3", name, ok, f"{name}: length {count} = yaml" if ok else f"{name}: __count__ {count} differs from yaml length {ylen}", key="length", where=cls.where)
        consts = {}
        for vk, vs in (spec.get("values") or {}).items():
            if isinstance(vs, dict) and vs.get("constant") and re.match(r"^-?\d+$", str(vk)):
                consts[vs["constant"]] = int(vk)
        if consts:
            got = {k: v for k, v in repo.enum_members(cls).items() if k in consts}
            ok = got == consts
            ctx.ob("C03.T3", name, ok, f"{name}: {len(consts)} named constants = yaml" if ok else f"{name}: constants {got} differ from yaml {consts}", key="constants", where=cls.where)
        ok = repo.const(cls, "name") == name if cls.find_const_expr("name")[1] is not None else False
        ctx.ob("C03.T3", name, ok, f"{name}: member key name = class name" if ok else f"{name}: `name` attribute is not '{name}' (record keys are derived from it)", key="name", where=cls.where)
    return classes


def deviation_reasons(tree):
    """Shapes of named lists on which the documented naming rule and the implemented one are known to differ."""
    out = []
    for lst in sfdl.walk_lists(tree):
        _, name, ch = lst
        if not name:
            continue
        if len(ch) == 1 and ch[0][0] == "item":
            out.append(f"named list {name} with a single data item (documented: open list keyed {name}; implemented: one-field record)")
        elif len(ch) == 1 and ch[0][0] == "list" and (ch[0][1] or len(ch[0][2]) < 2):
            out.append(f"named list {name} whose only member is a named or single-member list")
        elif len(ch) >= 2 and ch[0][0] == "list":
            out.append(f"named list {name} whose first member is a list (the name is handed down to the members)")
    return out


def check_structures(ctx, classes, facts, items):
    repo = ctx.repo
    n = 0
    for (S, F), cls in sorted(classes.items()):
        _, fmt = facts[(S, F)]
        if not isinstance(fmt, str):
            continue
        n += 1
        try:
            tree = sfdl.parse(fmt)
        except sfdl.SfdlError as exc:
            ctx.ob("C03.T4", cls.name, False, f"{cls.name}: structure is not well-formed SFDL: {exc}", key="parses", where=cls.where)
            continue
        unknown = [i for i in sfdl.items_of(tree) if i not in items]
        dups = []
        for lst in sfdl.walk_lists(tree):
            if len(lst[2]) >= 2:
                keys = [sfdl.member_key(c) for c in lst[2]]
                dups += [k for k in set(keys) if keys.count(k) > 1]
        dev = deviation_reasons(tree)
        ok = not unknown and not dups and not dev
        ctx.ob("C03.T4", cls.name, ok, f"{cls.name}: structure well-formed, {len(sfdl.items_of(tree))} catalogued items, distinct keys" if ok else
               f"{cls.name}: " + "; ".join(([f"unknown data items {unknown}"] if unknown else []) + ([f"two members of one record share the key {sorted(set(dups))} (one is silently dropped)"] if dups else []) + dev),
               key="structure", where=cls.where)
    ctx.floor("functions with a structure", n, 100)


REF_LOOKUP = {
    "function": """
def function(self, stream, function):
    functions = [func for func in self._functions if func.stream == stream and func.function == function]
    if len(functions) == 0:
        return None
    if len(functions) > 1:
        raise ValueError()
    return functions[0]
""",
    "decode": """
def decode(self, message):
    if message is None:
        raise ValueError()
    func = self.function(message.header.stream, message.header.function)
    if func is None:
        raise ValueError()
    if isinstance(message.data, SecsStreamFunction):
        return message.data
    function = func()
    function.decode(message.data)
    return function
""",
    "sf_encode": """
def encode(self):
    if self.data is None:
        return b""
    return self.data.encode()
""",
    "sf_decode": """
def decode(self, data):
    if self.data is not None:
        self.data.decode(data)
""",
}


def check_lookup(ctx):
    repo = ctx.repo
    f = repo.method("StreamsFunctions", "function", inherited=False)
    ctx.touch(f)
    from . import _codec

    _codec.agree(ctx, "C03.P1", f, REF_LOOKUP["function"], {
        "returns": "lookup keeps exactly the classes whose stream AND function equal the requested numbers: none => None, one => that class",
        "raises": "several classes for one pair are an error",
    }, key_prefix="filter ")
    d = repo.method("StreamsFunctions", "decode", inherited=False)
    _codec.agree(ctx, "C03.P1", d, REF_LOOKUP["decode"], {
        "returns": "the class is selected by the header's stream and function only; the body is decoded into a fresh instance of that class (an already decoded body is passed through)",
        "raises": "a missing message or an unknown stream/function is refused",
    }, key_prefix="fresh ")
    # default container owns a private copy of the catalogue
    init = repo.method("StreamsFunctions", "__init__", inherited=False)
    ctx.touch(init)
    mutators = [m.name for m in repo.cls("StreamsFunctions").methods.values() if any(isinstance(c.func, ast.Attribute) and c.func.attr in ("append", "remove", "extend", "insert", "pop", "clear") and norm(c.func.value) == "self._functions" for c in calls_in(m.node))]
    shared = []
    copied = False
    for n in walk_no_nested(init.node):
        if isinstance(n, ast.Name) and n.id == "secs_streams_functions":
            pass
    for st in rules.func_stmts(init.node):
        if isinstance(st, ast.Assign):
            txt_v = norm(st.value)
            if "secs_streams_functions" in txt_v:
                if re.search(r"secs_streams_functions\.copy\(\)|list\(secs_streams_functions\)|secs_streams_functions\[:\]|\[\*secs_streams_functions\]", txt_v) and not re.search(r"\bor secs_streams_functions\b(?!\.copy)", txt_v):
                    copied = True
                else:
                    shared.append(norm(st))
    ok = copied and not shared or not mutators
    ctx.ob("C03.P1", init.qualname, ok, "a default container works on its own copy of the catalogue list" if ok else
           f"`{shared[0] if shared else 'the catalogue list'}` puts the module-level catalogue list itself into the container while {mutators} mutate it in place: an update() on one container changes what every other container finds for those numbers", key="private-copy", where=init.where)


def check_delegation(ctx):
    repo = ctx.repo
    cls = repo.cls("SecsStreamFunction")
    enc, dec, get, init = cls.methods["encode"], cls.methods["decode"], cls.methods["get"], cls.methods["__init__"]
    for m in (enc, dec, get, init):
        ctx.touch(m)
    # tests on self.data must be identity tests (variables define __len__: an empty list/array is falsy)
    for m in (enc, dec, get, init):
        cfg = cfg_of(m.node)
        bad = []
        for n in cfg.nodes:
            if n.kind != "test":
                continue
            parts = n.ast.values if isinstance(n.ast, ast.BoolOp) else [n.ast]
            for p in parts:
                q = p.operand if isinstance(p, ast.UnaryOp) and isinstance(p.op, ast.Not) else p
                if norm(q) == "self.data":
                    bad.append(norm(n.ast))
        ctx.ob("C03.P2", m.qualname, not bad, "header-only is decided by `data is None`" if not bad else
               f"`{bad[0]}` tests the truthiness of the variable tree; variables define __len__, so a zero-length list/text is treated like 'no body' (e.g. S1F3([]) is sent as an empty body that the receiver cannot decode)", key="identity-test", where=m.where)
    from . import _codec

    _codec.agree(ctx, "C03.P2", enc, REF_LOOKUP["sf_encode"], {"returns": "the body is exactly the variable tree's encoding (empty only when the function has no structure)"}, key_prefix="encode ")
    _codec.agree(ctx, "C03.P2", dec, REF_LOOKUP["sf_decode"], {"stores": "decoding is delegated to the variable tree from offset 0 (nothing to do for a header-only function)"}, key_prefix="decode ")
    gen = [c for c in calls_in(init.node) if call_name(c) == "functions.generate"]
    ok = len(gen) == 1 and norm(gen[0].args[0]) == "self._data_format"
    ctx.ob("C03.P2", init.qualname, ok, "the variable tree is generated from the class's _data_format" if ok else "the variable tree is not generated from _data_format", key="generate", where=init.where)
    sets = [c for c in calls_in(init.node) if call_name(c) == "self.data.set"]
    ok = len(sets) == 1 and norm(sets[0].args[0]) == init.node.args.args[1].arg
    ctx.ob("C03.P2", init.qualname, ok, "a constructor value is stored through the tree's set()" if ok else "the constructor value is not passed to data.set()", key="set", where=init.where)
    for prop, fld in (("stream", "self._stream"), ("function", "self._function")):
        pm = cls.methods[prop]
        r = [s for s in rules.func_stmts(pm.node) if isinstance(s, ast.Return)]
        ok = len(r) == 1 and norm(r[0].value) == fld
        ctx.ob("C03.P2", pm.qualname, ok, f"{prop} reports {fld}" if ok else f"{prop} returns {norm(r[0].value) if r else None}", where=pm.where)


PREFERRED = {"Boolean": ["bool"], "U1": ["int"], "U2": ["int"], "U4": ["int"], "U8": ["int"], "I1": ["int"], "I2": ["int"], "I4": ["int"], "I8": ["int"], "F4": ["float"], "F8": ["float"],
             "String": ["bytes", "str"], "JIS8": ["bytes", "str"], "Binary": ["bytes", "bytearray"], "Array": ["list"], "List": ["dict"]}


REF_MATCH = """
def _match_type(self, value):
    var_types = self.types
    if not self.types:
        var_types = [Boolean, U1, U2, U4, U8, I1, I2, I4, I8, F4, F8, String, Binary]
    for var_type in var_types:
        if isinstance(value, tuple(var_type.preferred_types)) and var_type(count=self.count).supports_value(value):
            return var_type
    for var_type in var_types:
        if var_type(count=self.count).supports_value(value):
            return var_type
    return None
"""


def check_match_type(ctx):
    repo = ctx.repo
    f = repo.method("Dynamic", "_match_type", inherited=False)
    from . import _codec

    _codec.agree(ctx, "C03.P3", f, REF_MATCH, {
        "returns": "two passes over the candidate types in order: first a type whose preferred Python types include the value's type and that supports the value, then any type that supports it, else None",
    }, key_prefix="preferred-first ")
    for cname, want in PREFERRED.items():
        cls = repo.cls(cname)
        _, expr = cls.find_const_expr("preferred_types")
        got = [norm(e) for e in expr.elts] if isinstance(expr, ast.List) else None
        ok = got == want
        ctx.ob("C03.P3", cname, ok, f"{cname} prefers {want}" if ok else f"{cname}.preferred_types is {got}, expected {want}", key="preferred", where=cls.where)


def check_candidate_constructors(ctx):
    """C03.P5: `Dynamic._match_type` (and `set`) build every candidate type as `var_type(count=...)`.  Every class that a
    data item lists among its allowed types must therefore be constructible from `count` alone - otherwise a plain Python
    value for which that candidate is tried raises TypeError instead of being stored."""
    repo = ctx.repo
    mt = repo.method("Dynamic", "_match_type", inherited=False)
    ctx.touch(mt)
    from .. import inline

    inst = [c for c in calls_in(inline.expanded(ctx, mt)) if isinstance(c.func, ast.Name) and not c.args and [k.arg for k in c.keywords] == ["count"]]
    ctx.require(inst, "Dynamic._match_type: candidates are no longer instantiated as `var_type(count=...)` - the constructor rule has lost its anchor")
    users: dict[str, list] = {}
    for c in repo.classes.values():
        expr = c.consts.get("__allowedtypes__")
        if isinstance(expr, (ast.List, ast.Tuple)):
            for e in expr.elts:
                users.setdefault((dotted(e) or "").split(".")[-1], []).append(c.name)
    ctx.floor("data items with a list of allowed types", sum(len(v) for v in users.values()), 50)
    for tname in sorted(users):
        if not repo.has_cls(tname):
            continue
        init = repo.cls(tname).find_method("__init__")
        args = init.node.args
        names = [a.arg for a in args.args][1:]
        with_default = set(names[len(names) - len(args.defaults):]) if args.defaults else set()
        required = [n for n in names if n not in with_default and n != "count"]
        ok = not required
        ctx.ob("C03.P5", tname, ok, f"{tname}(count=...) is a complete constructor call" if ok else
               f"{tname}.__init__ requires {required}, but Dynamic._match_type builds candidates as `var_type(count=...)`: a plain Python list given to any of the {len(users[tname])} data items that "
               f"allow {tname} ({', '.join(sorted(users[tname])[:6])}, ...) raises TypeError instead of being stored", key="candidate-ctor " + tname, where=mt.where)


def run(ctx):
    check_candidate_constructors(ctx)
    classes, facts = check_functions(ctx)
    check_pairing(ctx, classes, facts)
    items = check_data_items(ctx)
    check_structures(ctx, classes, facts, items)
    check_lookup(ctx)
    check_delegation(ctx)
    check_match_type(ctx)
    from .c02 import check_dynamic

    check_dynamic(ctx, "C03.P4")
    # every allowed alternative type round-trips at its boundary values: the numeric table (shared with C01.T1 / C02.T2)
    from . import _items, c01

    # text items are 8-bit transparent: the single-byte codecs of A and J items (C01.T2)
    from .. import report

    report.share(ctx, "C03.T3", c01.check_text)
    # ... and a body of any length is read back: the item header's length bytes are taken one by one, most significant
    # first (the bit-level header rules of C01.B2 / C02.B2)
    _items.check_header_decode(ctx, "C03.T3", "Base", "decode_item_header", "variables", require_all_accepted=False)
    n = _items.check_numeric_table(ctx, "C03.T3", c01.NUMERIC, c01.VAR_ATTRS)
    ctx.floor("numeric classes", n, 10)
