"""C05 - the HSMS session follows the E37 connect/select state model."""

from __future__ import annotations

import ast
import json
import os

from ..cfg import cfg_of
from ..model import AnalysisError, call_name, calls_in, dotted, norm, walk_no_nested
from .. import callgraph, inline, machines, rules
from .. import conds as cnd

REF = os.path.join(os.path.dirname(os.path.dirname(__file__)), "reference", "e37.json")

META = {
    "explanation": "Step rules on the HSMS control/data handlers of HsmsProtocol, from which the history clause follows by "
    "induction over the declared ConnectionStateMachine (compared with the E37 state table): every request type is "
    "dispatched, each request handler sends exactly one response with the request's system bytes on every path (reject "
    "only while disconnecting) before any transition that can raise, replies are routed before such a transition, data "
    "messages pass the selected-state gate (reject reason 4 with system bytes and SType, exactly once, no delivery), "
    "no raising call precedes the gate, and the connect transition happens before the receive threads start.",
    "decides": [
        "C05.T1 ConnectionStateMachine declaration = E37 state table; SType values = E37",
        "C05.T2 every control SType has a dispatch branch",
        "C05.P1 each request handler: exactly one response (matching *_RSP SType, request's system bytes) or reject (only while disconnecting) per path",
        "C05.P2 data messages: delivery is dominated by the SELECTED test; not selected => exactly one Reject.req(system, s_type, 4), no delivery; selected => exactly one delivery",
        "C05.P3 a response/routing is not preceded by a transition call that can raise",
        "C05.P4 connect transition precedes the start of the receive threads",
        "C05.P5 connected/disconnected wiring: transition + event on every path; select enter handler fires communicating; linktest timer armed/cancelled in pairs",
        "C05.X1 no call that can raise precedes the gate/reject/delivery outside a broad try",
        "C05.P5 (shared clauses) control frames are cut from the byte stream exactly (C04.P1), the receive threads are created anew per connection and not left asleep (dispatcher group), disable() lowers the enabled flag and always closes the open link (C09.W2)",
    ],
    "does_not_decide": ["behaviour over wall-clock timers (T6/T7/linktest period)", "TCP-level ordering", "Separate.req handling beyond dispatch (known finding)"],
    "assumptions": ["_dispatch_block delivers complete messages one at a time (C06.W1)", "handlers read no other mutable state than the connection state and the disconnecting flag (read-set listed in the evidence)"],
}


def _ref():
    with open(REF, encoding="utf-8") as handle:
        return json.load(handle)


def _private(cls_name, name):
    return name


def _method(repo, cls, name):
    m = repo.cls(cls).methods.get(name)
    if m is None:
        raise AnalysisError(f"anchor method {cls}.{name} not found")
    return m


def check_machine(ctx):
    ref = _ref()
    repo = ctx.repo
    m = machines.extract(repo, "ConnectionStateMachine")
    ctx.touch(m.cls.methods["__init__"])
    where = m.cls.where
    by_name = {s["name"]: (a, s) for a, s in m.states.items()}
    ok = set(by_name) == set(ref["states"])
    ctx.ob("C05.T1", "ConnectionStateMachine", ok, "declared states = E37 states" if ok else f"declared states {sorted(by_name)} differ from E37 {sorted(ref['states'])}", key="states", where=where)
    for name, spec in ref["states"].items():
        if name not in by_name:
            continue
        attr, st = by_name[name]
        parent_name = m.states[st["parent"]]["name"] if st["parent"] else None
        ok = parent_name == spec["parent"] and st["initial"] == spec["initial"] and (st["enum"] or "").endswith("." + name)
        ctx.ob("C05.T1", "ConnectionStateMachine", ok, f"state {name}: parent {parent_name}, initial {st['initial']}" if ok else
               f"state {name}: parent {parent_name} / initial {st['initial']} / enum {st['enum']} deviates from E37 (parent {spec['parent']}, initial {spec['initial']})", key="state " + name, where=where)
    declared = {t["name"]: t for t in m.transitions}
    ok = set(declared) == set(ref["transitions"])
    ctx.ob("C05.T1", "ConnectionStateMachine", ok, "declared transitions = E37 transitions" if ok else f"transitions {sorted(declared)} differ from E37 {sorted(ref['transitions'])}", key="transitions", where=where)
    for name, spec in ref["transitions"].items():
        t = declared.get(name)
        if t is None:
            continue
        srcs = sorted(m.states[s]["name"] for s in t["sources"] if s in m.states)
        dst = m.states[t["dest"]]["name"] if t["dest"] in m.states else None
        ok = srcs == sorted(spec["sources"]) and dst == spec["dest"]
        ctx.ob("C05.T1", "ConnectionStateMachine", ok, f"{name}: {srcs} -> {dst} ({spec['e37']})" if ok else
               f"{name}: declared {srcs} -> {dst}, E37 prescribes {sorted(spec['sources'])} -> {spec['dest']} ({spec['e37']})", key="transition " + name, where=where)
    for w in ("connect", "disconnect", "select", "deselect"):
        ok = m.methods.get(w) == [w]
        ctx.ob("C05.T1", "ConnectionStateMachine", ok, f"{w}() performs transition '{w}'" if ok else f"{w}() performs {m.methods.get(w)}", key="wrapper " + w, where=where)
    st = repo.enum_members("HsmsSType")
    ok = st == ref["stypes"]
    ctx.ob("C05.T1", "HsmsSType", ok, "SType values = E37" if ok else f"SType values {st} differ from E37 {ref['stypes']}", where=repo.cls("HsmsSType").where)


def _stype_of_header_class(repo, cname):
    """SType enum member a header subclass passes to HsmsHeader.__init__."""
    cls = repo.cls(cname)
    init = cls.methods.get("__init__")
    if init is None:
        return None, None
    for c in calls_in(init.node):
        if (call_name(c) or "") == "super().__init__":
            args = [norm(a) for a in c.args]
            st = next((a.split(".")[-1] for a in args if a.startswith("HsmsSType.")), None)
            return st, c
    return None, None


def check_send_helpers(ctx):
    """send_<x>_rsp / send_reject_rsp build the right header with the given system bytes and send it once."""
    repo = ctx.repo
    expect = {"send_select_rsp": "SELECT_RSP", "send_deselect_rsp": "DESELECT_RSP", "send_linktest_rsp": "LINKTEST_RSP", "send_reject_rsp": "REJECT_REQ"}
    for name, stype in expect.items():
        f = _method(repo, "HsmsProtocol", name)
        ctx.touch(f)
        fnode = inline.expanded(ctx, f)  # a shared private helper that builds, logs and sends is the code it holds
        params = [a.arg for a in f.node.args.args[1:]]
        hdr_calls = [c for c in calls_in(fnode) if (call_name(c) or "").startswith("Hsms") and (call_name(c) or "").endswith("Header")]
        ctx.require(len(hdr_calls) == 1, f"{f.qualname}: expected one header construction")
        h = hdr_calls[0]
        hst, sup = _stype_of_header_class(repo, call_name(h))
        ok = hst == stype
        ctx.ob("C05.P1", f.qualname, ok, f"{name} builds a header of SType {stype}" if ok else f"{name} builds {call_name(h)} whose SType is {hst}, not {stype}", key="stype", where=f.where)
        ok = [norm(a) for a in h.args] == params
        ctx.ob("C05.P1", f.qualname, ok, "the header is built from the given system bytes (and s_type/reason) in order" if ok else
               f"header arguments {[norm(a) for a in h.args]} are not the parameters {params} in order", key="args", where=f.where)
        cfg = cfg_of(fnode)
        cnt = cfg.count_on_paths(lambda n: any(c == "self.send_message" for c in n.call_names()), cfg.entry, cfg.exit, no_exc=True)
        ok = cnt == (1, 1)
        ctx.ob("C05.P1", f.qualname, ok, "the message is sent exactly once" if ok else f"send_message is called {cnt} times", key="sent-once", where=f.where)
        # the built message (not some other) is what is sent
        sm = next((c for c in calls_in(fnode) if call_name(c) == "self.send_message"), None)
        if sm is None:
            continue  # reported above: the message is not sent through send_message
        msg_vars = {t.id for st in rules.func_stmts(fnode) if isinstance(st, ast.Assign) and h in calls_in(st.value) for t in st.targets if isinstance(t, ast.Name)}
        ok = bool(sm.args) and (norm(sm.args[0]) in msg_vars or h in calls_in(sm.args[0]) or (call_name(h) + "(") in rules.expand(fnode, sm.args[0]))
        ctx.ob("C05.P1", f.qualname, ok, "the sent message is the one built from the header" if ok else f"send_message({norm(sm.args[0]) if sm.args else ''}) does not send the built message", key="sends-built", where=f.where)
    # reject header: (system, 0xFFFF, s_type.value, reason, ..., REJECT_REQ)
    st, sup = _stype_of_header_class(repo, "HsmsRejectReqHeader")
    init = repo.cls("HsmsRejectReqHeader").methods["__init__"]
    params = [a.arg for a in init.node.args.args[1:]]
    args = [norm(a) for a in sup.args]
    ok = len(args) >= 4 and args[0] == params[0] and args[2] == f"{params[1]}.value" and args[3] == params[2]
    ctx.ob("C05.P1", "HsmsRejectReqHeader.__init__", ok, "Reject header carries system bytes, the rejected SType in byte 2 and the reason in byte 3" if ok else
           f"Reject header passes {args}; expected (system, 0xFFFF, s_type.value, reason, ...)", where=init.where)


def _dispatch_table(ctx, f):
    """{SType member: handler method name} from the if/elif chain of __handle_hsms_requests."""
    table = {}
    cfg = cfg_of(f.node)
    for n in cfg.real_nodes():
        handler_calls = [c for c in n.calls if "__handle_hsms_requests_" in (call_name(c) or "")]
        if not handler_calls:
            continue
        conds = cfg.dominating_conditions(n, derive=True)
        members = [norm(t.comparators[0]).split(".")[-1] for t, v in conds if isinstance(t, ast.Compare) and len(t.ops) == 1 and ((isinstance(t.ops[0], (ast.Eq, ast.Is)) and v) or (isinstance(t.ops[0], (ast.NotEq, ast.IsNot)) and not v)) and norm(t.left).endswith(".header.s_type") and norm(t.comparators[0]).startswith("HsmsSType.")]
        ctx.require(len(members) == 1, f"{f.qualname}: cannot determine the SType condition of `{n.text()}`")
        table[members[0]] = (call_name(handler_calls[0]).split(".")[-1], handler_calls[0])
    return table


def check_control(ctx):
    repo = ctx.repo
    ref = _ref()
    cg = callgraph.get(repo)
    f = _method(repo, "HsmsProtocol", "__handle_hsms_requests")
    ctx.touch(f)
    table = _dispatch_table(ctx, f)
    param = f.node.args.args[1].arg
    for member in ref["stypes"]:
        if member == "DATA_MESSAGE":
            continue
        has = member in table
        needs_branch = member in ("SELECT_REQ", "SELECT_RSP", "DESELECT_REQ", "DESELECT_RSP", "LINKTEST_REQ", "SEPARATE_REQ")
        if needs_branch:
            ctx.ob("C05.T2", f.qualname, has, f"{member} is dispatched to {table[member][0]}" if has else
                   f"{member} has no dispatch branch" + (": a Separate.req is ignored instead of ending the session" if member == "SEPARATE_REQ" else ""),
                   key="branch " + member, where=f.where)
    # else branch: responses without a dedicated handler are routed to the waiting requester
    handlers = {m for m in f.cls.methods if "__handle_hsms_requests_" in m}
    cfg = cfg_of(inline.expanded(ctx, f, keep=handlers))  # a shared hand-over helper is part of the dispatcher
    puts = _routing_nodes(cfg)
    ok = bool(puts)
    ctx.ob("C05.T2", f.qualname, ok, "other control messages (Linktest.rsp, Reject.req) are routed to the waiting requester" if ok else
           "Linktest.rsp / Reject.req are not routed to the waiting requester", key="else-routing", where=f.where)
    for member, (hname, call) in sorted(table.items()):
        ok = [norm(a) for a in call.args] == [param]
        ctx.ob("C05.T2", f.qualname, ok, f"{hname} receives the message" if ok else f"{hname} is called with {[norm(a) for a in call.args]}", key="arg " + member, where=f.where)
        h = _method(repo, "HsmsProtocol", hname)
        ctx.touch(h)
        if member.endswith("_REQ") and member in ref["response_of"]:
            _check_request_handler(ctx, cg, h, member, ref["response_of"][member])
        elif member.endswith("_RSP"):
            _check_response_handler(ctx, cg, h, member)


_RSP_SENDER = {"SELECT_RSP": "send_select_rsp", "DESELECT_RSP": "send_deselect_rsp", "LINKTEST_RSP": "send_linktest_rsp"}
_TRANSITION = {"SELECT_REQ": "select", "DESELECT_REQ": "deselect", "SELECT_RSP": "select", "DESELECT_RSP": "deselect"}


def _transition_calls(node):
    return [c for c in node.calls if (call_name(c) or "").startswith("self._connection_state.") and (call_name(c) or "").split(".")[-1] in ("select", "deselect", "connect", "disconnect")]


def _state_guarded(cfg, n) -> bool:
    """Is node n dominated by a test of the current connection state (then the transition cannot raise)?"""
    return any("_connection_state.current" in norm(t) for t, v in cfg.dominating_conditions(n))


def _check_request_handler(ctx, cg, h, req, rsp):
    q = h.qualname
    hfn = inline.expanded(ctx, h, keep=set(_RSP_SENDER.values()) | {"send_reject_rsp"})  # a guard / answer helper of the handler is part of the handler
    cfg = cfg_of(hfn)
    param = h.node.args.args[1].arg
    sysarg = f"{param}.header.system"
    sender = _RSP_SENDER[rsp]
    rsp_nodes = [n for n in cfg.real_nodes() if any(c == f"self.{sender}" for c in n.call_names())]
    rej_nodes = [n for n in cfg.real_nodes() if any(c == "self.send_reject_rsp" for c in n.call_names())]
    other = [n for n in cfg.real_nodes() if any(c.startswith("self.send_") and c not in (f"self.{sender}", "self.send_reject_rsp") for c in n.call_names())]
    answers = rsp_nodes + rej_nodes
    cnt = cfg.count_on_paths(lambda n: n in answers, cfg.entry, cfg.exit, no_exc=True)
    ok = cnt == (1, 1) and not other
    ctx.ob("C05.P1", q, ok, f"{req} is answered by exactly one {rsp} or Reject on every path" if ok else
           f"{req}: answers per path = {cnt}" + (f", plus unrelated sends {[o.text() for o in other]}" if other else "") + f" (must be exactly one {rsp}/Reject)",
           key="one-answer", where=h.where)
    for n in rsp_nodes:
        c = next(c for c in n.calls if call_name(c) == f"self.{sender}")
        ok = [norm(a) for a in c.args] == [sysarg]
        ctx.ob("C05.P1", q, ok, f"{rsp} carries the request's system bytes" if ok else f"`{norm(c)}` does not pass {sysarg}", key="rsp-system", where=h.where)
        under_disc = any(t.endswith(".disconnecting") and pol for t, pol in cnd.facts(cfg, n))
        ctx.ob("C05.P1", q, not under_disc, f"{rsp} is sent while not disconnecting" if not under_disc else f"{rsp} is sent on the disconnecting branch", key="rsp-branch", where=h.where)
    for n in rej_nodes:
        c = next(c for c in n.calls if call_name(c) == "self.send_reject_rsp")
        a = [norm(x) for x in c.args]
        ok = len(a) == 3 and a[0] == sysarg and a[1] == f"{param}.header.s_type"
        ctx.ob("C05.P1", q, ok, "Reject carries the request's system bytes and SType" if ok else f"`{norm(c)}` does not pass ({sysarg}, {param}.header.s_type, reason)", key="reject-args", where=h.where)
        under_disc = any(t.endswith(".disconnecting") and pol for t, pol in cnd.facts(cfg, n))
        ctx.ob("C05.P1", q, under_disc, "Reject is sent only while the endpoint is disconnecting" if under_disc else "a Reject is sent although the endpoint is not closing the connection", key="reject-branch", where=h.where)
    # transition after the response, same branch, right one
    tname = _TRANSITION.get(req)
    trans = [n for n in cfg.real_nodes() if _transition_calls(n)]
    if tname:
        right = [n for n in trans if any(call_name(c).endswith("." + tname) for c in _transition_calls(n))]
        ok = len(right) == 1 and len(trans) == 1
        ctx.ob("C05.P1", q, ok, f"the accepted {req} performs the {tname} transition once" if ok else f"transition calls in handler: {[t.text() for t in trans]} (expected one {tname}())", key="transition", where=h.where)
        for t in right:
            same_branch = not any(cfg.path_exists(rej, t) or cfg.path_exists(t, rej) for rej in rej_nodes)
            ctx.ob("C05.P1", q, same_branch, f"{tname}() happens only on the branch that answers with {rsp}" if same_branch else f"{tname}() is performed although the request is rejected", key="transition-branch", where=h.where)
    else:
        ctx.ob("C05.P1", q, not trans, f"{req} changes no session state" if not trans else f"{req} performs {[t.text() for t in trans]}", key="transition", where=h.where)
    # P3: no raising transition before the answer
    for a in answers:
        for t in trans:
            if cfg.path_exists(t, a) and not _state_guarded(cfg, t):
                ctx.ob("C05.P3", q, False, f"`{t.text()}` can raise WrongSourceStateError (repeated {req}) before `{a.text()}`: the request is then never answered", key="raise-before-answer", where=h.where)
                break
        else:
            continue
        break
    else:
        ctx.ob("C05.P3", q, True, "no transition that can raise precedes the answer", key="raise-before-answer", where=h.where)


def _is_route_call(c) -> bool:
    return isinstance(c.func, ast.Attribute) and c.func.attr in ("put", "put_nowait") and "_response_queues" in norm(c.func.value)


def _routing_nodes(cfg):
    return [n for n in cfg.real_nodes() if any(_is_route_call(c) for c in n.calls)]


def _check_response_handler(ctx, cg, h, rsp):
    q = h.qualname
    from .. import normal

    hn = normal.normalised(ctx, h, comps=False, ifexp=False)  # a shared "hand over to the waiting sender" helper is part of the handler; a local for the system bytes is spelled out
    cfg = cfg_of(hn)
    param = hn.args.args[1].arg
    routes = _routing_nodes(cfg)
    ok = len(routes) == 1
    ctx.ob("C05.P1", q, ok, f"{rsp} is routed to the requester waiting for its system bytes" if ok else f"{rsp}: {len(routes)} routing statements (expected one)", key="routes", where=h.where)
    for r in routes:
        txt = r.text()
        ok = f"self._response_queues[{param}.header.system]" in txt and norm(next(c for c in r.calls if _is_route_call(c)).args[0]) == param
        ctx.ob("C05.P1", q, ok, "routing key is the message's system bytes and the message itself is delivered" if ok else f"`{txt}` does not deliver the message under its own system bytes", key="route-key", where=h.where)
        ok = cnd.holds(cfg, r, f"{param}.header.system in self._response_queues")
        ctx.ob("C05.P1", q, ok, "routing happens iff a requester is registered for the system bytes" if ok else f"routing guard is [{cnd.describe(cfg, r)}]", key="route-guard", where=h.where)
    tname = _TRANSITION[rsp]
    trans = [n for n in cfg.real_nodes() if _transition_calls(n)]
    right = [n for n in trans if any(call_name(c).endswith("." + tname) for c in _transition_calls(n))]
    cnt = cfg.count_on_paths(lambda n: n in right, cfg.entry, cfg.exit, no_exc=True)
    ok = cnt == (1, 1) and len(trans) == len(right)
    ctx.ob("C05.P1", q, ok, f"{rsp} performs the {tname} transition once on every path" if ok else f"{rsp}: {tname}() per path = {cnt}; transition calls {[t.text() for t in trans]}", key="transition", where=h.where)
    bad = [t for t in trans for r in routes if cfg.path_exists(t, r) and not _state_guarded(cfg, t)]
    ctx.ob("C05.P3", q, not bad, "the reply is routed before any transition that can raise" if not bad else
           f"`{bad[0].text()}` can raise WrongSourceStateError before the reply is routed: the waiting requester times out although its reply arrived", key="raise-before-route", where=h.where)


def check_data_gate(ctx):
    repo = ctx.repo
    ref = _ref()
    cg = callgraph.get(repo)
    f = _method(repo, "HsmsProtocol", "_on_connection_message_received")
    ctx.touch(f)
    q = f.qualname
    fn = inline.expanded(ctx, f, keep={"send_message", "send_reject_rsp", "__handle_hsms_requests", "_HsmsProtocol__handle_hsms_requests"})
    cfg = cfg_of(fn)
    param = fn.args.args[2].arg
    # control/data split
    ctl = [n for n in cfg.real_nodes() if any("__handle_hsms_requests" in c for c in n.call_names())]
    ctx.require(len(ctl) == 1, f"{q}: control dispatch call not found")
    ok = _is_control_branch(cnd.facts(cfg, ctl[0]), param)
    ctx.ob("C05.P2", q, ok, "control messages (SType != 0) go to the control dispatcher" if ok else f"control dispatch guard [{cnd.describe(cfg, ctl[0])}] is not `s_type != DATA`", key="split", where=f.where)
    routes = _routing_nodes(cfg)
    fires = [n for n in cfg.real_nodes() if any(c.endswith("events.fire") for c in n.call_names()) and "message_received" in n.text()]
    deliveries = routes + fires
    ctx.require(len(routes) >= 1 and len(fires) >= 1, f"{q}: delivery points not found (routes {len(routes)}, fires {len(fires)})")
    # gate test
    gates = [n for n in cfg.nodes if n.kind == "test" and "_connection_state.current" in norm(n.ast) and "CONNECTED_SELECTED" in norm(n.ast)]
    ok = len(gates) == 1
    ctx.ob("C05.P2", q, ok, "one selected-state test guards the data branch" if ok else f"{len(gates)} tests of the selected state found", key="gate", where=f.where)
    if not ok:
        return
    G = gates[0]
    t = G.ast
    gc = cnd.canon(t, True)
    ctx.require(len(gc) == 1 and next(iter(gc))[0] == "self._connection_state.current == ConnectionState.CONNECTED_SELECTED", f"{q}: gate test `{norm(t)}` has an unknown shape")
    selected_label = "true" if next(iter(gc))[1] else "false"
    sel = rules.branch_marker(G, selected_label)
    notsel = rules.branch_marker(G, "false" if selected_label == "true" else "true")
    bad = [d for d in deliveries if not cfg.dominates(sel, d)]
    ctx.ob("C05.P2", q, not bad, "every delivery point is dominated by the SELECTED branch of the gate" if not bad else
           f"`{bad[0].text()}` can run while the session is not SELECTED: the message is delivered instead of being rejected", key="delivery-gated", where=f.where)
    leak = [d for d in deliveries if cfg.path_exists(notsel, d)]
    ctx.ob("C05.P2", q, not leak, "the not-selected branch never reaches a delivery point" if not leak else f"after the reject the code continues to `{leak[0].text()}`", key="no-fallthrough", where=f.where)
    cnt = cfg.count_on_paths(lambda n: n in deliveries, sel, cfg.exit, no_exc=True)
    ok = cnt == (1, 1)
    ctx.ob("C05.P2", q, ok, "in SELECTED every data message is delivered exactly once (to its requester or to message_received)" if ok else f"deliveries per selected path = {cnt}", key="one-delivery", where=f.where)
    for r in routes:
        txt = r.text()
        ok = f"self._response_queues[{param}.header.system]" in txt
        ctx.ob("C05.P2", q, ok, "replies are routed by the message's system bytes" if ok else f"`{txt}` routes by something else", key="route-key", where=f.where)
    for fi in fires:
        call = next(c for c in fi.calls if (call_name(c) or "").endswith("events.fire"))
        ok = len(call.args) == 2 and isinstance(call.args[1], ast.Dict) and any(isinstance(k, ast.Constant) and k.value == "message" and norm(v) == param for k, v in zip(call.args[1].keys, call.args[1].values))
        ctx.ob("C05.P2", q, ok, "message_received carries the received message" if ok else f"`{norm(call)}` does not pass the received message", key="fire-arg", where=f.where)
    # reject on the not-selected branch
    rej_ctor = [(n, c) for n in cfg.real_nodes() for c in n.calls if call_name(c) == "HsmsRejectReqHeader"]
    rej_send = [n for n in cfg.real_nodes() if any(c in ("self.send_message", "self.send_reject_rsp") for c in n.call_names()) and cfg.dominates(notsel, n)]
    cnt = cfg.count_on_paths(lambda n: n in rej_send, notsel, cfg.exit, no_exc=True)
    ok = cnt == (1, 1)
    ctx.ob("C05.P2", q, ok, "a data message while not SELECTED is answered with exactly one Reject.req" if ok else f"Reject sends on the not-selected branch: {cnt}", key="one-reject", where=f.where)
    reason = ref["reject_reason_not_selected"]
    good_args = False
    for n, c in rej_ctor:
        a = [rules.expand(fn, x) for x in c.args]  # read through a local for `message.header`
        if len(a) == 3 and a[0] == f"{param}.header.system" and a[1] == f"{param}.header.s_type" and a[2] == str(reason) and cfg.dominates(notsel, n):
            good_args = True
    for n in rej_send:
        for c in n.calls:
            if call_name(c) == "self.send_reject_rsp":
                a = [norm(x) for x in c.args]
                if len(a) == 3 and a[0] == f"{param}.header.system" and a[1] == f"{param}.header.s_type" and a[2] == str(reason):
                    good_args = True
    ctx.ob("C05.P2", q, good_args, f"the Reject carries the message's system bytes, its SType and reason {reason} (entity not selected)" if good_args else
           f"no Reject header built as (message.header.system, message.header.s_type, {reason}) on the not-selected branch: found {[norm(c) for _, c in rej_ctor]}", key="reject-args", where=f.where)
    # the reject message that is sent is the one built
    if rej_ctor and rej_send:
        built_vars = {t.id for n, c in rej_ctor if isinstance(n.ast, ast.Assign) for t in n.ast.targets if isinstance(t, ast.Name)}
        fnode = cfg.func if hasattr(cfg, "func") else f.node
        sends_built = any(any(call_name(c) == "self.send_message" and c.args and (norm(c.args[0]) in built_vars or "HsmsRejectReqHeader(" in rules.expand(fnode, c.args[0])) for c in n.calls)
                          or any(call_name(c) == "self.send_reject_rsp" for c in n.calls) for n in rej_send)
        ctx.ob("C05.P2", q, sends_built, "the built Reject message is the one sent" if sends_built else "the message passed to send_message is not the built Reject", key="reject-sent", where=f.where)
    # X1: nothing that can raise before gate / deliveries / reject outside a broad try
    untrusted = []
    for n in cfg.real_nodes():
        if not (cfg.path_exists(n, G) or any(cfg.path_exists(n, d) for d in deliveries)):
            continue
        if n in ctl:
            continue
        for c in n.calls:
            cn = call_name(c) or ""
            risky = None
            if cn.endswith("streams_functions.decode"):
                risky = "decoding an arbitrary body can raise any exception (ValueError for uncatalogued S/F, IndexError/struct.error/UnicodeDecodeError for malformed bodies)"
            elif cg.call_raises(c, f) - {"NotImplementedError"}:
                risky = f"can raise {sorted(cg.call_raises(c, f))}"
            if risky:
                ok = callgraph.broadly_guarded(fn, c)
                untrusted.append((c, ok, risky))
    for c, ok, risky in untrusted:
        ctx.ob("C05.X1", q, ok, f"`{norm(c)}` before the gate is inside a broad try" if ok else
               f"`{norm(c)}` runs before the selected-state gate and the delivery and {risky}: the message is then neither rejected nor delivered", key=norm(c), where=f.where)
    if not untrusted:
        ctx.ob("C05.X1", q, True, "no raising call precedes the gate and the delivery", key="none", where=f.where)


def _is_control_branch(facts, param) -> bool:
    """The facts say: the SType is not 0 / not DATA_MESSAGE (canonical atoms, see sa.conds)."""
    for t, pol in facts:
        if ".header.s_type" not in t:
            continue
        if t.endswith(".header.s_type.value < 1") and not pol:  # value > 0, value >= 1
            return True
        if (t.endswith(".header.s_type.value == 0") or t.endswith("DATA_MESSAGE")) and " == " in t and not pol:
            return True
    return False


def check_wiring(ctx):
    repo = ctx.repo
    f = _method(repo, "HsmsProtocol", "_on_connected")
    ctx.touch(f)
    cfg = cfg_of(inline.expanded(ctx, f))
    conn = [n for n in cfg.real_nodes() if any(c == "self._connection_state.connect" for c in n.call_names())]
    start = [n for n in cfg.real_nodes() if any(c == "self._thread.start" for c in n.call_names())]
    fire = [n for n in cfg.real_nodes() if any(c.endswith("events.fire") for c in n.call_names()) and "'connected'" in n.text()]
    for label, nodes in (("connect transition", conn), ("thread start", start), ("connected event", fire)):
        cnt = cfg.count_on_paths(lambda n, nodes=nodes: n in nodes, cfg.entry, cfg.exit, no_exc=True)
        ok = cnt == (1, 1)
        ctx.ob("C05.P5", f.qualname, ok, f"{label} happens exactly once on every path" if ok else f"{label}: {cnt} per path", key=label, where=f.where)
    if conn and start:
        ok = all(cfg.dominates(conn[0], s) for s in start)
        ctx.ob("C05.P4", f.qualname, ok, "the session is in NOT SELECTED before the receive threads start" if ok else
               "the receive threads are started before the connect transition: a Select.req already in the buffer is handled in NOT CONNECTED, answered, and the select transition raises - the peer is selected, we are not",
               key="connect-before-start", where=f.where)
    if conn and fire:
        ok = all(cfg.dominates(conn[0], x) for x in fire)
        ctx.ob("C05.P5", f.qualname, ok, "listeners of 'connected' see the new state" if ok else "'connected' is fired before the transition", key="connect-before-event", where=f.where)
    f = _method(repo, "HsmsProtocol", "_on_disconnected")
    ctx.touch(f)
    cfg = cfg_of(inline.expanded(ctx, f))
    for label, pred in (
        ("disconnect transition", lambda n: any(c == "self._connection_state.disconnect" for c in n.call_names())),
        ("disconnected event", lambda n: any(c.endswith("events.fire") for c in n.call_names()) and "'disconnected'" in n.text()),
    ):
        cnt = cfg.count_on_paths(pred, cfg.entry, cfg.exit, no_exc=True)
        ok = cnt == (1, 1)
        ctx.ob("C05.P5", f.qualname, ok, f"{label} happens exactly once on every path" if ok else f"{label}: {cnt} per path", key=label, where=f.where)
    # state handlers
    init = _method(repo, "HsmsProtocol", "__init__")
    regs = {}
    from .. import normal

    init_fn = normal.normalised(ctx, init, comps=False, ifexp=False)  # `events = machine.connected.events; events.enter.register(...)` is spelled out
    for c in calls_in(init_fn):
        if isinstance(c.func, ast.Attribute) and c.func.attr == "register" and (c.args or c.keywords):
            recv = rules.expand(init_fn, c.func.value)
            arg = c.args[0] if c.args else c.keywords[0].value
            regs[recv] = dotted(arg)
    want = {
        "self._connection_state.connected.events.enter": "arm",
        "self._connection_state.connected.events.leave": "cancel",
        "self._connection_state.connected_selected.events.enter": "communicating",
    }
    for recv, role in want.items():
        h = regs.get(recv)
        ok = h is not None
        ctx.ob("C05.P5", "HsmsProtocol.__init__", ok, f"{recv} has a handler ({h})" if ok else f"no handler registered on {recv}", key=recv, where=init.where)
        if not ok:
            continue
        hm = _method(repo, "HsmsProtocol", h.split(".")[-1])
        ctx.touch(hm)
        names = [call_name(c) or "" for c in calls_in(inline.expanded(ctx, hm, keep={"_start_linktest_timer"}))]  # with private helpers of the handler
        if role == "arm":
            ok = "self._start_linktest_timer" in names
            ctx.ob("C05.P5", hm.qualname, ok, "entering CONNECTED arms the linktest timer" if ok else "entering CONNECTED does not arm the linktest timer", where=hm.where)
            sel = [c for c in calls_in(hm.node) if (call_name(c) or "") == "threading.Thread"]
            guarded = False
            hcfg = cfg_of(hm.node)
            for n in hcfg.real_nodes():
                if any((call_name(c) or "").endswith("_select_req_thread.start") for c in n.calls):
                    guarded = any(t.endswith("is_active") and pol for t, pol in cnd.facts(hcfg, n))
            ctx.ob("C05.P5", hm.qualname, guarded, "the active side (only) starts the select procedure on connect" if guarded else "the select thread is not started exactly under `settings.is_active`", key="active-select", where=hm.where)
        elif role == "cancel":
            ok = any(n.endswith("_linktest_timer.cancel") for n in names)
            ctx.ob("C05.P5", hm.qualname, ok, "leaving CONNECTED cancels the linktest timer" if ok else "leaving CONNECTED does not cancel the linktest timer", where=hm.where)
        else:
            fires = [c for c in calls_in(hm.node) if (call_name(c) or "").endswith("events.fire") and c.args and isinstance(c.args[0], ast.Constant) and c.args[0].value == "communicating"]
            ok = len(fires) == 1
            ctx.ob("C05.P5", hm.qualname, ok, "entering SELECTED fires 'communicating'" if ok else "entering SELECTED does not fire 'communicating' exactly once", where=hm.where)


def run(ctx):
    check_machine(ctx)
    check_send_helpers(ctx)
    check_control(ctx)
    check_data_gate(ctx)
    check_wiring(ctx)
    shared(ctx, "C05.P5", transactions=True)
    # "every Select, Deselect and Linktest request is answered", also when it is cut by TCP segmentation, also on the
    # second connection, and "local disable" ends the session: the control frame is cut from the stream exactly (C04.P1),
    # the receive threads are created anew for every connection and woken for every segment (dispatcher group), and
    # disable() always closes the open link (C09.W2)
    from .. import report
    from ._dispatch import check_dispatcher
    from .c04 import check_framing
    from .c09 import check_idle_and_disable

    report.share(ctx, "C05.P5", check_framing)
    check_dispatcher(ctx, "C05.P5", wakeups=True, consumers=False, reconnect=True)
    report.share(ctx, "C05.P5", check_idle_and_disable)
    # ... and a frame that arrives in several segments is read only when all its bytes are there (wait predicate, C09.W1)
    from .c09 import check_bytequeue_wait

    check_bytequeue_wait(ctx, "C05.P5")


def shared(ctx, rule, transactions=False):
    """Necessary conditions owned by C09/C06 that this property needs as well: a lost link leaves no bytes of a partial
    frame behind (they would shift the framing of the next connection, whose Select.req is then never answered), and -
    for the session - a finished control transaction leaves no registered waiter behind."""
    from . import c06, c09

    sub = type(ctx)(ctx.prop, ctx.tier, ctx.seed, ctx.repo)
    c09.check_on_disconnected(sub)
    if transactions:
        # ... and the reader of the next connection actually reads: the suspension flag of the close sequence is not left raised
        c09.check_read_suspension(ctx, rule)
    if transactions:
        c06.check_requests(sub)
    for o in sub.obligations:
        if (o["key"] in ("receive buffer clear", "thread stop") and o["construct"].startswith("HsmsProtocol")) or (transactions and o["rule"] == "C06.P1" and o["construct"].startswith("HsmsProtocol.send_")):
            o = dict(o)
            o["rule"] = rule
            ctx.obligations.append(o)
