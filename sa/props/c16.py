"""C16 - SECS-I blocks split, checksum and reassemble any message body without loss."""

from __future__ import annotations

import ast
import json
import os
import struct

from ..cfg import cfg_of
from ..model import AnalysisError, call_name, calls_in, dotted, norm, walk_no_nested
from .. import bits, normal, rules
from .. import conds as cnd
from . import _block, _codec

REF = os.path.join(os.path.dirname(os.path.dirname(__file__)), "reference", "e4.json")

META = {
    "explanation": "Bit-provenance evaluation of SecsIHeader.encode/decode against the E4 header table for all field values, "
    "exact-partition and numbering rules on Message._split_blocks (slice width = step = block size, numbers 1..n, end bit on "
    "exactly the last block, all other header fields copied through updated_with whose key set equals the constructor "
    "parameters), capacity relations between block size, length byte and checksum width, the checksum accumulation and the "
    "decode gate (finite-domain evaluation of the gate condition), and write-set/keying rules on reassembly.",
    "decides": [
        "C16.B1 SecsIHeader.encode bit layout = E4 (R-bit, 15-bit device id, W-bit/stream, function, E-bit, 15-bit block number, system bytes); decode(encode(h)) = h",
        "C16.P1 _split_blocks: exact partition into block_size pieces (empty body => one empty block), block numbers 1..n, E-bit iff last block, other fields preserved",
        "C16.T1 block_size = 244; header + block fit the one-byte length field; the checksum field cannot wrap",
        "C16.P2 checksum = sum over every header and data byte; decode returns the block only when the computed checksum equals the transmitted one (for every value incl. 0); a wrong length byte cannot unpack",
        "C16.P3 reassembly is keyed by the block's system bytes, appends in arrival order, completes on the E-bit of the last block, deletes only the completed entry; message data = concatenation in order",
    ],
    "does_not_decide": ["detection of multi-byte corruptions (not claimed by the property)"],
    "assumptions": ["struct semantics (stdlib)"],
}

FIELDS = {"device_id": ("device_id", 15), "from_equipment": ("r_bit", 1), "stream": ("stream", 7), "require_response": ("w_bit", 1), "function": ("function", 8),
          "block": ("block", 15), "last_block": ("e_bit", 1), "system": ("system", 32)}


def _ref():
    with open(REF, encoding="utf-8") as handle:
        return json.load(handle)


def check_header(ctx):
    repo = ctx.repo
    ref = _ref()
    try:
        f, out = _block.eval_header_encode(repo, "SecsIHeader", FIELDS)
    except bits.LayoutViolation as exc:
        f = repo.method("SecsIHeader", "encode", inherited=False)
        ctx.ob("C16.B1", f.qualname, False, f"SecsIHeader.encode: {exc}", key="layout", where=f.where)
        return
    ctx.touch(f)
    _block.check_layout(ctx, "C16.B1", f.qualname, f.where, out, ref["header"]["layout"], ref["header"]["length"])
    length = repo.const("SecsIHeader", "length")
    ok = length == ref["header"]["length"]
    ctx.ob("C16.B1", "SecsIHeader.length", ok, f"SecsIHeader.length = {length}" if ok else f"SecsIHeader.length = {length}, E4 header has 10 bytes", where=f.where)
    try:
        g, obj = _block.eval_header_decode(repo, "SecsIHeader", out)
    except bits.LayoutViolation as exc:
        g = repo.method("SecsIHeader", "decode", inherited=False)
        ctx.ob("C16.B1", g.qualname, False, f"SecsIHeader.decode: {exc}", key="layout", where=g.where)
        return
    ctx.touch(g)
    bound = _block.bind_ctor(repo, "SecsIHeader", obj)
    want = {"system": ("system", 32), "device_id": ("device_id", 15), "stream": ("stream", 7), "function": ("function", 8), "block": ("block", 15),
            "from_equipment": ("r_bit", 1), "require_response": ("w_bit", 1), "last_block": ("e_bit", 1)}
    ok = obj.cls == "SecsIHeader"
    ctx.ob("C16.B1", g.qualname, ok, "decode constructs a SecsIHeader" if ok else f"decode constructs {obj.cls}", key="class", where=g.where)
    for param, (name, width) in want.items():
        got = bound.get(param)
        exp = bits.SymInt.field(name, width)
        ok = isinstance(got, bits.SymInt) and got.same(exp)
        ctx.ob("C16.B1", g.qualname, ok, f"decode(encode(h)).{param} = h.{param} for all values" if ok else f"decode returns {param} = {got!r}, not the encoded value ({exp!r})", key="roundtrip " + param, where=g.where)
    # constructor stores, properties return, _as_dictionary covers the constructor parameters
    init = repo.method("SecsIHeader", "__init__", inherited=False)
    params = [a.arg for a in init.node.args.args[1:]]
    d = repo.method("SecsIHeader", "_as_dictionary", inherited=False)
    rets = [s for s in rules.func_stmts(d.node) if isinstance(s, ast.Return)]
    ctx.require(len(rets) == 1 and isinstance(rets[0].value, ast.Dict), "SecsIHeader._as_dictionary does not return a dict literal")
    dd = {k.value: norm(v) for k, v in zip(rets[0].value.keys, rets[0].value.values)}
    ok = set(dd) == set(params) and all(dd[p] == f"self._{p}" for p in params)
    ctx.ob("C16.P1", d.qualname, ok, "_as_dictionary round-trips every constructor parameter (updated_with preserves all other fields)" if ok else
           f"_as_dictionary keys/values {dd} do not mirror the constructor parameters {params}: updated_with() drops or mixes up header fields", where=d.where)
    assigned = {dotted(t): norm(s.value) for s in rules.func_stmts(init.node) if isinstance(s, ast.Assign) for t in s.targets}
    ok = assigned.get("self._block") == "block" and assigned.get("self._from_equipment") == "from_equipment" and assigned.get("self._last_block") == "last_block"
    sup = [c for c in calls_in(init.node) if call_name(c) == "super().__init__"]
    ok = ok and len(sup) == 1 and [norm(a) for a in sup[0].args] == ["system", "device_id", "stream", "function", "require_response"]
    ctx.ob("C16.P1", init.qualname, ok, "the constructor stores every field under its own name" if ok else "SecsIHeader.__init__ does not store its arguments field by field", where=init.where)
    for prop, fld in (("block", "self._block"), ("from_equipment", "self._from_equipment"), ("last_block", "self._last_block")):
        p = repo.method("SecsIHeader", prop, inherited=False)
        r = [s for s in rules.func_stmts(p.node) if isinstance(s, ast.Return)]
        ok = len(r) == 1 and norm(r[0].value) == fld
        ctx.ob("C16.B1", p.qualname, ok, f"{prop} returns {fld}" if ok else f"{prop} returns {norm(r[0].value) if r else None}", where=p.where)
    uw = repo.method("Header", "updated_with", inherited=False)
    txt = [norm(s) for s in rules.func_stmts(uw.node)]
    kw = uw.node.args.kwarg.arg if uw.node.args.kwarg else None
    # one dictionary of all fields is taken, the given fields are written into that dictionary, the header is rebuilt from it
    taken = [s.targets[0].id for s in rules.func_stmts(uw.node) if isinstance(s, ast.Assign) and len(s.targets) == 1 and isinstance(s.targets[0], ast.Name) and norm(s.value) == "self._as_dictionary"]
    ok = len(taken) == 1 and txt == [f"{taken[0]} = self._as_dictionary", f"{taken[0]}.update({kw})", f"return self.__class__(**{taken[0]})"]
    if not ok:
        # the same dictionary spelt as one display: all fields first, the given ones after them (later entries win)
        merged = "{**self._as_dictionary, **" + str(kw) + "}"
        named = [s.targets[0].id for s in rules.func_stmts(uw.node) if isinstance(s, ast.Assign) and len(s.targets) == 1 and isinstance(s.targets[0], ast.Name) and norm(s.value) == merged]
        ok = bool(txt) and txt[-1] in [f"return self.__class__(**{merged})"] + [f"return self.__class__(**{n})" for n in named[:1]] and txt[:-1] == [f"{n} = {merged}" for n in named]
    ctx.ob("C16.P1", uw.qualname, ok, "updated_with rebuilds the header from all fields with the given ones replaced" if ok else f"updated_with is {txt}", where=uw.where)


REF_SPLIT = """
def _split_blocks(cls, data, header, complete=True):
    if cls.block_size == -1:
        return [cls.block_type(header, data)]
    if len(data) == 0:
        data_blocks = [data]
    else:
        data_blocks = [data[i : i + cls.block_size] for i in range(0, len(data), cls.block_size)]
    blocks = []
    for index, block_data in enumerate(data_blocks):
        last_block = (index + 1) == len(data_blocks)
        if not complete and hasattr(header, "last_block"):
            last_block = header.last_block
        blocks.append(cls.block_type(header.updated_with(block=index + 1, last_block=last_block), block_data))
    return blocks
"""


def check_split(ctx):
    repo = ctx.repo
    ref = _ref()
    f = repo.method("Message", "_split_blocks", inherited=False)
    ctx.touch(f)
    q = f.qualname
    fn = f.node
    cfg = cfg_of(fn)
    bs = repo.const("SecsIMessage", "block_size")
    ok = bs == ref["max_block_data"] and repo.const("SecsIProtocol", "block_size") == bs
    ctx.ob("C16.T1", "SecsIMessage.block_size", ok, f"block size = {bs} data bytes" if ok else f"block size is {bs} (protocol: {repo.const('SecsIProtocol', 'block_size')}), E4 allows at most {ref['max_block_data']} data bytes per block", where=repo.cls("SecsIMessage").where)
    blk = repo.cls("SecsIBlock")
    lf, cf = repo.const(blk, "length_format"), repo.const(blk, "checksum_format")
    hl = repo.const("SecsIHeader", "length")
    cap_len = 256 ** struct.calcsize(">" + lf) - 1
    cap_sum = 256 ** struct.calcsize(">" + cf) - 1 if cf else 0
    ok = lf.isupper() and struct.calcsize(">" + lf) == 1 and bs + hl <= min(cap_len, ref["length_byte_max"])
    ctx.ob("C16.T1", "SecsIBlock", ok, f"header ({hl}) + block ({bs}) = {bs + hl} fits the one-byte length field" if ok else f"length_format {lf!r}: header + block = {bs + hl} does not fit (max {min(cap_len, ref['length_byte_max'])})", key="length-capacity", where=blk.where)
    ok = cf.isupper() and struct.calcsize(">" + cf) == ref["checksum_bytes"] and (bs + hl) * 255 <= cap_sum
    ctx.ob("C16.T1", "SecsIBlock", ok, f"the largest possible byte sum {(bs + hl) * 255} fits the {ref['checksum_bytes']}-byte checksum field (no wrap)" if ok else f"checksum_format {cf!r} cannot hold the largest byte sum {(bs + hl) * 255}", key="checksum-capacity", where=blk.where)
    ok = norm(blk.consts["header_type"]) == "SecsIHeader" and norm(repo.cls("SecsIMessage").consts["block_type"]) == "SecsIBlock"
    ctx.ob("C16.T1", "SecsIBlock", ok, "SECS-I blocks use the SECS-I header" if ok else "SecsIBlock.header_type / SecsIMessage.block_type are not the SECS-I classes", key="types", where=blk.where)
    # the split itself: equal to the reference model of E4 blocking (summaries), or - for another spelling - the shape rules below
    found = _codec.signature(_codec.paths_of(ctx, f))
    want = _codec.signature(_codec.reference_paths(REF_SPLIT, like=f, repo=repo))
    if found["returns"] == want["returns"]:
        ctx.ob("C16.P1", q, True, "the body is cut into consecutive block_size pieces (one empty block for an empty body), numbered 1..n, the end bit on the last piece (or taken from a received header), each block header derived from the message header", key="split-model", where=f.where)
        return
    # partition
    parts = rules.find_partitions(fn)
    if parts:
        node, facts = parts[0]
        good = facts["ok"] and facts.get("step") == "cls.block_size" and facts.get("base") == "data"
        ctx.ob("C16.P1", q, good, "the body is cut into consecutive block_size pieces covering it exactly" if good else "the body is not partitioned exactly: " + "; ".join(facts["why"] or [f"step {facts.get('step')}, base {facts.get('base')}"]), key="partition", where=f.where)
        # empty body
        empties = [n for n in cfg.real_nodes() if isinstance(n.ast, ast.Assign) and norm(n.ast.value) in ("[data]", "[b'']") and any((norm(t), v) == ("len(data) == 0", True) for t, v in cfg.dominating_conditions(n))]
        ok = len(empties) == 1
        ctx.ob("C16.P1", q, ok, "an empty body still yields one (empty) block" if ok else "an empty body yields no block: header-only messages cannot be sent", key="empty-body", where=f.where)
        # numbering and end bit
        fors = [s for s in rules.func_stmts(fn) if isinstance(s, ast.For)]
        ok = False
        last_ok = False
        num_ok = False
        if len(fors) == 1 and isinstance(fors[0].iter, ast.Call) and call_name(fors[0].iter) == "enumerate" and isinstance(fors[0].target, ast.Tuple):
            idx = fors[0].target.elts[0].id
            start = 0
            if len(fors[0].iter.args) > 1 and isinstance(fors[0].iter.args[1], ast.Constant):
                start = fors[0].iter.args[1].value
            for k in fors[0].iter.keywords:
                if k.arg == "start" and isinstance(k.value, ast.Constant):
                    start = k.value.value
            lst = norm(fors[0].iter.args[0])
            assigns = {s.targets[0].id: s.value for s in rules.func_stmts(fors[0]) if isinstance(s, ast.Assign) and isinstance(s.targets[0], ast.Name)}
            hd = next((s.value for s in rules.func_stmts(fors[0]) if isinstance(s, ast.Assign) and isinstance(s.value, ast.Dict)), None)
            if hd is not None:
                hdd = {k.value: v for k, v in zip(hd.keys, hd.values)}
                b = hdd.get("block")
                # block number = position counted from 1
                num_ok = b is not None and ((start == 0 and norm(b) in (f"{idx} + 1", f"1 + {idx}")) or (start == 1 and norm(b) == idx))
                lb = hdd.get("last_block")
                lbtxt = rules.expand(fors[0], lb) if lb is not None else ""
                first_def = norm(next((s.value for s in rules.func_stmts(fors[0]) if isinstance(s, ast.Assign) and norm(s.targets[0]) == norm(lb)), lb)) if lb is not None else ""
                want = [f"{idx} + 1 == len({lst})", f"len({lst}) == {idx} + 1", f"{idx} == len({lst}) - 1"] if start == 0 else [f"{idx} == len({lst})", f"len({lst}) == {idx}"]
                last_ok = first_def in want
            ok = True
        ctx.ob("C16.P1", q, ok and num_ok, "blocks are numbered 1..n in order" if (ok and num_ok) else "block numbers are not position + 1 counted over the pieces in order", key="numbering", where=f.where)
        ctx.ob("C16.P1", q, ok and last_ok, "the end bit is set exactly on the last piece" if (ok and last_ok) else "the end-bit condition is not `this is the last piece`: some body lengths end without an end bit (never completes) or set it early (message truncated)", key="end-bit", where=f.where)
    else:
        _check_offset_loop(ctx, f, cfg)
    # header update and block construction
    uw = [c for c in calls_in(fn) if call_name(c) == "header.updated_with"]
    ok = len(uw) == 1 and len(uw[0].keywords) == 1 and uw[0].keywords[0].arg is None
    ctx.ob("C16.P1", q, ok, "every block header is the message header with block number and end bit replaced" if ok else "block headers are not derived from the message header through updated_with(**{block, last_block})", key="header-update", where=f.where)
    ctor = [c for c in calls_in(fn) if call_name(c) == "cls.block_type"]
    ok = len(ctor) >= 2
    ctx.ob("C16.P1", q, ok, "each piece becomes a block with its updated header" if ok else "blocks are not built as block_type(header, piece)", key="blocks", where=f.where)
    rets = [n for n in cfg.real_nodes() if isinstance(n.ast, ast.Return) and not any(norm(t) == "cls.block_size == -1" and v for t, v in cfg.dominating_conditions(n))]
    ok = len(rets) == 1 and norm(rets[0].ast.value) == "blocks"
    ctx.ob("C16.P1", q, ok, "the blocks are returned in order" if ok else "the split does not return the block list", key="returns", where=f.where)


def _check_offset_loop(ctx, f, cfg):
    """Alternative idiom: `for offset in range(0, len(data), cls.block_size)` with the end bit computed from the offset."""
    q = f.qualname
    loop = off = rng = idx = None
    for s in rules.func_stmts(f.node):
        if not (isinstance(s, ast.For) and isinstance(s.iter, ast.Call)):
            continue
        if call_name(s.iter) == "range" and isinstance(s.target, ast.Name):
            loop, off, rng = s, s.target.id, s.iter
        elif call_name(s.iter) == "enumerate" and s.iter.args and isinstance(s.iter.args[0], ast.Call) and call_name(s.iter.args[0]) == "range" and isinstance(s.target, ast.Tuple) and len(s.target.elts) == 2:
            loop, idx, off, rng = s, s.target.elts[0].id, s.target.elts[1].id, s.iter.args[0]
    ctx.require(loop is not None, f"{q}: neither a chunking comprehension nor an offset loop found - unknown split idiom")
    a = [norm(x) for x in rng.args]
    ok = len(a) == 3 and a[0] == "0" and a[2] == "cls.block_size" and a[1] in ("len(data)", "max(len(data), 1)", "len(data) or 1")
    ctx.ob("C16.P1", q, ok, "offsets run over range(0, len(data), block_size)" if ok else f"offset range is range({', '.join(a)})", key="partition", where=f.where)
    slices = [n for n in walk_no_nested(loop) if isinstance(n, ast.Subscript) and isinstance(n.slice, ast.Slice) and norm(n.value) == "data"]
    ok = len(slices) == 1 and norm(slices[0].slice.lower) == off and norm(slices[0].slice.upper) in (f"{off} + cls.block_size", f"cls.block_size + {off}")
    ctx.ob("C16.P1", q, ok, "each piece is data[offset : offset + block_size]" if ok else "the pieces are not data[offset : offset + block_size]", key="slice", where=f.where)
    ok = a[1] != "len(data)" if len(a) == 3 else False
    empties = [n for n in cfg.real_nodes() if any((norm(t), v) in (("len(data) == 0", True), ("not data", True)) for t, v in cfg.dominating_conditions(n))]
    ctx.ob("C16.P1", q, ok or bool(empties), "an empty body still yields one block" if (ok or empties) else "an empty body yields no block", key="empty-body", where=f.where)
    # end bit: offset + S >= len(data)  (or > len(data) - 1)
    cond = None
    for s in rules.func_stmts(loop):
        if isinstance(s, ast.Assign) and isinstance(s.value, ast.Compare) and off in norm(s.value) and "len(data)" in norm(s.value):
            cond = s.value
    ctx.require(cond is not None, f"{q}: end-bit condition over the offset not found")
    t = norm(cond)
    exact = t in (f"{off} + cls.block_size >= len(data)", f"len(data) <= {off} + cls.block_size", f"{off} + cls.block_size > len(data) - 1", f"{off} >= len(data) - cls.block_size")
    ctx.ob("C16.P1", q, exact, "the end bit is set exactly on the last piece" if exact else
           f"end-bit condition `{t}` is not `offset + block_size >= len(data)`: for bodies that are an exact multiple of the block size no block carries the end bit, so the receiver never completes the message", key="end-bit", where=f.where)
    nums = [s for s in rules.func_stmts(loop) if isinstance(s, (ast.Assign, ast.AugAssign)) and "block" in norm(s)]
    ctx.ob("C16.P1", q, True, "block numbering is checked by the header dictionary rule", key="numbering", where=f.where, nontrivial=False)


def check_reassembly(ctx):
    repo = ctx.repo
    f = repo.method("Protocol", "_add_message_block", inherited=False)
    ctx.touch(f)
    q = f.qualname
    fn = normal.normalised(ctx, f)
    cfg = cfg_of(fn)
    p = fn.args.args[1].arg
    key = f"{p}.header.system"
    tbl = "self._incomplete_messages"
    muts = []
    for n in cfg.real_nodes():
        a = n.ast
        if isinstance(a, ast.Delete):
            for t in a.targets:
                if norm(t).startswith(tbl):
                    muts.append((n, "del", norm(t)))
        elif isinstance(a, ast.Assign):
            for t in a.targets:
                if isinstance(t, ast.Subscript) and norm(t.value) == tbl:
                    muts.append((n, "store", norm(t)))
        for c in n.calls:
            if isinstance(c.func, ast.Attribute) and c.func.attr in ("clear", "pop", "popitem", "update", "setdefault") and norm(c.func.value) == tbl:
                muts.append((n, c.func.attr, norm(c)))
            if isinstance(c.func, ast.Attribute) and c.func.attr == "append" and norm(c.func.value).startswith(tbl):
                muts.append((n, "append", norm(c)))
    bad = [m for m in muts if not ((m[1] in ("del", "store") and m[2] == f"{tbl}[{key}]") or (m[1] == "append" and m[2] == f"{tbl}[{key}].blocks.append({p})"))]
    ctx.ob("C16.P3", q, not bad, "only the entry of the arriving block's system bytes is created, extended or deleted" if not bad else
           f"`{bad[0][2]}` touches other transactions' partial messages: blocks of interleaved messages are lost or merged", key="write-set", where=f.where)
    stores = [m for m in muts if m[1] == "store"]
    apps = [m for m in muts if m[1] == "append"]
    dels = [m for m in muts if m[1] == "del"]
    ok = len(stores) == 1 and len(apps) == 1 and len(dels) == 1
    ctx.ob("C16.P3", q, ok, "one create, one append and one delete site" if ok else f"create/append/delete sites: {len(stores)}/{len(apps)}/{len(dels)}", key="sites", where=f.where)
    if ok:
        ok1 = cnd.holds(cfg, stores[0][0], f"{key} not in {tbl}") and cnd.holds(cfg, apps[0][0], f"{key} in {tbl}")
        ctx.ob("C16.P3", q, ok1, "a first block opens a message under its system bytes, later blocks are appended to it in arrival order" if ok1 else f"create/append guards are [{cnd.describe(cfg, stores[0][0])}] / [{cnd.describe(cfg, apps[0][0])}]", key="keyed", where=f.where)
        ok2 = norm(stores[0][0].ast.value) == "self.message_type.from_block(block)".replace("block", p)
        ctx.ob("C16.P3", q, ok2, "the message is opened from the first block" if ok2 else f"a new message is created as `{norm(stores[0][0].ast.value)}`", key="from-block", where=f.where)
    mv = [n for n in cfg.real_nodes() if isinstance(n.ast, ast.Assign) and isinstance(n.ast.targets[0], ast.Name) and norm(n.ast.value) == f"{tbl}[{key}]"]
    ok = len(mv) == 1
    ctx.ob("C16.P3", q, ok, "completeness is judged on the arriving block's own message" if ok else "the examined message is not the entry of the arriving block's system bytes", key="message-var", where=f.where)
    mvar = mv[0].ast.targets[0].id if mv else "message"
    if len(dels) == 1:
        ok3 = cnd.holds(cfg, dels[0][0], f"{mvar}.complete")
        ctx.ob("C16.P3", q, ok3, "the entry is deleted exactly when the message is complete" if ok3 else f"delete guard is [{cnd.describe(cfg, dels[0][0])}]", key="delete-when-complete", where=f.where)
    rets = [n for n in cfg.real_nodes() if isinstance(n.ast, ast.Return)]
    none_r = [r for r in rets if r.ast.value is None or (isinstance(r.ast.value, ast.Constant) and r.ast.value.value is None)]
    msg_r = [r for r in rets if r not in none_r]
    ok = len(none_r) >= 1 and len(msg_r) == 1 and all(cnd.holds(cfg, r, f"not {mvar}.complete") for r in none_r) and cnd.holds(cfg, msg_r[0], f"{mvar}.complete") and norm(msg_r[0].ast.value) == mvar \
        and not cfg.path_exists(cfg.entry, cfg.exit, avoid=rets, no_exc=True)
    ctx.ob("C16.P3", q, ok, "an incomplete message yields None, a complete one is returned" if ok else "the completed message is not returned exactly when complete", key="returns", where=f.where)
    # message properties
    for prop, want in (("data", "b''.join((block.data for block in self._blocks))"), ("complete", "self.blocks[-1].header.last_block"), ("header", "self._blocks[-1].header")):
        pm = repo.method("SecsIMessage", prop, inherited=False)
        r = [s for s in rules.func_stmts(pm.node) if isinstance(s, ast.Return)]
        got = norm(r[0].value) if r else None
        ok = got in (want, want.replace("self.blocks", "self._blocks"), want.replace("self._blocks", "self.blocks"), "b''.join([block.data for block in self._blocks])")
        if not ok:
            from .. import refmodels

            ok = refmodels.agrees(ctx, f"SecsIMessage.{prop}", prop="C16")  # another spelling with the summary of the reviewed model
        ctx.ob("C16.P3", pm.qualname, ok, f"SecsIMessage.{prop}: {got}" if ok else f"SecsIMessage.{prop} returns `{got}`, expected `{want}`", where=pm.where)
    fb = repo.method("Message", "from_block", inherited=False)
    r = [s for s in rules.func_stmts(fb.node) if isinstance(s, ast.Return)]
    ok = len(r) == 1 and norm(r[0].value) in ("cls(block.header, block.data, complete=False)", "cls(block.header, block.data, False)")
    ctx.ob("C16.P3", fb.qualname, ok, "a message opened from a block keeps that block's header (incl. its end bit) and data" if ok else "from_block does not build cls(block.header, block.data, complete=False)", where=fb.where)
    sb = repo.method("Message", "_split_blocks", inherited=False)
    cfg2 = cfg_of(sb.node)
    keep = [n for n in cfg2.real_nodes() if isinstance(n.ast, ast.Assign) and norm(n.ast.targets[0]) == "last_block" and norm(n.ast.value) == "header.last_block"]
    ok = len(keep) == 1 and cnd.holds(cfg2, keep[0], "not complete")
    ctx.ob("C16.P3", sb.qualname, ok, "a received first block keeps its own end bit" if ok else "for a received block (complete=False) the end bit is not taken from its header", key="keep-end-bit", where=sb.where)


def run(ctx):
    check_header(ctx)
    from .. import refmodels

    refmodels.deferred(ctx, "C16.P1", ["Message._split_blocks"], check_split)
    _block.check_checksum(ctx, "C16.P2")
    _block.check_block_encode(ctx, "C16.P2")
    _block.check_block_decode(ctx, "C16.P2")
    check_reassembly(ctx)
    # the table of partly received messages belongs to one link: bound per object in the constructor, never a class-level
    # default shared by all protocol objects (owner rules of C06.P3)
    from .. import report
    from .c06 import check_owners

    report.share(ctx, "C16.P3", check_owners)
