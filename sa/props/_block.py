"""Rules on secsgem.common.message.Block (encode/decode/checksum) and header bit layouts, shared by C04 and C16."""

from __future__ import annotations

import ast
import struct

from ..model import AnalysisError, call_name, calls_in, dotted, norm
from .. import bits, rules
from ..cfg import cfg_of


def fstring_parts(js: ast.JoinedStr):
    out = []
    for p in js.values:
        if isinstance(p, ast.Constant):
            out.append(("lit", p.value))
        elif isinstance(p, ast.FormattedValue):
            out.append(("expr", norm(p.value)))
    return out


REF_BLOCK = {
    "encode": """
def encode(self):
    data_length = len(self.data)
    struct_args = (self.header.length + data_length, self.header.encode(), self.data)
    if self.checksum_format != "":
        struct_args += (self.checksum,)
    return struct.pack(f">{self.length_format}{self.header.length}s{data_length}s{self.checksum_format}", *struct_args)
""",
    "decode": """
def decode(cls, data):
    data_length = struct.unpack_from(f">{cls.length_format}", data)[0] - cls.header_type.length
    data_fields = struct.unpack(f">{cls.length_format}{cls.header_type.length}s{data_length}s{cls.checksum_format}", data)
    header = cls.header_type.decode(data_fields[1])
    obj = cls(header, data_fields[2])
    if cls.checksum_format != "" and obj.checksum != data_fields[3]:
        return None
    return obj
""",
    "checksum": """
def checksum(self):
    if self.checksum_format == "":
        return 0
    calculated_checksum = 0
    for data_byte in self.header.encode() + self.data:
        calculated_checksum += data_byte
    return calculated_checksum
""",
}


def check_block_encode(ctx, rule):
    from . import _codec

    f = ctx.repo.method("Block", "encode", inherited=False)
    _codec.agree(ctx, rule, f, REF_BLOCK["encode"], {
        "returns": "the frame is big-endian: length field = header.length + len(data), the encoded header, the data, and the checksum iff the block type has a checksum field",
    }, key_prefix="frame ")


def check_block_decode(ctx, rule, with_checksum=True):
    from . import _codec

    f = ctx.repo.method("Block", "decode", inherited=False)
    only = None if with_checksum else (lambda row: "[cls.checksum_format == ''" in row or ", cls.checksum_format == ''" in row)
    _codec.agree(ctx, rule, f, REF_BLOCK["decode"], {
        "returns": ("the frame is split with the encoder's format (data length = length field - header length), the header is decoded from field 1, the block carries field 2; "
                    + ("a block type with a checksum field is returned only when the computed checksum equals the transmitted one, a mismatch gives None" if with_checksum else "a block type without a checksum field is never refused")),
    }, key_prefix="unframe ", only_cases=only)


def _checksum_gate_equivalent(f, tests, fvar, formats=("", "H")) -> bool:
    """Finite-domain evaluation of the gate condition: the block is refused iff the block type has a checksum field and
    the computed checksum differs from the transmitted one - evaluated for checksum_format in {'', 'H'}, computed in
    {0, 300}, transmitted in {0, 300, 77} (0 included: a truthiness test on the transmitted value is wrong)."""
    import copy

    if len(tests) != 1:
        return False
    expr = tests[0].ast
    defs = rules.single_assignments(f.node)

    class Sub(ast.NodeTransformer):
        def visit_Name(self, node):
            if isinstance(node.ctx, ast.Load) and node.id in defs and node.id not in (fvar, "obj", "cls"):
                return copy.deepcopy(defs[node.id])
            return node

    cur = copy.deepcopy(expr)
    for _ in range(3):
        cur = Sub().visit(cur)
    ast.fix_missing_locations(cur)
    try:
        code = compile(ast.Expression(cur), "<gate>", "eval")
    except Exception:
        return False

    class O:
        pass

    for fmt in formats:
        for computed in (0, 300):
            for received in (0, 300, 77):
                cls_, obj = O(), O()
                cls_.checksum_format = fmt
                obj.checksum = computed
                env = {"cls": cls_, "obj": obj, fvar: [None, None, None, received], "self": cls_}
                try:
                    got = bool(eval(code, {"__builtins__": {}}, env))  # noqa: S307 - abstract stand-ins only
                except Exception:
                    return False
                if got != (fmt != "" and computed != received):
                    return False
    return True


def check_checksum(ctx, rule):
    from . import _codec

    f = ctx.repo.method("Block", "checksum", inherited=False)
    _codec.agree(ctx, rule, f, REF_BLOCK["checksum"], {
        "returns": "the checksum is the sum of every byte of the encoded header and of the data (0 only for block types without a checksum field)",
    }, key_prefix="checksum ")


# ----------------------------------------------------------------------------------------------- header layouts
def eval_header_encode(repo, cls_name: str, fields: dict):
    """Abstractly evaluate <cls>.encode with self.<attr> bound to symbolic fields. fields: attr -> (name, width)."""
    f = repo.method(cls_name, "encode", inherited=False)
    attr = {f"self.{a}": bits.SymInt.field(n, w) for a, (n, w) in fields.items()}
    try:
        out = bits.Evaluator(repo, f, {}, attr).run()
    except bits.NeedDecision as exc:
        # a test of field values that no one-bit flag decides: every header is laid out bit by bit from its fields, so
        # both outcomes must produce the same layout - otherwise some headers are written differently from the rest
        outcomes = bits.explore_decisions(lambda d: bits.Evaluator(repo, f, {}, attr, decisions=d))
        rets = [o for _, (kind, o) in outcomes if kind == "return"]
        if len(rets) != len(outcomes) or not all(isinstance(o, bits.SymBytes) for o in rets):
            raise AnalysisError(f"{cls_name}.encode branches on field values (`{exc}`) and not every outcome is a header") from exc
        if any(repr(o) != repr(rets[0]) for o in rets[1:]):
            raise bits.LayoutViolation(f"the encoded bits depend on a test of field values (`{exc}`): some headers are not written with the prescribed layout") from exc
        out = rets[0]
    if not isinstance(out, bits.SymBytes):
        raise AnalysisError(f"{cls_name}.encode did not evaluate to bytes: {out!r}")
    return f, out


def eval_header_decode(repo, cls_name: str, data: bits.SymBytes):
    f = repo.method(cls_name, "decode", inherited=False)
    param = f.node.args.args[1].arg
    ev = bits.Evaluator(repo, f, {param: data, "cls": None}, {})
    try:
        out = ev.run()
    except bits.NeedDecision as exc:
        # decoding is the inverse of the bit layout for every header: a branch on the *values* of the fields makes some
        # headers decode to other fields than were sent (and the block checksum is verified over the re-encoded header)
        raise bits.LayoutViolation(f"the decoded fields depend on a test of field values (`{exc}`): some received headers are rewritten while decoding") from exc
    if not isinstance(out, bits.Obj):
        raise AnalysisError(f"{cls_name}.decode did not evaluate to a constructor call: {out!r}")
    return f, out


def bind_ctor(repo, cls_name, obj: bits.Obj):
    init = repo.cls(cls_name).find_method("__init__")
    params = [a.arg for a in init.node.args.args[1:]]
    bound = {}
    for i, a in enumerate(obj.args):
        bound[params[i]] = a
    bound.update(obj.kwargs)
    return bound


def check_layout(ctx, rule, q, where, out: bits.SymBytes, layout: list, length: int):
    """layout rows: {"byte": i, "bits": "7-0" | "7", "field": name, "field_bits": "15-8" | "0"}"""
    ok = len(out) == length
    ctx.ob(rule, q, ok, f"the encoded header has {length} bytes" if ok else f"the encoded header has {len(out)} bytes, not {length}", key="length", where=where)
    if not ok:
        return
    expected = [[0] * 8 for _ in range(length)]

    def rng(s):
        if "-" in s:
            hi, lo = s.split("-")
            return list(range(int(hi), int(lo) - 1, -1))
        return [int(s)]

    for row in layout:
        for b, fb in zip(rng(row["bits"]), rng(row["field_bits"])):
            expected[row["byte"]][b] = (row["field"], fb)
    for i in range(length):
        got = [out.items[i].bit(k) for k in range(8)]
        exp = [expected[i][k] for k in range(8)]
        ok = got == exp
        ctx.ob(rule, q, ok,
               f"byte {i}: " + " ".join(bits._bitstr(x) for x in reversed(got)) if ok else
               f"byte {i} is [{' '.join(bits._bitstr(x) for x in reversed(got))}] (msb first) but the standard layout is [{' '.join(bits._bitstr(x) for x in reversed(exp))}]",
               key=f"byte {i}", where=where)
