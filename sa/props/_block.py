"""Rules on secsgem.common.message.Block (encode/decode/checksum) and header bit layouts, shared by C04 and C16."""

from __future__ import annotations

import ast
import struct

from ..model import AnalysisError, call_name, calls_in, dotted, norm
from .. import bits, rules
from ..cfg import cfg_of


def fstring_parts(js: ast.JoinedStr):
    out = []
    for p in js.values:
        if isinstance(p, ast.Constant):
            out.append(("lit", p.value))
        elif isinstance(p, ast.FormattedValue):
            out.append(("expr", norm(p.value)))
    return out


def check_block_encode(ctx, rule):
    repo = ctx.repo
    f = repo.method("Block", "encode", inherited=False)
    ctx.touch(f)
    q = f.qualname
    packs = [c for c in calls_in(f.node) if call_name(c) == "struct.pack"]
    ctx.require(len(packs) == 1 and isinstance(packs[0].args[0], ast.JoinedStr), f"{q}: struct.pack with an f-string format not found - unknown framing idiom")
    parts = fstring_parts(packs[0].args[0])
    # data length variable
    dl = {t.id: norm(s.value) for s in rules.func_stmts(f.node) if isinstance(s, ast.Assign) for t in s.targets if isinstance(t, ast.Name)}
    dlen_vars = {k for k, v in dl.items() if v == "len(self.data)"} | {"len(self.data)"}
    want = [("lit", ">"), ("expr", "self.length_format"), ("expr", "self.header.length"), ("lit", "s"), ("expr", "DLEN"), ("lit", "s"), ("expr", "self.checksum_format")]
    got = [(k, "DLEN" if (k == "expr" and v in dlen_vars) else v) for k, v in parts]
    ok = got == want
    ctx.ob(rule, q, ok, "frame format is big-endian: length field, header of header.length bytes, len(data) data bytes, checksum field" if ok else
           f"frame format pieces {got} differ from (>, length_format, header.length s, len(data) s, checksum_format)", key="format", where=f.where)
    # arguments: tuple (header.length + data_length, header.encode(), data) [+ checksum]
    targs = None
    for s in rules.func_stmts(f.node):
        if isinstance(s, (ast.Assign, ast.AnnAssign)) and isinstance(s.value, ast.Tuple) and any(isinstance(t, ast.Name) and t.id == "struct_args" for t in rules.assigned_targets(s)):
            targs = s.value
    ctx.require(targs is not None and len(packs[0].args) == 2 and isinstance(packs[0].args[1], ast.Starred), f"{q}: struct_args tuple not found")
    a = [norm(e) for e in targs.elts]
    a = [x.replace(next(iter(dlen_vars - {"len(self.data)"}), "len(self.data)"), "DLEN").replace("len(self.data)", "DLEN") for x in a]
    ok = len(a) == 3 and a[0] in ("self.header.length + DLEN", "DLEN + self.header.length") and a[1] == "self.header.encode()" and a[2] == "self.data"
    ctx.ob(rule, q, ok, "length field = header.length + len(data); then the encoded header; then the data" if ok else f"frame arguments {a} are not (header.length + len(data), header.encode(), data)", key="args", where=f.where)
    cfg = cfg_of(f.node)
    add = [n for n in cfg.real_nodes() if isinstance(n.ast, ast.AugAssign) and norm(n.ast.target) == "struct_args"]
    ok = len(add) == 1 and norm(add[0].ast.value) == "(self.checksum,)" and (norm(cfg.dominating_conditions(add[0])[0][0]), cfg.dominating_conditions(add[0])[0][1]) == ("self.checksum_format != ''", True) if add and cfg.dominating_conditions(add[0]) else False
    ctx.ob(rule, q, ok, "the checksum is appended iff the block type has a checksum field" if ok else "the checksum argument is not appended exactly when checksum_format is non-empty", key="checksum-arg", where=f.where)


def check_block_decode(ctx, rule, with_checksum=True):
    repo = ctx.repo
    f = repo.method("Block", "decode", inherited=False)
    ctx.touch(f)
    q = f.qualname
    cfg = cfg_of(f.node)
    uf = [c for c in calls_in(f.node) if call_name(c) == "struct.unpack_from"]
    up = [c for c in calls_in(f.node) if call_name(c) == "struct.unpack"]
    ctx.require(len(uf) == 1 and len(up) == 1, f"{q}: unpack_from/unpack pair not found - unknown framing idiom")
    ok = isinstance(uf[0].args[0], ast.JoinedStr) and fstring_parts(uf[0].args[0]) == [("lit", ">"), ("expr", "cls.length_format")]
    ctx.ob(rule, q, ok, "the length field is read big-endian with the block type's length format" if ok else "the length field is not read as '>' + length_format", key="len-format", where=f.where)
    dl = None
    for s in rules.func_stmts(f.node):
        if isinstance(s, ast.Assign) and uf[0] in calls_in(s.value):
            dl = (s.targets[0].id, norm(s.value))
    ok = dl is not None and dl[1].endswith("[0] - cls.header_type.length")
    ctx.ob(rule, q, ok, "data length = length field - header length" if ok else f"data length is computed as {dl}", key="data-length", where=f.where)
    if dl:
        parts = fstring_parts(up[0].args[0]) if isinstance(up[0].args[0], ast.JoinedStr) else []
        want = [("lit", ">"), ("expr", "cls.length_format"), ("expr", "cls.header_type.length"), ("lit", "s"), ("expr", dl[0]), ("lit", "s"), ("expr", "cls.checksum_format")]
        ok = parts == want
        ctx.ob(rule, q, ok, "the frame is split with the same format the encoder uses" if ok else f"decode format {parts} differs from the encoder's", key="format", where=f.where)
    # header from field 1, data from field 2, checksum field 3
    fvar = next((s.targets[0].id for s in rules.func_stmts(f.node) if isinstance(s, ast.Assign) and s.value is up[0]), None)
    ctx.require(fvar is not None, f"{q}: unpack result variable not found")
    hd = [c for c in calls_in(f.node) if call_name(c) == "cls.header_type.decode"]
    ok = len(hd) == 1 and norm(hd[0].args[0]) == f"{fvar}[1]"
    ctx.ob(rule, q, ok, "the header is decoded from the header field" if ok else "the header is not decoded from field 1 of the frame", key="header-field", where=f.where)
    ctor = [c for c in calls_in(f.node) if call_name(c) == "cls"]
    ok = len(ctor) == 1 and len(ctor[0].args) == 2 and norm(ctor[0].args[1]) == f"{fvar}[2]"
    ctx.ob(rule, q, ok, "the block carries the data field" if ok else "the block is not built from (header, field 2)", key="data-field", where=f.where)
    # checksum gate
    rets = [n for n in cfg.real_nodes() if isinstance(n.ast, ast.Return)]
    none_rets = [r for r in rets if isinstance(r.ast.value, ast.Constant) and r.ast.value.value is None]
    obj_rets = [r for r in rets if r not in none_rets]
    tests = [n for n in cfg.nodes if n.kind == "test" and "checksum" in norm(n.ast)]
    ok = len(tests) == 1 and norm(tests[0].ast) in (
        f"cls.checksum_format != '' and obj.checksum != {fvar}[3]",
        f"cls.checksum_format != '' and {fvar}[3] != obj.checksum",
    )
    if not ok and len(tests) >= 1:
        ok = _checksum_gate_equivalent(f, tests, fvar, formats=("", "H") if with_checksum else ("",))
    if not with_checksum:
        ctx.ob(rule, q, ok, "a block type without a checksum field is never refused by the checksum gate" if ok else f"the checksum gate `{[norm(t.ast) for t in tests]}` can refuse a block type that has no checksum field", key="checksum-gate", where=f.where)
        return
    ctx.ob(rule, q, ok, "a block type with a checksum field compares the computed checksum with the transmitted one" if ok else
           f"checksum gate is `{[norm(t.ast) for t in tests]}`: a block with a wrong checksum can be accepted", key="checksum-gate", where=f.where)
    if tests:
        T = tests[0]
        bad = rules.branch_marker(T, "true")
        good = rules.branch_marker(T, "false")
        ok = all(cfg.dominates(bad, r) for r in none_rets) and bool(none_rets) and all(cfg.dominates(good, r) for r in obj_rets) and bool(obj_rets)
        ctx.ob(rule, q, ok, "a mismatch returns None; the block object is returned only after the comparison passed" if ok else
               "the decoded block can be returned without passing the checksum comparison (or a mismatch does not return None)", key="checksum-paths", where=f.where)


def _checksum_gate_equivalent(f, tests, fvar, formats=("", "H")) -> bool:
    """Finite-domain evaluation of the gate condition: the block is refused iff the block type has a checksum field and
    the computed checksum differs from the transmitted one - evaluated for checksum_format in {'', 'H'}, computed in
    {0, 300}, transmitted in {0, 300, 77} (0 included: a truthiness test on the transmitted value is wrong)."""
    import copy

    if len(tests) != 1:
        return False
    expr = tests[0].ast
    defs = rules.single_assignments(f.node)

    class Sub(ast.NodeTransformer):
        def visit_Name(self, node):
            if isinstance(node.ctx, ast.Load) and node.id in defs and node.id not in (fvar, "obj", "cls"):
                return copy.deepcopy(defs[node.id])
            return node

    cur = copy.deepcopy(expr)
    for _ in range(3):
        cur = Sub().visit(cur)
    ast.fix_missing_locations(cur)
    try:
        code = compile(ast.Expression(cur), "<gate>", "eval")
    except Exception:
        return False

    class O:
        pass

    for fmt in formats:
        for computed in (0, 300):
            for received in (0, 300, 77):
                cls_, obj = O(), O()
                cls_.checksum_format = fmt
                obj.checksum = computed
                env = {"cls": cls_, "obj": obj, fvar: [None, None, None, received], "self": cls_}
                try:
                    got = bool(eval(code, {"__builtins__": {}}, env))  # noqa: S307 - abstract stand-ins only
                except Exception:
                    return False
                if got != (fmt != "" and computed != received):
                    return False
    return True


def check_checksum(ctx, rule):
    repo = ctx.repo
    f = repo.method("Block", "checksum", inherited=False)
    ctx.touch(f)
    q = f.qualname
    cfg = cfg_of(f.node)
    fors = [s for s in rules.func_stmts(f.node) if isinstance(s, ast.For)]
    ctx.require(len(fors) == 1, f"{q}: accumulation loop not found")
    loop = fors[0]
    ok = norm(loop.iter) in ("self.header.encode() + self.data",)
    ctx.ob(rule, q, ok, "the checksum covers every byte of the encoded header and of the data" if ok else f"the checksum iterates over `{norm(loop.iter)}`, not header.encode() + data: some bytes are not protected", key="covers", where=f.where)
    body = [s for s in loop.body]
    ok = len(body) == 1 and isinstance(body[0], ast.AugAssign) and isinstance(body[0].op, ast.Add) and isinstance(loop.target, ast.Name) and norm(body[0].value) == loop.target.id
    ctx.ob(rule, q, ok, "each byte is added once (every single-byte alteration changes the sum)" if ok else f"accumulation step `{norm(body[0]) if body else ''}` is not `sum += byte`", key="accumulate", where=f.where)
    acc = norm(body[0].target) if ok else None
    inits = [s for s in rules.func_stmts(f.node) if isinstance(s, ast.Assign) and acc and any(norm(t) == acc for t in s.targets)]
    ok2 = len(inits) == 1 and isinstance(inits[0].value, ast.Constant) and inits[0].value.value == 0
    ctx.ob(rule, q, ok2, "the accumulator starts at 0" if ok2 else "the accumulator does not start at 0", key="init", where=f.where)
    rets = [n for n in cfg.real_nodes() if isinstance(n.ast, ast.Return)]
    final = [r for r in rets if acc and norm(r.ast.value) == acc]
    ok3 = len(final) == 1 and not cfg.path_exists(cfg.entry, final[0], avoid=[n for n in cfg.nodes if n.kind == "iter"])
    ctx.ob(rule, q, ok3, "the sum is returned after the loop" if ok3 else "the accumulated sum is not what is returned", key="returns-sum", where=f.where)
    early = [r for r in rets if r not in final]
    ok4 = all(any(norm(t) == "self.checksum_format == ''" and v for t, v in cfg.dominating_conditions(r)) for r in early)
    ctx.ob(rule, q, ok4, "only block types without a checksum field skip the computation" if ok4 else "the checksum computation is skipped under another condition", key="skip", where=f.where)


# ----------------------------------------------------------------------------------------------- header layouts
def eval_header_encode(repo, cls_name: str, fields: dict):
    """Abstractly evaluate <cls>.encode with self.<attr> bound to symbolic fields. fields: attr -> (name, width)."""
    f = repo.method(cls_name, "encode", inherited=False)
    attr = {f"self.{a}": bits.SymInt.field(n, w) for a, (n, w) in fields.items()}
    ev = bits.Evaluator(repo, f, {}, attr)
    out = ev.run()
    if not isinstance(out, bits.SymBytes):
        raise AnalysisError(f"{cls_name}.encode did not evaluate to bytes: {out!r}")
    return f, out


def eval_header_decode(repo, cls_name: str, data: bits.SymBytes):
    f = repo.method(cls_name, "decode", inherited=False)
    param = f.node.args.args[1].arg
    ev = bits.Evaluator(repo, f, {param: data, "cls": None}, {})
    out = ev.run()
    if not isinstance(out, bits.Obj):
        raise AnalysisError(f"{cls_name}.decode did not evaluate to a constructor call: {out!r}")
    return f, out


def bind_ctor(repo, cls_name, obj: bits.Obj):
    init = repo.cls(cls_name).find_method("__init__")
    params = [a.arg for a in init.node.args.args[1:]]
    bound = {}
    for i, a in enumerate(obj.args):
        bound[params[i]] = a
    bound.update(obj.kwargs)
    return bound


def check_layout(ctx, rule, q, where, out: bits.SymBytes, layout: list, length: int):
    """layout rows: {"byte": i, "bits": "7-0" | "7", "field": name, "field_bits": "15-8" | "0"}"""
    ok = len(out) == length
    ctx.ob(rule, q, ok, f"the encoded header has {length} bytes" if ok else f"the encoded header has {len(out)} bytes, not {length}", key="length", where=where)
    if not ok:
        return
    expected = [[0] * 8 for _ in range(length)]

    def rng(s):
        if "-" in s:
            hi, lo = s.split("-")
            return list(range(int(hi), int(lo) - 1, -1))
        return [int(s)]

    for row in layout:
        for b, fb in zip(rng(row["bits"]), rng(row["field_bits"])):
            expected[row["byte"]][b] = (row["field"], fb)
    for i in range(length):
        got = [out.items[i].bit(k) for k in range(8)]
        exp = [expected[i][k] for k in range(8)]
        ok = got == exp
        ctx.ob(rule, q, ok,
               f"byte {i}: " + " ".join(bits._bitstr(x) for x in reversed(got)) if ok else
               f"byte {i} is [{' '.join(bits._bitstr(x) for x in reversed(got))}] (msb first) but the standard layout is [{' '.join(bits._bitstr(x) for x in reversed(exp))}]",
               key=f"byte {i}", where=where)
