def __init__(self, source):
    self._source = io.StringIO(source)
    self._line = 1
    self._col = 1
    self._source_lines = ['']
    self._tokens = SFDLTokens([])
    self.parse_all()
