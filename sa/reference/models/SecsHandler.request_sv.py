def request_sv(self, sv_id):
    self.logger.info('Get value of service variable %s', sv_id)
    result = self.request_svs([sv_id])
    if result is None:
        return None
    return result[0]
