def validate_value(self, value):
    if isinstance(value, list):
        return self._validate_list_value(value)
    if isinstance(value, int):
        return [self._verify_value_in_bounds(value) == 1]
    if isinstance(value, bool):
        return [value]
    raise self._invalid_type_exception(value)
