def from_block(cls, block):
    return cls(block.header, block.data, complete=False)
