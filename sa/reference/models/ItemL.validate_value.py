def validate_value(self, value):
    if isinstance(value, list):
        return [self.from_value(item) for item in value]
    if isinstance(value, dict):
        return [self.from_value(item) for item in value.values()]
    raise ValueError(f"Invalid value '{value}' for type '{self.__class__.__name__}'")
