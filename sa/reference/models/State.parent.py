def parent(self):
    return self._parent
