def updated_with(self, **kwargs):
    self._as_dictionary.update(kwargs)
    return self.__class__(**self._as_dictionary)
