def updated_with(self, **kwargs):
    data = self._as_dictionary
    data.update(kwargs)
    return self.__class__(**data)
