def available(self):
    return len(self._items) > 0
