def get(self, length=1):
    result = self._data[:length]
    self._data = self._data[length:]
    return result
