def _on_control_state_control(self, _):
    if self._initial_control_state == 'ONLINE':
        'Perform a transition.\n\n        Args:\n            name: transition name\n\n        '
        transition = self.transition('initial_online')
        if self._current_state not in transition.sources:
            raise WrongSourceStateError('initial_online', '/'.join([state.name for state in transition.sources]), self._current_state.name)
        self._logger.debug('State change: %s >> %s', self._current_state.name, transition.destination.name)
        self._current_state.leave(transition.destination)
        old_state = self._current_state
        self._current_state = transition.destination
        transition.destination.enter(old_state)
        transition()
    else:
        'Perform a transition.\n\n        Args:\n            name: transition name\n\n        '
        transition = self.transition('initial_offline')
        if self._current_state not in transition.sources:
            raise WrongSourceStateError('initial_offline', '/'.join([state.name for state in transition.sources]), self._current_state.name)
        self._logger.debug('State change: %s >> %s', self._current_state.name, transition.destination.name)
        self._current_state.leave(transition.destination)
        old_state = self._current_state
        self._current_state = transition.destination
        transition.destination.enter(old_state)
        transition()
