def _format_value(value):
    return '0x1' if value else '0x0'
