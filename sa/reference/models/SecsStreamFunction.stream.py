def stream(self):
    return self._stream
