def clear_collection_events(self):
    self._logger.info('Clearing collection events')
    self.report_subscriptions = {}
    self.disable_ceids()
    self.disable_ceid_reports()
