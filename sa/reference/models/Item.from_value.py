def from_value(cls, value):
    result = None
    if isinstance(value, Item):
        result = value
    elif isinstance(value, list):
        result = cls._subclasses_by_sml['L'](value)
    elif isinstance(value, str):
        result = cls._subclasses_by_sml['A'](value)
    elif isinstance(value, bytes):
        result = cls._subclasses_by_sml['B'](value)
    elif isinstance(value, bool):
        result = cls._subclasses_by_sml['BOOLEAN'](value)
    elif isinstance(value, float):
        result = cls._from_value_float(value)
    elif isinstance(value, int):
        result = cls._from_value_int(value)
    if result:
        return result
    raise ValueError(f"Invalid value '{value}' of type '{type(value)}' in 'Item.from_value'")
