def _on_s10f01(self, handler, message):
    s10f1 = self.settings.streams_functions.decode(message)
    result = self._callback_handler.terminal_received(handler, s10f1.TID, s10f1.TEXT)
    self.events.fire('terminal_received', {'text': s10f1.TEXT, 'terminal': s10f1.TID, 'handler': self.protocol, 'peer': self})
    return self.stream_function(10, 2)(result)
