def system(self):
    return self._system
