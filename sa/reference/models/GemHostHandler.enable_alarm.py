def enable_alarm(self, alid):
    self._logger.info('Enable alarm %d', alid)
    return self.settings.streams_functions.decode(self.send_and_waitfor_response(self.stream_function(5, 3)({'ALED': self.settings.data_items.ALED.ENABLE, 'ALID': alid}))).get()
