def _set_ec_value(self, equipment_constant, value):
    if equipment_constant.ecid == EquipmentConstantId.ESTABLISH_COMMUNICATIONS_TIMEOUT.value:
        self.settings.establish_communication_timeout = int(value)
    if equipment_constant.ecid == EquipmentConstantId.TIME_FORMAT.value:
        self._time_format = int(value)
    if equipment_constant.use_callback:
        self.on_ec_value_update(equipment_constant.id_type(equipment_constant.ecid), equipment_constant, value)
    else:
        equipment_constant.value = value
