def _get_sv_value(self, status_variable):
    if status_variable.svid == StatusVariableId.CLOCK.value:
        return status_variable.value_type(self._get_clock())
    elif status_variable.svid == StatusVariableId.CONTROL_STATE.value:
        return status_variable.value_type(self._get_control_state_id())
    elif status_variable.svid == StatusVariableId.EVENTS_ENABLED.value:
        events = self._get_events_enabled()
        return status_variable.value_type(self.settings.data_items.SV, events)
    elif status_variable.svid == StatusVariableId.ALARMS_ENABLED.value:
        alarms = self._get_alarms_enabled()
        return status_variable.value_type(self.settings.data_items.SV, alarms)
    elif status_variable.svid == StatusVariableId.ALARMS_SET.value:
        alarms = self._get_alarms_set()
        return status_variable.value_type(self.settings.data_items.SV, alarms)
    elif status_variable.use_callback:
        return self.on_sv_value_request(status_variable.id_type(status_variable.svid), status_variable)
    else:
        return status_variable.value_type(status_variable.value)
