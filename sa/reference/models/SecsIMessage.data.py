def data(self):
    return b''.join((block.data for block in self._blocks))
