def from_sml(cls, sml):
    if isinstance(sml, str):
        sml = SMLParser(sml)
    cls._import_inherited()
    if cls is Item:
        return cls._read_sml_token(sml)
    if cls is cls._subclasses_by_sml['L']:
        return cls(cls._read_items(sml, cls._read_sml_token))
    return cls(cls._read_sml_token(sml))
