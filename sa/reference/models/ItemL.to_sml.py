def to_sml(self, indent=0):
    if len(self._value) == 0:
        return f'{indent * ' '}< {self._sml_type} >'
    values = [f'{value.to_sml(indent + 4)}' for value in self._value]
    values_text = '\n'.join(values)
    return f'{indent * ' '}< {self._sml_type} [{len(self._value)}]\n{values_text}\n{indent * ' '}>'
