def supports_value(self, value):
    if isinstance(value, (list, tuple, bytearray)):
        if self.count > 0 and len(value) > self.count:
            return False
        return all((self._check_single_item_support(item) for item in value))
        return None
    if isinstance(value, bytes):
        return not 0 < self.count < len(value)
        return None
    if isinstance(value, (int, float, complex)):
        return not 0 < self.count < len(str(value))
        return None
    if isinstance(value, str):
        if 0 < self.count < len(value):
            return False
        try:
            value.encode(self.coding)
        except UnicodeEncodeError:
            return False
        return True
        return None
    return False
