def __init__(self, functions=None, data_items=None):
    if functions is None:
        functions = secs_streams_functions.copy()
    self._functions = functions
    self._data_items = data_items if data_items is not None else DataItems()
