def _format_value(value):
    return hex(value)
