def __init__(self, *args, **kwargs):
    super().__init__(*args, **kwargs)
    self._control_state = ControlStateMachine(self._initial_control_state, self._initial_online_control_state)
    self._control_state.attempt_online.events.enter.register(self._on_control_state_attempt_online)
    self._control_state.transition('initial_online_local').events.called.register(self._on_control_state_initial_online_local)
    self._control_state.transition('switch_online_local').events.called.register(self._on_control_state_initial_online_local)
    self._control_state.transition('initial_online_remote').events.called.register(self._on_control_state_initial_online_remote)
    self._control_state.transition('switch_online_remote').events.called.register(self._on_control_state_initial_online_remote)
    self._control_state.start()
