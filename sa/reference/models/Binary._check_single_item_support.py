def _check_single_item_support(value):
    if isinstance(value, bool):
        return True
    if isinstance(value, int):
        return 0 <= value <= 255
    return False
