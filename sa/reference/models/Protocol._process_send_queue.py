def _process_send_queue(self):
    raise NotImplementedError('Protocol._process_send_queue missing implementation')
