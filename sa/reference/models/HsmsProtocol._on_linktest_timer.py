def _on_linktest_timer(self):
    self.send_linktest_req()
    self._start_linktest_timer()
