def data(self):
    raise NotImplementedError('Message.data missing implementation')
