def clear_alarm(self, alid):
    if alid not in self.alarms:
        raise ValueError(f'Unknown alarm id {alid}')
    if not self.alarms[alid].set:
        return
    if self.alarms[alid].enabled:
        self.send_and_waitfor_response(self.stream_function(5, 1)({'ALCD': self.alarms[alid].code, 'ALID': alid, 'ALTX': self.alarms[alid].text}))
    self.alarms[alid].set = False
    self.trigger_collection_events([self.alarms[alid].ce_off])
