def _send_select_req_thread(self):
    try:
        response = self.send_select_req()
        if response is None:
            self._logger.warning('select request failed')
    except Exception as exc:
        self._logger.warning('exception in _send_select_req_thread', exc_info=exc)
