def _create_message_for_function(self, function, system_id):
    return SecsIMessage(SecsIHeader(system_id, self._settings.device_id, function.stream, function.function, 0, self._settings.device_type == secsgem.common.DeviceType.EQUIPMENT, function.is_reply_required), function.encode())
