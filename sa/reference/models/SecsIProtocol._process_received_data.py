def _process_received_data(self):
    if len(self._receive_buffer) < 1:
        return
    while len(self._receive_buffer) > 0:
        receive_byte = self._receive_buffer.pop_byte()
        if receive_byte != self.ENQ:
            self._logger.info("Expected ENQ, received '%s'. Ignoring", receive_byte)
        self._connection.send_data(bytes([self.EOT]))
        length = self._receive_buffer.wait_for_byte(peek=True)
        data = self._receive_buffer.wait_for(length + 3)
        response = SecsIBlock.decode(data)
        if response is None:
            self._connection.send_data(bytes([self.NAK]))
            return
        self._thread.queue_block(self, response)
        self._connection.send_data(bytes([self.ACK]))
