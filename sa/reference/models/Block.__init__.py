def __init__(self, header, data):
    self._header = header
    self._data = data
