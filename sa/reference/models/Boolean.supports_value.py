def supports_value(self, value):
    if isinstance(value, (list, tuple)):
        if 0 < self.count < len(value):
            return False
        return all((self._check_single_item_support(item) for item in value))
        return None
    if isinstance(value, bytearray):
        if 0 < self.count < len(value):
            return False
        return all((0 <= char <= 1 for char in value))
        return None
    if isinstance(value, bool):
        return True
    if isinstance(value, int):
        return 0 <= value <= 1
    if isinstance(value, str):
        return bool(value.upper() in self._true_strings or value.upper() in self._false_strings)
    return False
    return None
