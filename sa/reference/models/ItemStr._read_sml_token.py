def _read_sml_token(cls, parser):
    data = b''
    while parser.peek_token().value != '>':
        item = parser.get_token()
        if item.value.startswith('"'):
            data += item.value.strip('"').encode(cls._encoding)
        else:
            char = int(item.value, 0)
            char = int(cls._verify_value_in_bounds(char, item))
            data += cls._char_coder(char)
    parser.get_token()
    return data
