def list_ecs(self, ecs=None):
    self.logger.info('Get list of equipment constants')
    if ecs is None:
        ecs = []
    return self.settings.streams_functions.decode(self.send_and_waitfor_response(self.stream_function(2, 29)(ecs)))
