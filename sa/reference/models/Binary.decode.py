def decode(self, data, start=0):
    text_pos, _, length = self.decode_item_header(data, start)
    result = data[text_pos:text_pos + length]
    self.set(result)
    return text_pos + length
