def _process_received_data(self):
    raise NotImplementedError('Protocol._process_received_data missing implementation')
