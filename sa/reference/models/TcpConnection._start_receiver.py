def _start_receiver(self):
    threading.Thread(target=self.__receiver_thread, args=(), name=f'secsgem_tcpConnection_receiver_{self._settings.address}:{self._settings.port}').start()
    while not self._thread_running:
        pass
