def _check_single_item_support(self, value):
    if isinstance(value, float) and self._base_type is int:
        return False
    if isinstance(value, bool):
        return True
    if isinstance(value, (int, float)):
        return not (value < self._min or value > self._max)
    if isinstance(value, (bytes, str)):
        try:
            val = self._base_type(value)
        except ValueError:
            return False
        return not (val < self._min or val > self._max)
        return None
    return False
