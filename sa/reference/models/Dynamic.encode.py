def encode(self):
    return self.value.encode()
