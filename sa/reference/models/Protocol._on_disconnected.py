def _on_disconnected(self, _):
    raise NotImplementedError('Protocol._on_disconnected missing implementation')
