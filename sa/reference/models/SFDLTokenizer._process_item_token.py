def _process_item_token(self, elements, tokens):
    if not elements.available:
        raise SFDLParseError.from_token('Item expected', tokens[-1], end=True)
    item_name, item_location = elements.pop()
    if item_name != 'L':
        tokens.append(self._process_data_item_token(item_name, item_location))
    else:
        tokens.append(SFDLToken(SFDLTokenType.LIST, item_name, item_location, self))
        self._process_list_item_token(elements, tokens)
