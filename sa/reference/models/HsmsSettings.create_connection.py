def create_connection(self):
    if self.connect_mode == HsmsConnectMode.ACTIVE:
        return secsgem.common.TcpClientConnection(self)
    return secsgem.common.TcpServerConnection(self)
