def _handle_unknown_functions(self, message):
    self.logger.warning('unexpected function received S%02dF%02d\n%s', message.header.stream, message.header.function, message.header)
    if message.header.require_response:
        self.send_response(self.stream_function(9, 5)(message.header.encode()), message.header.system)
