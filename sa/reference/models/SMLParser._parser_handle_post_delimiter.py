def _parser_handle_post_delimiter(self, char, current_delimiter, current_token, location):
    if char == current_delimiter:
        current_token += char
        if current_token:
            self._tokens.append(SMLToken(current_token, location.line, location.column, self))
            current_token = ''
        location.reset()
        current_delimiter = ''
    else:
        current_token += char
    return (current_delimiter, current_token)
