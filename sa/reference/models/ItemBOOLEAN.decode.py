def decode(cls, data):
    if isinstance(data, bytes):
        data = PacketData(data)
    _, length = cls._decode_item_header(data)
    result = [char > 0 for char in data.get(length)]
    return cls(result)
