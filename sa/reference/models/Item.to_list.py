def to_list(self):
    if isinstance(self._value, list):
        results = []
        if len(self._value) == 1 and (not isinstance(self._value[0], Item)):
            return self._value[0]
        for value in self._value:
            if isinstance(value, Item):
                results.append(value.to_list)
            else:
                results.append(value)
        return results
    return self._value
