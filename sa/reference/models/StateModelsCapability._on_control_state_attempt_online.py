def _on_control_state_attempt_online(self, _):
    if self._communication_state.current != CommunicationState.COMMUNICATING:
        self._control_state.attempt_online_fail_host_offline()
        return
    response = self.are_you_there()
    if response is None:
        self._control_state.attempt_online_fail_host_offline()
        return
    if response.header.stream != 1 or response.header.function != 2:
        self._control_state.attempt_online_fail_host_offline()
        return
    self._control_state.attempt_online_success()
