def __getattr__(self, name):
    return _CallbackCallWrapper(self, name)
