def get_name_from_format(data_format):
    if not isinstance(data_format, list):
        raise TypeError(f"Can't generate item name of class {data_format.__class__.__name__}")
    if isinstance(data_format[0], str):
        return data_format[0]
    return 'DATA'
