def validate_value(self, value):
    if isinstance(value, list):
        return self._validate_list_value(value)
    if isinstance(value, int):
        return bytes([int(self._verify_value_in_bounds(value))])
    if isinstance(value, bytes):
        return value
    if isinstance(value, str):
        return value.encode('utf-8')
    raise self._invalid_type_exception(value)
