def type(self):
    return self._type
