def request_ecs(self, ecs):
    self.logger.info('Get value of equipment constants %s', ecs)
    return self.settings.streams_functions.decode(self.send_and_waitfor_response(self.stream_function(2, 13)(ecs)))
