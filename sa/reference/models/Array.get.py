def get(self):
    return [item.get() for item in self.data]
