def data(self):
    return self._blocks[0].data
