def request_ec(self, ec_id):
    self.logger.info('Get value of equipment constant %s', ec_id)
    return self.request_ecs([ec_id])
