def decode(self, data, start=0):
    from .functions import generate
    text_pos, _, length = self.decode_item_header(data, start)
    self.data = []
    for _ in range(length):
        new_object = generate(self.item_decriptor)
        text_pos = new_object.decode(data, text_pos)
        self.data.append(new_object)
    return text_pos
