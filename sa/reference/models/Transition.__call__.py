def __call__(self):
    self.events.fire('called', {})
