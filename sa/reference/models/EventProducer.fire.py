def fire(self, event, data):
    for target in self._targets:
        generic_handler = getattr(target, '_on_event', None)
        if callable(generic_handler):
            generic_handler(event, data)
        specific_handler = getattr(target, '_on_event_' + event, None)
        if callable(specific_handler):
            specific_handler(data)
    if event in self._events:
        self._events[event](data)
