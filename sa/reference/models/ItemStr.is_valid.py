def is_valid(cls, value, length=None):
    if isinstance(value, (str, bytes)):
        return not (length is not None and len(value) > length)
    return bool(isinstance(value, cls))
