def messagereceived(self):
    """Perform a transition.

        Args:
            name: transition name

        """
    transition = self.transition('messagereceived')
    if self._current_state not in transition.sources:
        raise WrongSourceStateError('messagereceived', '/'.join([state.name for state in transition.sources]), self._current_state.name)
    self._logger.debug('State change: %s >> %s', self._current_state.name, transition.destination.name)
    self._current_state.leave(transition.destination)
    old_state = self._current_state
    self._current_state = transition.destination
    transition.destination.enter(old_state)
    transition()
