def __init__(self, value=None):
    self.name = self.__class__.__name__
    super().__init__([Array, Boolean, U1, U2, U4, U8, I1, I2, I4, I8, F4, F8, String, Binary], value)
