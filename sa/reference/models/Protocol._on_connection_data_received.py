def _on_connection_data_received(self, data):
    self._receive_buffer.append(data['data'])
    self._thread.trigger_receiver()
