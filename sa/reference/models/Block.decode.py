def decode(cls, data):
    data_length = struct.unpack_from(f'>{cls.length_format}', data)[0] - cls.header_type.length
    data_fields = struct.unpack(f'>{cls.length_format}{cls.header_type.length}s{data_length}s{cls.checksum_format}', data)
    header = cls.header_type.decode(data_fields[1])
    obj = cls(header, data_fields[2])
    if cls.checksum_format != '' and obj.checksum != data_fields[3]:
        return None
    return obj
