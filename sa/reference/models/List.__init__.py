def __init__(self, data_format, value=None):
    super().__init__()
    self.name = 'DATA'
    self.data = self._generate(data_format)
    if value is not None:
        self.set(value)
    self._object_intitialized = True
