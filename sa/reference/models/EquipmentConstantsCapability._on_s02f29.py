def _on_s02f29(self, _handler, message):
    function = self.settings.streams_functions.decode(message)
    responses = []
    if len(function) == 0:
        responses = [{'ECID': eq_constant.ecid, 'ECNAME': eq_constant.name, 'ECMIN': eq_constant.min_value if eq_constant.min_value is not None else '', 'ECMAX': eq_constant.max_value if eq_constant.max_value is not None else '', 'ECDEF': eq_constant.default_value, 'UNITS': eq_constant.unit} for eq_constant in self._equipment_constants.values()]
    else:
        for ecid in function:
            if ecid not in self._equipment_constants:
                responses.append({'ECID': ecid, 'ECNAME': '', 'ECMIN': '', 'ECMAX': '', 'ECDEF': '', 'UNITS': ''})
            else:
                eq_constant = self._equipment_constants[ecid]
                responses.append({'ECID': eq_constant.ecid, 'ECNAME': eq_constant.name, 'ECMIN': eq_constant.min_value if eq_constant.min_value is not None else '', 'ECMAX': eq_constant.max_value if eq_constant.max_value is not None else '', 'ECDEF': eq_constant.default_value, 'UNITS': eq_constant.unit})
    return self.stream_function(2, 30)(responses)
