def function(self):
    return self._function
