def _start_linktest_timer(self):
    self._linktest_timer = threading.Timer(self._linktest_timeout, self._on_linktest_timer)
    self._linktest_timer.daemon = True
    self._linktest_timer.name = 'secsgem_hsmsProtocol_linktestTimer'
    self._linktest_timer.start()
