def _process_send_queue(self):
    if self._send_queue.empty():
        return
    while not self._send_queue.empty():
        packets = [self._send_queue.get().data[i:i + self.send_packet_size] for i in range(0, len(self._send_queue.get().data), self.send_packet_size)]
        for packet in packets:
            if not self._connection.send_data(packet):
                self._send_queue.get().resolve(False)
                return
        self._send_queue.get().resolve(True)
