def _initial_control_state(self):
    return self.__initial_control_state
