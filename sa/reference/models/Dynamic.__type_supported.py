def __type_supported(self, typ):
    if not self.types:
        return True
    return typ in self.types
