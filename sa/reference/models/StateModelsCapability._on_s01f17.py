def _on_s01f17(self, _handler, _message):
    onlack = 1
    if self._control_state.current == ControlState.HOST_OFFLINE:
        self._control_state.remote_online()
        onlack = 0
    elif self._control_state.current in [ControlState.ONLINE, ControlState.ONLINE_LOCAL, ControlState.ONLINE_REMOTE]:
        onlack = 2
    return self.stream_function(1, 18)(onlack)
