def get(self):
    if len(self.value) == 1:
        return self.value[0]
    return self.value
