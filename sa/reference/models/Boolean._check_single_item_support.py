def _check_single_item_support(self, value):
    if isinstance(value, bool):
        return True
    if isinstance(value, int):
        return 0 <= value <= 1
    if isinstance(value, str):
        return bool(value.upper() in self._true_strings or value.upper() in self._false_strings)
    return False
