def __init__(self, message, location, tokenizer, offset=0):
    prefix = (location.column + offset - 1) * ' '
    message = f'\n{tokenizer.source_line(location.line - 1)}\n{prefix}^-- {message}'
    super().__init__(message)
    self.location = location
    self.tokenizer = tokenizer
    self.offset = offset
