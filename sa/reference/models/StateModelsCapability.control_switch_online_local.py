def control_switch_online_local(self):
    self._control_state.switch_online_local()
