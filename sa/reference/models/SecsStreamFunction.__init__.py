def __init__(self, value=None):
    self.data = functions.generate(self._data_format)
    self.data_format = self._data_format
    self.to_host = self._to_host
    self.to_equipment = self._to_equipment
    self.has_reply = self._has_reply
    self.is_reply_required = self._is_reply_required
    self.is_multi_block = self._is_multi_block
    if value is not None and self.data is not None:
        self.data.set(value)
    self._object_intitialized = True
