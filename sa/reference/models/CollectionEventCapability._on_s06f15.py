def _on_s06f15(self, _handler, message):
    function = self.settings.streams_functions.decode(message)
    reports = []
    if function.get() in self._registered_collection_events and self._registered_collection_events[function.get()].enabled:
        reports = self._build_collection_event(function.get())
    return self.stream_function(6, 16)({'DATAID': 1, 'CEID': function.get(), 'RPT': reports})
