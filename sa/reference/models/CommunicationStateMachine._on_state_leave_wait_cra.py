def _on_state_leave_wait_cra(self, _data):
    if self._wait_cra_timer is not None:
        self._wait_cra_timer.cancel()
