def _process_tokens(self, elements, tokens=None):
    if tokens is None:
        tokens = []
    self._process_opening_token(elements, tokens)
    self._process_item_token(elements, tokens)
    self._process_closing_token(elements, tokens)
    return tokens
