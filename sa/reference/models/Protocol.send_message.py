def send_message(self, message):
    for block in message.blocks:
        block_send_info = BlockSendInfo(block.encode())
        self._send_queue.put(block_send_info)
        self._thread.trigger_receiver()
        if not block_send_info.wait():
            return False
    return True
