def _call(self, callback, *args, **kwargs):
    if callback in self._callbacks:
        return self._callbacks[callback](*args, **kwargs)
    delegate_handler = getattr(self.target, '_on_' + callback, None)
    if callable(delegate_handler):
        return delegate_handler(*args, **kwargs)
    return None
