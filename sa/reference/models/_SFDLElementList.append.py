def append(self, value, location):
    self._items.append((value, location))
