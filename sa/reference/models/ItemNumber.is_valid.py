def is_valid(cls, value, _length=None):
    if isinstance(value, list):
        for item in value:
            if not isinstance(item, cls._type):
                return False
            if not cls._is_value_in_bounds(item):
                return False
        return True
    if isinstance(value, cls._type):
        return cls._is_value_in_bounds(value)
    return bool(isinstance(value, cls))
