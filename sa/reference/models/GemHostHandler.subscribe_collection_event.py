def subscribe_collection_event(self, ceid, dvs, report_id=None):
    self._logger.info('Subscribing to collection event %s', ceid)
    if report_id is None:
        report_id = self._report_id_counter
        self._report_id_counter += 1
    self.report_subscriptions[report_id] = dvs
    self.send_and_waitfor_response(self.stream_function(2, 33)({'DATAID': 0, 'DATA': [{'RPTID': report_id, 'VID': dvs}]}))
    self.send_and_waitfor_response(self.stream_function(2, 35)({'DATAID': 0, 'DATA': [{'CEID': ceid, 'RPTID': [report_id]}]}))
    self.send_and_waitfor_response(self.stream_function(2, 37)({'CEED': True, 'CEID': [ceid]}))
