def pop_byte(self):
    with self._buffer_lock:
        data = self._buffer[0]
        del self._buffer[0]
        return data
