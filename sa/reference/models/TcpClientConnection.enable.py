def enable(self):
    if not self.enabled:
        self.first_connection = True
        self.enabled = True
        self.connection_thread = threading.Thread(target=self.__connect_thread, name=f'secsgem_tcpClientConnection_connectThread_{self._settings.address}')
        self.connection_thread.start()
