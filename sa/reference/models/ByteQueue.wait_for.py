def wait_for(self, size=1, peek=False):

    def min_size():
        return len(self._buffer) >= size
    if len(self._buffer) < size:
        with self._buffer_lock:
            self._buffer_lock.wait_for(min_size)
    if peek:
        return self.peek(size)
    return self.pop(size)
