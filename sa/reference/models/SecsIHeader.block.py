def block(self):
    return self._block
