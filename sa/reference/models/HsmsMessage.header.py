def header(self):
    return self._blocks[0].header
