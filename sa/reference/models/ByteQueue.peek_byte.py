def peek_byte(self, position=0):
    return self._buffer[position]
