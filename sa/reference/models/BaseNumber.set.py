def set(self, value):
    if isinstance(value, float) and self._base_type is int:
        raise ValueError(f'Invalid value {value}')
    if isinstance(value, (list, tuple)):
        self._set_list(value)
    elif isinstance(value, bytearray):
        self._set_bytearray(value)
    else:
        new_value = self._base_type(value)
        if new_value < self._min or new_value > self._max:
            raise ValueError(f'Invalid value {value}')
        self.value = [new_value]
