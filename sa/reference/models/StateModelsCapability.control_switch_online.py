def control_switch_online(self):
    self._control_state.switch_online()
