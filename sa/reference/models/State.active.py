def active(self):
    return self._active
