def function(self, stream, function):
    functions = [func for func in self._functions if func.stream == stream and func.function == function]
    if len(functions) == 0:
        return None
    if len(functions) > 1:
        raise ValueError(f'More than one function found for S{stream:02}F{function:02}: {functions}')
    return functions[0]
