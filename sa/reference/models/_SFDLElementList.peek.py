def peek(self, ahead=0):
    return self._items[ahead]
