def decode(cls, data):
    if isinstance(data, bytes):
        data = PacketData(data)
    cls._import_inherited()
    data_type = cls._decode_peek_item_type(data)
    if data_type not in cls._subclasses_by_hsms:
        raise TypeError(f"Unknown data type '{data_type}'")
    return cls._subclasses_by_hsms[data_type].decode(data)
