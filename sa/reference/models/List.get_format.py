def get_format(data_format, showname=False):
    from .array import Array
    array_name = f'{List.get_name_from_format(data_format)}: ' if showname else ''
    if isinstance(data_format, list):
        items = []
        for item in data_format:
            if isinstance(item, str):
                continue
            if isinstance(item, list):
                if len(item) == 1:
                    items.append(secsgem.common.indent_block(Array.get_format(item[0], True), 4))
                else:
                    items.append(secsgem.common.indent_block(List.get_format(item, True), 4))
            else:
                items.append(secsgem.common.indent_block(item.get_format(), 4))
        return array_name + '{\n' + '\n'.join(items) + '\n}'
    return None
