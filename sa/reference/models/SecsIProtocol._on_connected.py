def _on_connected(self, _):
    self._thread.start()
    self.events.fire('connected', {'connection': self})
    self.events.fire('communicating', {'connection': self})
