def _on_message_received(self, data):
    self._handle_stream_function(data['message'])
