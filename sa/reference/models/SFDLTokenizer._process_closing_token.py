def _process_closing_token(self, elements, tokens):
    if not elements.available:
        raise SFDLParseError.from_token("Closing tag '>' expected", tokens[-1], end=True)
    closing_value, closing_location = elements.pop()
    if closing_value != '>':
        raise SFDLParseError("Closing tag '>' expected", closing_location, self)
    tokens.append(SFDLToken(SFDLTokenType.CLOSE_TAG, closing_value, closing_location, self))
