def request_svs(self, svs):
    self.logger.info('Get value of service variables %s', svs)
    return self.settings.streams_functions.decode(self.send_and_waitfor_response(self.stream_function(1, 3)(svs)))
