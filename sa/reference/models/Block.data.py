def data(self):
    return self._data
