def _on_control_state_offline(self, _):
    if self._initial_control_state == 'EQUIPMENT_OFFLINE':
        'Perform a transition.\n\n        Args:\n            name: transition name\n\n        '
        transition = self.transition('initial_equipment_offline')
        if self._current_state not in transition.sources:
            raise WrongSourceStateError('initial_equipment_offline', '/'.join([state.name for state in transition.sources]), self._current_state.name)
        self._logger.debug('State change: %s >> %s', self._current_state.name, transition.destination.name)
        self._current_state.leave(transition.destination)
        old_state = self._current_state
        self._current_state = transition.destination
        transition.destination.enter(old_state)
        transition()
    elif self._initial_control_state == 'ATTEMPT_ONLINE':
        'Perform a transition.\n\n        Args:\n            name: transition name\n\n        '
        transition = self.transition('initial_attempt_online')
        if self._current_state not in transition.sources:
            raise WrongSourceStateError('initial_attempt_online', '/'.join([state.name for state in transition.sources]), self._current_state.name)
        self._logger.debug('State change: %s >> %s', self._current_state.name, transition.destination.name)
        self._current_state.leave(transition.destination)
        old_state = self._current_state
        self._current_state = transition.destination
        transition.destination.enter(old_state)
        transition()
    elif self._initial_control_state == 'HOST_OFFLINE':
        'Perform a transition.\n\n        Args:\n            name: transition name\n\n        '
        transition = self.transition('initial_host_offline')
        if self._current_state not in transition.sources:
            raise WrongSourceStateError('initial_host_offline', '/'.join([state.name for state in transition.sources]), self._current_state.name)
        self._logger.debug('State change: %s >> %s', self._current_state.name, transition.destination.name)
        self._current_state.leave(transition.destination)
        old_state = self._current_state
        self._current_state = transition.destination
        transition.destination.enter(old_state)
        transition()
