def encode(self):
    result = self.encode_item_header(len(self._value) if self._value is not None else 0)
    if self._value is not None:
        result += self._value
    return result
