def delete_process_programs(self, ppids):
    self._logger.info('Delete process programs %s', ppids)
    return self.settings.streams_functions.decode(self.send_and_waitfor_response(self.stream_function(7, 17)(ppids))).get()
