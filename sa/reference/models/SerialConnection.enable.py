def enable(self):
    if self._enabled:
        return
    self._enabled = True
    self.__port = serial.Serial(self._settings.port, self._settings.speed, timeout=self._receiver_timeout)
    self._receiver_thread = threading.Thread(target=self._receiver_thread_function, args=(), name=f'secsgem_secsIConnection_receiver_{self._settings.port}@{self._settings.speed}')
    self._receiver_thread.daemon = True
    self._receiver_thread.start()
    try:
        self.on_connected({'source': self})
    except Exception:
        self._logger.exception('ignoring exception for on_connected handler')
    while not self._receiver_thread_running:
        pass
