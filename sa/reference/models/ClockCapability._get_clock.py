def _get_clock(self):
    now = datetime.datetime.now(tzlocal())
    if self._time_format == 0:
        return now.strftime('%y%m%d%H%M%S')
    if self._time_format == 2:
        return now.isoformat()
    return now.strftime('%Y%m%d%H%M%S') + now.strftime('%f')[0:2]
