def get(self):
    if self.value is not None:
        return self.value.get()
    return None
