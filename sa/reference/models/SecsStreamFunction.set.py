def set(self, value):
    self.data.set(value)
