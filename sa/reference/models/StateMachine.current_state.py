def current_state(self):
    return self._current_state
