def __init__(self, data):
    self._data = data
