def set_alarm(self, alid):
    if alid not in self.alarms:
        raise ValueError(f'Unknown alarm id {alid}')
    if self.alarms[alid].set:
        return
    if self.alarms[alid].enabled:
        self.send_and_waitfor_response(self.stream_function(5, 1)({'ALCD': self.alarms[alid].code | self.settings.data_items.ALCD.ALARM_SET, 'ALID': alid, 'ALTX': self.alarms[alid].text}))
    self.alarms[alid].set = True
    self.trigger_collection_events([self.alarms[alid].ce_on])
