def get(self):
    data = {}
    for field_name in self.data:
        data[field_name] = self.data[field_name].get()
    return data
