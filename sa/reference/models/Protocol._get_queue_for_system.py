def _get_queue_for_system(self, system_id):
    self._response_queues[system_id] = queue.Queue()
    return self._response_queues[system_id]
