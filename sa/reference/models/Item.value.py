def value(self):
    if self._sml_type == 'L':
        return [item.value for item in self._value]
    if self._sml_type in 'SJB':
        return self._value
    if len(self._value) == 1:
        return self._value[0]
    return self._value
