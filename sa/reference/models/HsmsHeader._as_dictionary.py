def _as_dictionary(self):
    return {'system': self._system, 'device_id': self._device_id, 'stream': self._stream, 'function': self._function, 'requires_response': self._require_response, 'p_type': self._p_type, 's_type': self._s_type}
