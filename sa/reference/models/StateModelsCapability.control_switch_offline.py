def control_switch_offline(self):
    self._control_state.switch_offline()
    self.trigger_collection_events([CollectionEventId.EQUIPMENT_OFFLINE.value])
