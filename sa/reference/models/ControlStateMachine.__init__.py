def __init__(self, initial_control_state='ATTEMPT_ONLINE', initial_online_control_state='REMOTE'):
    super().__init__()
    self._initial_control_states = ['EQUIPMENT_OFFLINE', 'ATTEMPT_ONLINE', 'HOST_OFFLINE', 'ONLINE']
    self._initial_control_state = initial_control_state
    self._online_control_states = ['LOCAL', 'REMOTE']
    self._online_control_state = initial_online_control_state
    self.init = secsgem.common.State(ControlState.INIT, 'INIT', initial=True)
    self.control = secsgem.common.State(ControlState.CONTROL, 'CONTROL')
    self.offline = secsgem.common.State(ControlState.OFFLINE, 'OFFLINE')
    self.equipment_offline = secsgem.common.State(ControlState.EQUIPMENT_OFFLINE, 'EQUIPMENT_OFFLINE')
    self.attempt_online = secsgem.common.State(ControlState.ATTEMPT_ONLINE, 'ATTEMPT_ONLINE')
    self.host_offline = secsgem.common.State(ControlState.HOST_OFFLINE, 'HOST_OFFLINE')
    self.online = secsgem.common.State(ControlState.ONLINE, 'ONLINE')
    self.online_local = secsgem.common.State(ControlState.ONLINE_LOCAL, 'ONLINE_LOCAL')
    self.online_remote = secsgem.common.State(ControlState.ONLINE_REMOTE, 'ONLINE_REMOTE')
    self._current_state = self.init
    self._transitions = [secsgem.common.Transition('start', self.init, self.control), secsgem.common.Transition('initial_offline', self.control, self.offline), secsgem.common.Transition('initial_equipment_offline', self.offline, self.equipment_offline), secsgem.common.Transition('initial_attempt_online', self.offline, self.attempt_online), secsgem.common.Transition('initial_host_offline', self.offline, self.host_offline), secsgem.common.Transition('switch_online', self.equipment_offline, self.attempt_online), secsgem.common.Transition('attempt_online_fail_equipment_offline', self.attempt_online, self.equipment_offline), secsgem.common.Transition('attempt_online_fail_host_offline', self.attempt_online, self.host_offline), secsgem.common.Transition('attempt_online_success', self.attempt_online, self.online), secsgem.common.Transition('switch_offline', [self.online, self.online_local, self.online_remote, self.host_offline], self.equipment_offline), secsgem.common.Transition('initial_online', self.control, self.online), secsgem.common.Transition('initial_online_local', self.online, self.online_local), secsgem.common.Transition('initial_online_remote', self.online, self.online_remote), secsgem.common.Transition('switch_online_local', self.online_remote, self.online_local), secsgem.common.Transition('switch_online_remote', self.online_local, self.online_remote), secsgem.common.Transition('remote_offline', [self.online, self.online_local, self.online_remote], self.host_offline), secsgem.common.Transition('remote_online', self.host_offline, self.online)]
    self.control.events.enter.register(self._on_control_state_control)
    self.offline.events.enter.register(self._on_control_state_offline)
    self.online.events.enter.register(self._on_control_state_online)
