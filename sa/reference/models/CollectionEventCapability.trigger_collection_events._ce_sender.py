def _ce_sender():
    for ceid in ceids:
        if isinstance(ceid, CollectionEventId):
            ceid = ceid.value
        if ceid in self._registered_collection_events and self._registered_collection_events[ceid].enabled:
            reports = self._build_collection_event(ceid)
            self.send_and_waitfor_response(self.stream_function(6, 11)({'DATAID': 1, 'CEID': ceid, 'RPT': reports}))
