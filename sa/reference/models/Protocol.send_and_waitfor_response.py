def send_and_waitfor_response(self, function):
    system_id = self.get_next_system_counter()
    out_message = self._create_message_for_function(function, system_id)
    response_queue = self._get_queue_for_system(system_id)
    self._communication_logger.info('> %s\n%s', out_message, function, extra=self._get_log_extra())
    if not self.send_message(out_message):
        self._logger.error('Sending message failed')
        'Remove queue for system id from list.\n\n        Args:\n            system_id: system id to remove\n\n        '
        del self._response_queues[system_id]
        return None
    try:
        response = response_queue.get(True, self._settings.timeouts.t3)
    except queue.Empty:
        response = None
    'Remove queue for system id from list.\n\n        Args:\n            system_id: system id to remove\n\n        '
    del self._response_queues[system_id]
    return response
