def encode(self):
    result = self.encode_item_header(len(self._value))
    for counter, _ in enumerate(self._value):
        if self._value[counter]:
            result += b'\x01'
        else:
            result += b'\x00'
    return result
