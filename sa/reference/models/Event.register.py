def register(self, callback):
    self._callbacks.append(callback)
