def encode(self):
    result = self.encode_item_header(len(self.value) if self.value is not None else 0)
    if self.value is not None:
        result += bytes(self.value)
    return result
