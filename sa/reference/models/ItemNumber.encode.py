def encode(self):
    result = self.encode_item_header(len(self._value) * self._bytes)
    for counter, _ in enumerate(self._value):
        result += struct.pack(f'>{self._struct_code}', self._value[counter])
    return result
