def checksum(self):
    if self.checksum_format == '':
        return 0
    calculated_checksum = 0
    for data_byte in self.header.encode() + self.data:
        calculated_checksum += data_byte
    return calculated_checksum
