def encode(self):
    result = self.encode_item_header(len(self.data))
    for field_name in self.data:
        result += self.data[field_name].encode()
    return result
