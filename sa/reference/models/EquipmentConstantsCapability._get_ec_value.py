def _get_ec_value(self, equipment_constant):
    if equipment_constant.ecid == EquipmentConstantId.ESTABLISH_COMMUNICATIONS_TIMEOUT.value:
        return equipment_constant.value_type(self.settings.establish_communication_timeout)
    if equipment_constant.ecid == EquipmentConstantId.TIME_FORMAT.value:
        return equipment_constant.value_type(self._time_format)
    if equipment_constant.use_callback:
        return self.on_ec_value_request(equipment_constant.id_type(equipment_constant.ecid), equipment_constant)
    return equipment_constant.value_type(equipment_constant.value)
