def _on_s02f35(self, _handler, message):
    function = self.settings.streams_functions.decode(message)
    lrack = secsgem.secs.data_items.LRACK.ACK
    for event in function.DATA:
        if event.CEID.get() not in self._collection_events:
            lrack = secsgem.secs.data_items.LRACK.CEID_UNKNOWN
        for rptid in event.RPTID:
            if event.CEID.get() in self._registered_collection_events:
                collection_event = self._registered_collection_events[event.CEID.get()]
                if rptid.get() in collection_event.reports:
                    lrack = secsgem.secs.data_items.LRACK.CEID_LINKED
            if rptid.get() not in self._registered_reports:
                lrack = secsgem.secs.data_items.LRACK.RPTID_UNKNOWN
    if lrack == 0:
        for event in function.DATA:
            if not event.RPTID:
                if event.CEID.get() in self._registered_collection_events:
                    del self._registered_collection_events[event.CEID.get()]
            elif event.CEID.get() in self._registered_collection_events:
                collection_event = self._registered_collection_events[event.CEID.get()]
                for rptid in event.RPTID.get():
                    collection_event.reports.append(rptid)
            else:
                self._registered_collection_events[event.CEID.get()] = CollectionEventLink(self._collection_events[event.CEID.get()], event.RPTID.get())
    return self.stream_function(2, 36)(lrack)
