def _set_list(self, value):
    if 0 <= self.count < len(value):
        raise ValueError(f'Value longer than {self.count} chars')
    new_list = []
    for item in value:
        item = self._base_type(item)
        if item < self._min or item > self._max:
            raise ValueError(f'Invalid value {item}')
        new_list.append(item)
    self.value = new_list
