def disable(self):
    self.protocol.disable()
    self._communication_state.disable()
    self._logger.info('Connection disabled')
