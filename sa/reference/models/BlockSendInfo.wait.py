def wait(self):
    self._result_trigger.wait()
    return self._result == BlockSendResult.SENT_OK
