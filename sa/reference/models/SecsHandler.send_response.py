def send_response(self, function, system):
    return self.protocol.send_response(function, system)
