def validate_value(self, value):
    if isinstance(value, list):
        values = []
        for data_item in value:
            if isinstance(data_item, self._type):
                values.append(self._verify_value_in_bounds(data_item))
            else:
                raise self._invalid_type_exception(data_item)
        return values
    if isinstance(value, self._type):
        return [self._verify_value_in_bounds(value)]
    raise self._invalid_type_exception(value)
