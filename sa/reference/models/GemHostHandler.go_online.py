def go_online(self):
    self._logger.info('Go online')
    resp = self.settings.streams_functions.decode(self.send_and_waitfor_response(self.stream_function(1, 17)()))
    if resp is None:
        return None
    return resp.get()
