def __contains__(self, callback):
    if callback in self._callbacks:
        return True
    delegate_handler = getattr(self.target, '_on_' + callback, None)
    return bool(callable(delegate_handler))
