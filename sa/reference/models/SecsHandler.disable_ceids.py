def disable_ceids(self):
    self.logger.info('Disable all collection events')
    return self.send_and_waitfor_response(self.stream_function(2, 37)({'CEED': False, 'CEID': []}))
