def _split_blocks(cls, data, header, complete=True):
    if cls.block_size == -1:
        return [cls.block_type(header, data)]
    if len(data) == 0:
        data_blocks = [data]
    else:
        data_blocks = [data[i:i + cls.block_size] for i in range(0, len(data), cls.block_size)]
    blocks = []
    for index, block_data in enumerate(data_blocks):
        last_block = index + 1 == len(data_blocks)
        if not complete and hasattr(header, 'last_block'):
            last_block = header.last_block
        header_data = {'block': index + 1, 'last_block': last_block}
        block_header = header.updated_with(**header_data)
        blocks.append(cls.block_type(block_header, block_data))
    return blocks
