def _on_rcmd_START(self):
    self._logger.warning('remote command START not implemented, this is required for GEM compliance')
