def header(self):
    raise NotImplementedError('Message.header missing implementation')
