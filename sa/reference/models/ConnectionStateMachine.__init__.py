def __init__(self):
    super().__init__()
    self.not_connected = secsgem.common.State(ConnectionState.NOT_CONNECTED, 'NOT_CONNECTED', initial=True)
    self.connected = secsgem.common.State(ConnectionState.CONNECTED, 'CONNECTED')
    self.connected_not_selected = secsgem.common.State(ConnectionState.CONNECTED_NOT_SELECTED, 'CONNECTED_NOT_SELECTED', self.connected)
    self.connected_selected = secsgem.common.State(ConnectionState.CONNECTED_SELECTED, 'CONNECTED_SELECTED', self.connected)
    self._current_state = self.not_connected
    self._transitions = [secsgem.common.Transition('connect', self.not_connected, self.connected_not_selected), secsgem.common.Transition('disconnect', [self.connected_not_selected, self.connected_selected], self.not_connected), secsgem.common.Transition('select', self.connected_not_selected, self.connected_selected), secsgem.common.Transition('deselect', self.connected_selected, self.connected_not_selected), secsgem.common.Transition('timeoutT7', self.connected_not_selected, self.not_connected)]
