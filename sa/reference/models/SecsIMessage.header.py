def header(self):
    return self._blocks[-1].header
