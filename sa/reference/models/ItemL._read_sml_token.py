def _read_sml_token(cls, parser):
    return cls._read_item(parser)
