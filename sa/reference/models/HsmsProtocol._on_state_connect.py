def _on_state_connect(self, _):
    self._start_linktest_timer()
    if self._settings.is_active:
        self._select_req_thread = threading.Thread(target=self._send_select_req_thread, name='secsgem_hsmsProtocol_sendSelectReqThread')
        self._select_req_thread.daemon = True
        self._select_req_thread.start()
