def _on_state_connect(self, _):
    """Start the linktest timer."""
    self._linktest_timer = threading.Timer(self._linktest_timeout, self._on_linktest_timer)
    self._linktest_timer.daemon = True
    self._linktest_timer.name = 'secsgem_hsmsProtocol_linktestTimer'
    self._linktest_timer.start()
    if self._settings.is_active:
        self._select_req_thread = threading.Thread(target=self._send_select_req_thread, name='secsgem_hsmsProtocol_sendSelectReqThread')
        self._select_req_thread.daemon = True
        self._select_req_thread.start()
