def encode(self):
    result = self.encode_item_header(len(self._value))
    result += self._value.encode(self._encoding)
    return result
