def _get_char(self):
    char = self._source.read(1)
    self._col += 1
    if char == '\n':
        self._source_lines.append('')
        self._line += 1
        self._col = 0
    elif char == '\r':
        self._col = 0
    else:
        self._source_lines[-1] = self._source_lines[-1] + char
    return char
