def _as_dictionary(self):
    return {'system': self._system, 'device_id': self._device_id, 'stream': self._stream, 'function': self._function, 'block': self._block, 'from_equipment': self._from_equipment, 'require_response': self._require_response, 'last_block': self._last_block}
