def _read_items(cls, parser, sub_parser):
    items = []
    length = None
    count = 0
    if parser.peek_token().value == '[':
        parser.get_token()
        length = cls._read_length(parser)
    while parser.peek_token().value != '>':
        items.append(sub_parser(parser))
        count += 1
    parser.get_token()
    if length is not None and 0 < int(length.value) != count:
        raise length.exception(f"expected length ({length.value}) doesn't match counted items ({count})")
    return items
