def on_commack_requested(self):
    return 0
