def is_active(self):
    return self.connect_mode == HsmsConnectMode.ACTIVE
