def _on_disconnected(self, _):
    self.events.fire('disconnected', {'connection': self})
    self._thread.stop()
    self._receive_buffer.clear()
