def encode(self):
    result = self.encode_item_header(len(self.data))
    for item in self.data:
        result += item.encode()
    return result
