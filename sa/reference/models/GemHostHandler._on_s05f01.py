def _on_s05f01(self, handler, message):
    s5f1 = self.settings.streams_functions.decode(message)
    result = self._callback_handler.alarm_received(handler, s5f1.ALID, s5f1.ALCD, s5f1.ALTX)
    self.events.fire('alarm_received', {'code': s5f1.ALCD, 'alid': s5f1.ALID, 'text': s5f1.ALTX, 'handler': self.protocol, 'peer': self})
    return self.stream_function(5, 2)(result)
