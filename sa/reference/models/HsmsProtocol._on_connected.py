def _on_connected(self, _):
    self._connected = True
    self._connection_state.connect()
    self._thread.start()
    self.events.fire('connected', {'connection': self})
