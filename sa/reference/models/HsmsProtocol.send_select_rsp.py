def send_select_rsp(self, system_id):
    message = HsmsMessage(HsmsSelectRspHeader(system_id), b'')
    self._communication_logger.info('> %s\n  %s', message, message.header.s_type.text, extra=self._get_log_extra())
    return self.send_message(message)
