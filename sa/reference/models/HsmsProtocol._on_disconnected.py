def _on_disconnected(self, _):
    self._connected = False
    self._connection_state.disconnect()
    self._thread.stop()
    self._receive_buffer.clear()
    self.events.fire('disconnected', {'connection': self})
