def disable(self):
    self._connection.disable()
