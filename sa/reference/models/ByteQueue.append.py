def append(self, data):
    with self._buffer_lock:
        self._buffer.extend(data)
        self._buffer_lock.notify_all()
