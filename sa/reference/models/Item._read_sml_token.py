def _read_sml_token(cls, parser):
    start_char = parser.get_token()
    if start_char.value != '<':
        raise start_char.exception(f"expected open character '<', found '{start_char.value}'")
    data_type = parser.get_token()
    if data_type.value.upper() not in cls._subclasses_by_sml:
        raise data_type.exception(f"unknown data type '{data_type.value}'")
    return cls._subclasses_by_sml[data_type.value.upper()].from_sml(parser)
    return None
