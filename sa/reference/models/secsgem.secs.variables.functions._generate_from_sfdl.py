def _generate_from_sfdl(tokenizer, token_name=None):
    opening_token = tokenizer.tokens.next()
    if opening_token.value != '<':
        raise opening_token.exception("Opening tag '<' expected")
    item_token = tokenizer.tokens.next()
    item_name = item_token.value.upper()
    if item_name != 'L':
        return _generate_item_from_sfdl(tokenizer, item_token, item_name)
    item_key_token = None
    if tokenizer.tokens.peek().value not in '<>':
        item_key_token = tokenizer.tokens.next()
        token_name = item_key_token.value
    sub_items = []
    if tokenizer.tokens.peek(ahead=2).value != 'L' and token_name:
        sub_items.append(token_name)
        token_name = None
    while True:
        if not tokenizer.tokens.available or tokenizer.tokens.peek().value not in '<>':
            last_token = item_key_token if item_key_token else item_token
            raise last_token.exception("Expected opening '<' or closing '>' tag", end=True)
        if tokenizer.tokens.peek().value == '>':
            tokenizer.tokens.next()
            return list(sub_items)
        sub_items.append(_generate_from_sfdl(tokenizer, item_key_token.value if item_key_token else None))
