def _read_length(cls, parser):
    length = parser.get_token()
    closing = parser.get_token()
    if closing.value != ']':
        raise closing.exception(f"expected length close ']', got '{closing.value}''")
    return length
