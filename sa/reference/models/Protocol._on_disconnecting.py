def _on_disconnecting(self, _):
    raise NotImplementedError('Protocol._on_disconnecting missing implementation')
