def peek_token(self, ahead=1):
    return self._tokens[self._token_counter + ahead]
