def _on_control_state_initial_online_remote(self, _):
    self.trigger_collection_events([CollectionEventId.CONTROL_STATE_REMOTE.value])
