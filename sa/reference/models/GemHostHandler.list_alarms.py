def list_alarms(self, alids=None):
    if alids is None:
        alids = []
        self._logger.info('List all alarms')
    else:
        self._logger.info('List alarms %s', alids)
    return self.settings.streams_functions.decode(self.send_and_waitfor_response(self.stream_function(5, 5)(alids))).get()
