def next(self):
    self._token_pointer += 1
    return self._tokens[self._token_pointer]
