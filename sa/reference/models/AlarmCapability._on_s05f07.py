def _on_s05f07(self, _handler, _message):
    result = [{'ALCD': self.alarms[alid].code | (self.settings.data_items.ALCD.ALARM_SET if self.alarms[alid].set else 0), 'ALID': alid, 'ALTX': self.alarms[alid].text} for alid in list(self.alarms.keys()) if self.alarms[alid].enabled]
    return self.stream_function(5, 8)(result)
