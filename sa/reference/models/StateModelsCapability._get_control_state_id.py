def _get_control_state_id(self):
    if self._control_state.current == ControlState.EQUIPMENT_OFFLINE:
        return 1
    if self._control_state.current == ControlState.ATTEMPT_ONLINE:
        return 2
    if self._control_state.current == ControlState.HOST_OFFLINE:
        return 3
    if self._control_state.current == ControlState.ONLINE_LOCAL:
        return 4
    if self._control_state.current == ControlState.ONLINE_REMOTE:
        return 5
    return -1
