def _dispatch_block(self, source, block):
    result = self._add_message_block(block)
    if result is None:
        return
    try:
        self._on_connection_message_received(source, result)
    except Exception:
        self._logger.exception('ignoring exception for on_connection_message_received handler')
