def _disconnected(self, _):
    if self.enabled:
        self.connection_thread = threading.Thread(target=self.__connect_thread, name=f'secsgem_tcpClientConnection_connectThread_{self._settings.address}')
        self.connection_thread.start()
