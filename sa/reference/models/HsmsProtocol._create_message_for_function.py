def _create_message_for_function(self, function, system_id):
    return HsmsMessage(HsmsStreamFunctionHeader(system_id, function.stream, function.function, function.is_reply_required, self._settings.device_id), function.encode())
