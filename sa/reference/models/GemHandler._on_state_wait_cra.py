def _on_state_wait_cra(self, _data):
    if self._is_host:
        self.send_stream_function(self.stream_function(1, 13)())
    else:
        self.send_stream_function(self.stream_function(1, 13)([self._mdln, self._softrev]))
