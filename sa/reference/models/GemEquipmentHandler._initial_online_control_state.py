def _initial_online_control_state(self):
    return self.__initial_online_control_state
