def send_equipment_terminal(self, terminal_id, text):
    self.logger.info('Send text to terminal %s', terminal_id)
    return self.send_and_waitfor_response(self.stream_function(10, 3)({'TID': terminal_id, 'TEXT': text}))
