def send_separate_req(self):
    system_id = self.get_next_system_counter()
    message = HsmsMessage(HsmsSeparateReqHeader(system_id), b'')
    self._communication_logger.info('> %s\n  %s', message, message.header.s_type.text, extra=self._get_log_extra())
    if not self.send_message(message):
        return None
    return system_id
