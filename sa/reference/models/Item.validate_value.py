def validate_value(self, value):
    raise NotImplementedError
