def get_process_program_list(self):
    self._logger.info('Get process program list')
    return self.settings.streams_functions.decode(self.send_and_waitfor_response(self.stream_function(7, 19)())).get()
