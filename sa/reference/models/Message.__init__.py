def __init__(self, header, data, complete=True):
    self._blocks = self._split_blocks(data, header, complete)
