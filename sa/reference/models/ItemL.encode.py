def encode(self):
    result = self.encode_item_header(len(self._value))
    for item in self._value:
        result += item.encode()
    return result
