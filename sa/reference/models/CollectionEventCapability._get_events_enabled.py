def _get_events_enabled(self):
    enabled_ceid = []
    for ceid, collection_event in self._registered_collection_events.items():
        if collection_event.enabled:
            enabled_ceid.append(ceid)
    return enabled_ceid
