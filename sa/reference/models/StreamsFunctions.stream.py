def stream(self, stream):
    return [function for function in self._functions if function.stream == stream]
