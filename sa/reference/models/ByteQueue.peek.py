def peek(self, size=1):
    return self._buffer[:size]
