def get(self):
    if self.data is None:
        return None
    return self.data.get()
