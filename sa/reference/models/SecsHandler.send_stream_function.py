def send_stream_function(self, function):
    return self.protocol.send_stream_function(function)
