def get_next_system_counter(self):
    with self._system_counter_lock:
        self._system_counter += 1
        if self._system_counter > 2 ** 32 - 1:
            self._system_counter = 0
        return self._system_counter
