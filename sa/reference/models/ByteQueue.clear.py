def clear(self):
    with self._buffer_lock:
        self._buffer.clear()
