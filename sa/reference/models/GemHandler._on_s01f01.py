def _on_s01f01(self, _handler, _message):
    if self._is_host:
        return self.stream_function(1, 2)()
    return self.stream_function(1, 2)([self._mdln, self._softrev])
