def _on_s02f37(self, _handler, message):
    function = self.settings.streams_functions.decode(message)
    erack = secsgem.secs.data_items.ERACK.ACCEPTED
    if not self._set_ce_state(function.CEED.get(), function.CEID.get()):
        erack = secsgem.secs.data_items.ERACK.CEID_UNKNOWN
    return self.stream_function(2, 38)(erack)
