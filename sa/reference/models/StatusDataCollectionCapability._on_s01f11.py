def _on_s01f11(self, _handler, message):
    function = self.settings.streams_functions.decode(message)
    responses = []
    if len(function) == 0:
        responses = [{'SVID': status_variable.svid, 'SVNAME': status_variable.name, 'UNITS': status_variable.unit} for status_variable in self._status_variables.values()]
    else:
        for status_variable_id in function:
            if status_variable_id not in self._status_variables:
                responses.append({'SVID': status_variable_id, 'SVNAME': '', 'UNITS': ''})
            else:
                status_variable = self._status_variables[status_variable_id]
                responses.append({'SVID': status_variable.svid, 'SVNAME': status_variable.name, 'UNITS': status_variable.unit})
    return self.stream_function(1, 12)(responses)
