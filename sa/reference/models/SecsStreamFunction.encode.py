def encode(self):
    if self.data is None:
        return b''
    return self.data.encode()
