def _process_data(self):
    self._process_send_queue()
    self._process_received_data()
