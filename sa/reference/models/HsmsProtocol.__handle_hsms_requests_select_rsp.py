def __handle_hsms_requests_select_rsp(self, message):
    if message.header.system in self._response_queues:
        self._response_queues[message.header.system].put_nowait(message)
    self._connection_state.select()
