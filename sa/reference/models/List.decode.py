def decode(self, data, start=0):
    text_pos, _, length = self.decode_item_header(data, start)
    for i in range(length):
        field_name = list(self.data.keys())[i]
        text_pos = self.data[field_name].decode(data, text_pos)
    return text_pos
