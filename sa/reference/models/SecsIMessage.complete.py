def complete(self):
    return self.blocks[-1].header.last_block
