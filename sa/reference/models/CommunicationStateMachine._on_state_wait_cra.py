def _on_state_wait_cra(self, _data):
    self._wait_cra_timer = threading.Timer(self._settings.timeouts.t3, self._on_wait_cra_timeout)
    self._wait_cra_timer.start()
