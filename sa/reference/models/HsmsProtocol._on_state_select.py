def _on_state_select(self, _):
    self.events.fire('communicating', {'connection': self})
