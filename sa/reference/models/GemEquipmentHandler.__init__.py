def __init__(self, settings, initial_control_state='ATTEMPT_ONLINE', initial_online_control_state='REMOTE'):
    self.__initial_control_state = initial_control_state
    self.__initial_online_control_state = initial_online_control_state
    super().__init__(settings)
    self._is_host = False
