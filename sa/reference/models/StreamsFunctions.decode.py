def decode(self, message):
    if message is None:
        raise ValueError('Decoding failed, missing message')
    func = self.function(message.header.stream, message.header.function)
    if func is None:
        raise ValueError('Decoding failed, invalid message')
    if isinstance(message.data, SecsStreamFunction):
        return message.data
    function = func()
    function.decode(message.data)
    return function
