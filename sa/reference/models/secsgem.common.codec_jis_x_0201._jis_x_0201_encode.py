def _jis_x_0201_encode(data, errors='strict'):
    return codecs.charmap_encode(data, errors, jis8_encoding_map)
