def _parser_handle_whitespace(self, current_token, location):
    if current_token:
        self._tokens.append(SMLToken(current_token, location.line, location.column, self))
        current_token = ''
    location.reset()
    return current_token
