def _jis_x_0201_decode(data, errors='strict'):
    return codecs.charmap_decode(data, errors, jis8_decoding_map)
