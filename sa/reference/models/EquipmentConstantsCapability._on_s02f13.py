def _on_s02f13(self, _handler, message):
    function = self.settings.streams_functions.decode(message)
    responses = []
    if len(function) == 0:
        responses = [self._get_ec_value(equipment_constant) for equipment_constant in self._equipment_constants.values()]
    else:
        for equipment_constant_id in function:
            if equipment_constant_id not in self._equipment_constants:
                responses.append(secsgem.secs.variables.Array(self.settings.data_items.ECV, []))
            else:
                equipment_constant = self._equipment_constants[equipment_constant_id]
                responses.append(self._get_ec_value(equipment_constant))
    return self.stream_function(2, 14)(responses)
