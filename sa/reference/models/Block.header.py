def header(self):
    return self._header
