def decode(self, data, start=0):
    text_pos, _, length = self.decode_item_header(data, start)
    result = []
    for _ in range(length // self._bytes):
        result_text = data[text_pos:text_pos + self._bytes]
        if len(result_text) != self._bytes:
            raise ValueError(f'No enough data found for {self.__class__.__name__} with length {length} at position {start} ')
        result.append(struct.unpack(f'>{self._struct_code}', result_text)[0])
        text_pos += self._bytes
    self.set(result)
    return text_pos
