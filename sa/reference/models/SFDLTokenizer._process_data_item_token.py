def _process_data_item_token(self, item_name, item_location):
    item = getattr(data_items, item_name, None)
    if item is None:
        raise SFDLParseError(f'Unknown data type {item_name}', item_location, self)
    return SFDLToken(SFDLTokenType.DATA_ITEM, item_name, item_location, self)
