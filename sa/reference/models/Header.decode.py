def decode(cls, data):
    raise NotImplementedError('Header.decode missing implementation')
