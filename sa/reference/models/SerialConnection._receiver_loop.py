def _receiver_loop(self):
    while not self._stop_receiver_thread:
        data = self._port.read(self._port.in_waiting) if self._port.in_waiting > 0 else self._port.read()
        if len(data) > 0:
            self._bytestream_logger.debug('< %s', format_hex(data))
            self.on_data({'source': self, 'data': data})
