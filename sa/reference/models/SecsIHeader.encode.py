def encode(self):
    device_id = self.device_id
    if self.from_equipment:
        device_id |= 32768
    stream = self.stream
    if self.require_response:
        stream |= 128
    block = self.block
    if self.last_block:
        block |= 32768
    return struct.pack('>HBBHI', device_id, stream, self.function, block, self.system)
