def _on_disconnecting(self, _):
    self.send_separate_req()
