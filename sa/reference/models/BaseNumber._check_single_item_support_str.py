def _check_single_item_support_str(self, value):
    try:
        val = self._base_type(value)
    except ValueError:
        return False
    return not (val < self._min or val > self._max)
