def encode(self):
    data_length = len(self.data)
    struct_args = (self.header.length + data_length, self.header.encode(), self.data)
    if self.checksum_format != '':
        struct_args += (self.checksum,)
    return struct.pack(f'>{self.length_format}{self.header.length}s{data_length}s{self.checksum_format}', *struct_args)
