def _on_s06f11(self, _handler, message):
    function = self.settings.streams_functions.decode(message)
    for report in function.RPT:
        values = []
        for index, data_value_id in enumerate(self.report_subscriptions[report.RPTID.get()]):
            values.append({'dvid': data_value_id, 'value': report.V.get()[index]})
        data = {'ceid': function.CEID, 'rptid': report.RPTID, 'values': values, 'handler': self.protocol, 'peer': self}
        self.events.fire('collection_event_received', data)
    return self.stream_function(6, 12)(0)
