def _parser_handle_operator(self, char, current_token, location):
    if current_token:
        self._tokens.append(SMLToken(current_token, location.line, location.column, self))
        current_token = ''
    self._tokens.append(SMLToken(char, self._line, self._col, self))
    location.reset()
    return current_token
