def protocol(self):
    return self._protocol
