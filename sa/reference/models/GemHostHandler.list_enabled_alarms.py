def list_enabled_alarms(self):
    self._logger.info('List all enabled alarms')
    return self.settings.streams_functions.decode(self.send_and_waitfor_response(self.stream_function(5, 7)())).get()
