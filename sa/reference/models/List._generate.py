def _generate(self, data_format):
    from .array import Array
    from .functions import generate
    if data_format is None:
        return None
    result_data = OrderedDict()
    for item in data_format:
        if isinstance(item, str):
            self.name = item
            continue
        item_value = generate(item)
        if isinstance(item_value, Array):
            result_data[item_value.name] = item_value
        elif isinstance(item_value, List):
            result_data[List.get_name_from_format(item)] = item_value
        elif isinstance(item_value, Base):
            result_data[item_value.name] = item_value
        else:
            raise TypeError(f"Can't handle item of class {data_format.__class__.__name__}")
    return result_data
