def set(self, value):
    if not isinstance(value, list):
        raise TypeError(f'Invalid value type {type(value).__name__} for {self.__class__.__name__}')
    if self.count >= 0 and (not len(value) == self.count):
        raise ValueError(f'Value has invalid field count (expected: {self.count}, actual: {len(value)})')
    self.data = []
    for item in value:
        from .functions import generate
        new_object = generate(self.item_decriptor)
        new_object.set(item)
        self.data.append(new_object)
