def send_remote_command(self, rcmd, params):
    self._logger.info('Send RCMD %s', rcmd)
    s2f41 = self.stream_function(2, 41)()
    s2f41.RCMD = rcmd
    if isinstance(params, list):
        for param in params:
            s2f41.PARAMS.append({'CPNAME': param[0], 'CPVAL': param[1]})
    elif isinstance(params, collections.OrderedDict):
        for param in params:
            s2f41.PARAMS.append({'CPNAME': param, 'CPVAL': params[param]})
    return self.settings.streams_functions.decode(self.send_and_waitfor_response(s2f41))
