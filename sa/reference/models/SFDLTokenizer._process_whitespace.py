def _process_whitespace(self, elements, current_token, location):
    if current_token:
        elements.append(current_token, location.clone())
        current_token = ''
    location.reset()
    return current_token
