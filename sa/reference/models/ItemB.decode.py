def decode(cls, data):
    if isinstance(data, bytes):
        data = PacketData(data)
    _, length = cls._decode_item_header(data)
    return cls([data.get(length)])
