def _from_value_float(cls, value):
    for f_type in ['F4', 'F8']:
        if cls._subclasses_by_sml[f_type].minimum_value <= value <= cls._subclasses_by_sml[f_type].maximum_value:
            return cls._subclasses_by_sml[f_type](value)
    return cls._subclasses_by_sml['F8'](value)
