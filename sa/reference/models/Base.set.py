def set(self, value):
    raise NotImplementedError('Function set not implemented on ' + self.__class__.__name__)
