def disable(self):
    if not self._enabled:
        return
    self._enabled = False
    self._stop_receiver_thread = True
    while self._stop_receiver_thread:
        time.sleep(0.2)
