def encode(self):
    raise NotImplementedError('Header.encode missing implementation')
