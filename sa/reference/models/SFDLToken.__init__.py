def __init__(self, typ, value, location, tokenizer):
    self._type = typ
    self._value = value
    self._location = location
    self._tokenizer = tokenizer
