def current(self):
    return self._current_state.state
