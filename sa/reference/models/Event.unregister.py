def unregister(self, callback):
    self._callbacks.remove(callback)
