def encode(self):
    result = self.encode_item_header(len(self.value))
    for value in self.value:
        if value:
            result += b'\x01'
        else:
            result += b'\x00'
    return result
