def _on_state_leave_wait_delay(self, _data):
    if self._comm_delay_timer is not None:
        self._comm_delay_timer.cancel()
