def _on_state_wait_delay(self, _data):
    self._comm_delay_timer = threading.Timer(self._settings.establish_communication_timeout, self._on_wait_comm_delay_timeout)
    self._comm_delay_timer.start()
