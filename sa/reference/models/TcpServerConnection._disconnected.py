def _disconnected(self, _):
    if self._enabled:
        self._server_thread = threading.Thread(target=self.__server_thread, name=f'secsgem_tcpServerConnection_serverThread_{self._settings.address}')
        self._server_thread.start()
