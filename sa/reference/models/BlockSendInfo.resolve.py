def resolve(self, result):
    self._result = BlockSendResult.SENT_OK if result else BlockSendResult.SENT_ERROR
    self._result_trigger.set()
