def __call__(self, data):
    for callback in self._callbacks:
        callback(data)
