def _on_s05f03(self, _handler, message):
    function = self.settings.streams_functions.decode(message)
    result = self.settings.data_items.ACKC5.ACCEPTED
    if function.ALID.get() not in self._alarms:
        result = self.settings.data_items.ACKC5.ERROR
    else:
        self.alarms[function.ALID.get()].enabled = function.ALED.get() == self.settings.data_items.ALED.ENABLE
    return self.stream_function(5, 4)(result)
