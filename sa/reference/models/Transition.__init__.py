def __init__(self, name, sources, destination):
    self._name = name
    self._sources = sources if isinstance(sources, list) else [sources]
    self._destination = destination
    self._event_producer = EventProducer()
