def decode(self, data, start=0):
    text_pos, _, length = self.decode_item_header(data, start)
    result = []
    for _ in range(length):
        if bytearray(data)[text_pos] == 0:
            result.append(False)
        else:
            result.append(True)
        text_pos += 1
    self.set(result)
    return text_pos
