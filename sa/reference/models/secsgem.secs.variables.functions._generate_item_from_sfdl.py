def _generate_item_from_sfdl(tokenizer, item_token, item_name):
    item = getattr(data_items, item_name, None)
    if item is None:
        raise item_token.exception(f'Unknown data type {item_name}')
    if not tokenizer.tokens.available:
        raise item_token.exception("Closing tag '>' expected", end=True)
    closing_token = tokenizer.tokens.next()
    if closing_token.value != '>':
        raise closing_token.exception("Closing tag '>' expected")
    return item
