def encode(self):
    result = self.encode_item_header(len(self.value))
    result += self.value.encode(self.coding)
    return result
