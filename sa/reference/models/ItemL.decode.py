def decode(cls, data):
    if isinstance(data, bytes):
        data = PacketData(data)
    _, length = cls._decode_item_header(data)
    items = [Item.decode(data) for _ in range(length)]
    return cls(items)
