def _generate_sf_callback_name(stream, function):
    return f's{stream:02d}f{function:02d}'
