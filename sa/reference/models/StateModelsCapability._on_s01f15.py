def _on_s01f15(self, _handler, _message):
    oflack = 0
    if self._control_state.current in [ControlState.ONLINE, ControlState.ONLINE_LOCAL, ControlState.ONLINE_REMOTE]:
        self._control_state.remote_offline()
        self.trigger_collection_events([CollectionEventId.EQUIPMENT_OFFLINE.value])
    return self.stream_function(1, 16)(oflack)
