def _get_alarms_set(self):
    set_alarms = []
    for alid, alarm in self._alarms.items():
        if alarm.set:
            set_alarms.append(alid)
    return set_alarms
