def peek(self, ahead=1):
    return self._tokens[self._token_pointer + ahead]
