def state(self):
    return self._state
