def supports_value(self, value):
    if isinstance(value, (list, tuple)):
        if self.count > 0 and len(value) > self.count:
            return False
        return all((self._check_single_item_support(item) for item in value))
        return None
    if isinstance(value, bytearray):
        return not (self.count > 0 and len(value) > self.count)
        return None
    if isinstance(value, bytes):
        return not (self.count > 0 and len(value) > self.count)
        return None
    if isinstance(value, str):
        if self.count > 0 and len(value) > self.count:
            return False
        try:
            value.encode('ascii')
        except UnicodeEncodeError:
            return False
        return True
        return None
    if isinstance(value, bool):
        return True
    if isinstance(value, int):
        return 0 <= value <= 255
    return False
    return None
