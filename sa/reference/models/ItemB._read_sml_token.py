def _read_sml_token(cls, parser):
    data = []
    while parser.peek_token().value != '>':
        item = parser.get_token()
        value = int(item.value, 0)
        value = int(cls._verify_value_in_bounds(value, item))
        data.append(value)
    parser.get_token()
    return bytes(data)
