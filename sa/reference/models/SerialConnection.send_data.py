def send_data(self, data):
    self._bytestream_logger.debug('> %s', format_hex(data))
    self._port.write(data)
    return True
