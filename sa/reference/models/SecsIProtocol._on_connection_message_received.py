def _on_connection_message_received(self, source, message):
    try:
        decoded_message = self._settings.streams_functions.decode(message)
    except Exception:
        decoded_message = None
    self._communication_logger.info('< %s\n%s', message, decoded_message, extra=self._get_log_extra())
    if message.header.system in self._response_queues:
        self._response_queues[message.header.system].put_nowait(message)
    else:
        self.events.fire('message_received', {'connection': source, 'message': message})
