def send_and_waitfor_response(self, function):
    return self.protocol.send_and_waitfor_response(function)
