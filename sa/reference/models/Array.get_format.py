def get_format(data_format, showname=False):
    if showname:
        array_name = '{}: '
        if isinstance(data_format, list):
            array_name = array_name.format(List.get_name_from_format(data_format))
        else:
            array_name = array_name.format(data_format.__name__)
    else:
        array_name = ''
    if isinstance(data_format, list):
        return f'{array_name}[\n{secsgem.common.indent_block(List.get_format(data_format), 4)}\n    ...\n]'
    return f'{array_name}[\n{secsgem.common.indent_block(data_format.get_format(not showname), 4)}\n    ...\n]'
