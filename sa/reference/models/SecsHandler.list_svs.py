def list_svs(self, svs=None):
    self.logger.info('Get list of service variables')
    if svs is None:
        svs = []
    return self.settings.streams_functions.decode(self.send_and_waitfor_response(self.stream_function(1, 11)(svs)))
