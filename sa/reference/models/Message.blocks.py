def blocks(self):
    return self._blocks
