def send_response(self, function, system):
    out_message = self._create_message_for_function(function, system)
    self._communication_logger.info('> %s\n%s', out_message, function, extra=self._get_log_extra())
    return self.send_message(out_message)
