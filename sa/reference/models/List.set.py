def set(self, value):
    if isinstance(value, dict):
        for field_name in value:
            self.data[field_name].set(value[field_name])
    elif isinstance(value, list):
        if len(value) > len(self.data):
            raise ValueError(f'Value has invalid field count (expected: {len(self.data)}, actual: {len(value)})')
        for counter, itemvalue in enumerate(value):
            self.data[list(self.data.keys())[counter]].set(itemvalue)
    else:
        raise TypeError(f'Invalid value type {type(value).__name__} for {self.__class__.__name__}')
