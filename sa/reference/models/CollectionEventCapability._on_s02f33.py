def _on_s02f33(self, _handler, message):
    function = self.settings.streams_functions.decode(message)
    drack = secsgem.secs.data_items.DRACK.ACK
    for report in function.DATA:
        if report.RPTID in self._registered_reports and len(report.VID) > 0:
            drack = secsgem.secs.data_items.DRACK.RPTID_REDEFINED
        else:
            for vid in report.VID:
                if vid not in self._data_values and vid not in self._status_variables:
                    drack = secsgem.secs.data_items.DRACK.VID_UNKNOWN
    result = self.stream_function(2, 34)(drack)
    if drack != 0:
        return result
    if not function.DATA:
        self._registered_collection_events.clear()
        self._registered_reports.clear()
        return result
    for report in function.DATA:
        if not report.VID:
            for collection_event in list(self._registered_collection_events):
                if report.RPTID in self._registered_collection_events[collection_event].reports:
                    while report.RPTID in self._registered_collection_events[collection_event].reports:
                        self._registered_collection_events[collection_event].reports.remove(report.RPTID)
                    if not self._registered_collection_events[collection_event].reports:
                        del self._registered_collection_events[collection_event]
            if report.RPTID in self._registered_reports:
                del self._registered_reports[report.RPTID]
        else:
            self._registered_reports[report.RPTID] = CollectionEventReport(report.RPTID, report.VID)
    return result
