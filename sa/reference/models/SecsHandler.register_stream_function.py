def register_stream_function(self, stream, function, callback):
    name = self._generate_sf_callback_name(stream, function)
    setattr(self._callback_handler, name, callback)
