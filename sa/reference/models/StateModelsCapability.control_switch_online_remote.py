def control_switch_online_remote(self):
    self._control_state.switch_online_remote()
