def _build_collection_event(self, ceid):
    reports = []
    for rptid in self._registered_collection_events[ceid].reports:
        variables = []
        for var in self._registered_reports[rptid].vars:
            if var in self._status_variables:
                value = self._get_sv_value(self._status_variables[var])
                variables.append(value)
            elif var in self._data_values:
                value = self._get_dv_value(self._data_values[var])
                variables.append(value)
        reports.append({'RPTID': rptid, 'V': variables})
    return reports
