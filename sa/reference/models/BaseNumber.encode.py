def encode(self):
    result = self.encode_item_header(len(self.value) * self._bytes)
    for value in self.value:
        result += struct.pack(f'>{self._struct_code}', value)
    return result
