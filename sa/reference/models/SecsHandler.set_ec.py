def set_ec(self, ec_id, value):
    self.logger.info('Set value of equipment constant %s to %s', ec_id, value)
    return self.set_ecs([[ec_id, value]])
