def validate_value(self, value):
    if not isinstance(value, (str, bytes)):
        raise ValueError(f"Value type {type(value)} not allowed, only 'str' or 'bytes'")
    if isinstance(value, bytes):
        return value.decode(self._encoding)
    return value
