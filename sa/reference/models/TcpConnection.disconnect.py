def disconnect(self):
    if not self._thread_running:
        return
    self._disconnecting = True
    self._stop_thread = True
    while self._thread_running:
        pass
    self._disconnecting = False
