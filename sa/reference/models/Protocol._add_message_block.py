def _add_message_block(self, block):
    if block.header.system not in self._incomplete_messages:
        self._incomplete_messages[block.header.system] = self.message_type.from_block(block)
    else:
        self._incomplete_messages[block.header.system].blocks.append(block)
    message = self._incomplete_messages[block.header.system]
    if not message.complete:
        return None
    del self._incomplete_messages[block.header.system]
    return message
