def set(self, value):
    if value is None:
        raise ValueError(f"{self.__class__.__name__} can't be None")
    if isinstance(value, bytes):
        value = value.decode(self.coding)
    elif isinstance(value, bytearray):
        value = bytes(value).decode(self.coding)
    elif isinstance(value, (list, tuple)):
        value = str(bytes(bytearray(value)).decode(self.coding))
    elif isinstance(value, (int, float, complex)):
        value = str(value)
    elif isinstance(value, str):
        value.encode(self.coding)
    else:
        raise TypeError(f'Unsupported type {type(value).__name__} for {self.__class__.__name__}')
    if 0 < self.count < len(value):
        raise ValueError(f'Value longer than {self.count} chars ({len(value)} chars)')
    self.value = str(value)
