def request_process_program(self, ppid):
    self._logger.info('Request process program %s', ppid)
    s7f6 = self.settings.streams_functions.decode(self.send_and_waitfor_response(self.stream_function(7, 5)(ppid)))
    return (s7f6.PPID.get(), s7f6.PPBODY.get())
