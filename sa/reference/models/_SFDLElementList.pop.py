def pop(self):
    return self._items.pop(0)
