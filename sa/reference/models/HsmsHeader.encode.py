def encode(self):
    header_stream = self.stream
    if self.require_response:
        header_stream |= 128
    return struct.pack('>HBBBBL', self.device_id, header_stream, self.function, self.p_type, self.s_type.value, self.system)
