def is_valid(cls, value, _length=None):
    return bool(isinstance(value, list))
