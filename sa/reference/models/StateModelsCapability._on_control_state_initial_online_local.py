def _on_control_state_initial_online_local(self, _):
    self.trigger_collection_events([CollectionEventId.CONTROL_STATE_LOCAL.value])
