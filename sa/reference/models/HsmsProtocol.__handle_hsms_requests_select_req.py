def __handle_hsms_requests_select_req(self, message):
    if self._connection.disconnecting:
        self.send_reject_rsp(message.header.system, message.header.s_type, 4)
    else:
        self.send_select_rsp(message.header.system)
        self._connection_state.select()
