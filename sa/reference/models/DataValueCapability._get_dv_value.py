def _get_dv_value(self, data_value):
    if data_value.use_callback:
        return self.on_dv_value_request(data_value.id_type(data_value.dvid), data_value)
    return data_value.value_type(data_value.value)
