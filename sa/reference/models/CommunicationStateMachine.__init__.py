def __init__(self, settings):
    super().__init__()
    self._settings = settings
    self.disabled = secsgem.common.State(CommunicationState.DISABLED, 'DISABLED', initial=True)
    self.enabled = secsgem.common.State(CommunicationState.ENABLED, 'ENABLED')
    self.not_communicating = secsgem.common.State(CommunicationState.NOT_COMMUNICATING, 'NOT_COMMUNICATING', self.enabled)
    self.host_initiated_connect = secsgem.common.State(CommunicationState.HOST_INITIATED_CONNECT, 'HOST_INITIATED_CONNECT', self.enabled)
    self.wait_cr_from_host = secsgem.common.State(CommunicationState.WAIT_CR_FROM_HOST, 'WAIT_CR_FROM_HOST', self.enabled)
    self.equipment_initiated_connect = secsgem.common.State(CommunicationState.EQUIPMENT_INITIATED_CONNECT, 'EQUIPMENT_INITIATED_CONNECT', self.enabled)
    self.wait_delay = secsgem.common.State(CommunicationState.WAIT_DELAY, 'WAIT_DELAY', self.enabled)
    self.wait_cra = secsgem.common.State(CommunicationState.WAIT_CRA, 'WAIT_CRA', self.enabled)
    self.communicating = secsgem.common.State(CommunicationState.COMMUNICATING, 'COMMUNICATING', self.enabled)
    self._current_state = self.disabled
    self._transitions = [secsgem.common.Transition('enable', self.disabled, self.not_communicating), secsgem.common.Transition('disable', [self.enabled, self.not_communicating, self.communicating, self.equipment_initiated_connect, self.wait_delay, self.wait_cra, self.host_initiated_connect, self.wait_cr_from_host], self.disabled), secsgem.common.Transition('select', self.not_communicating, self.wait_cra), secsgem.common.Transition('communicationreqfail', self.wait_cra, self.wait_delay), secsgem.common.Transition('delayexpired', self.wait_delay, self.wait_cra), secsgem.common.Transition('messagereceived', self.wait_delay, self.wait_cra), secsgem.common.Transition('s1f14received', self.wait_cra, self.communicating), secsgem.common.Transition('communicationfail', self.communicating, self.not_communicating), secsgem.common.Transition('s1f13received', [self.wait_cr_from_host, self.wait_delay, self.wait_cra], self.communicating)]
    self._wait_cra_timer = None
    self._comm_delay_timer = None
    self.wait_cra.events.enter.register(self._on_state_wait_cra)
    self.wait_delay.events.enter.register(self._on_state_wait_delay)
    self.wait_cra.events.leave.register(self._on_state_leave_wait_cra)
    self.wait_delay.events.leave.register(self._on_state_leave_wait_delay)
