def send_reject_rsp(self, system_id, s_type, reason):
    message = HsmsMessage(HsmsRejectReqHeader(system_id, s_type, reason), b'')
    self._communication_logger.info('> %s\n  %s', message, message.header.s_type.text, extra=self._get_log_extra())
    return self.send_message(message)
