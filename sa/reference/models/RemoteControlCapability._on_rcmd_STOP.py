def _on_rcmd_STOP(self):
    self._logger.warning('remote command STOP not implemented, this is required for GEM compliance')
