def __init__(self, data_format, value=None, count=-1):
    super().__init__()
    self.item_decriptor = data_format
    self.count = count
    self.data = []
    if isinstance(data_format, list):
        self.name = List.get_name_from_format(data_format)
    elif hasattr(data_format, '__name__'):
        self.name = data_format.__name__
    else:
        self.name = 'UNKNOWN'
    if value is not None:
        self.set(value)
