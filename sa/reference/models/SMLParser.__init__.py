def __init__(self, source):
    if isinstance(source, str):
        source = io.StringIO(source)
    self._source = source
    self._line = 1
    self._col = 1
    self._source_lines = ['']
    self._tokens = []
    self._token_counter = -1
    self.parse_all()
