def waitfor_communicating(self, timeout=None):
    event = threading.Event()
    self._wait_event_list.append(event)
    if self._communication_state.current == CommunicationState.COMMUNICATING:
        self._wait_event_list.remove(event)
        return True
    result = event.wait(timeout)
    self._wait_event_list.remove(event)
    return result
