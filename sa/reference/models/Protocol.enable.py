def enable(self):
    self._connection.enable()
