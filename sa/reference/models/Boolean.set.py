def set(self, value):
    if isinstance(value, (list, tuple)):
        if 0 <= self.count < len(value):
            raise ValueError(f'Value longer than {self.count} chars')
        self.value = [self.__convert_single_item(item) for item in value]
    elif isinstance(value, bytearray):
        if 0 <= self.count < len(value):
            raise ValueError(f'Value longer than {self.count} chars')
        new_value = []
        for char in value:
            if not 0 <= char <= 1:
                raise ValueError(f'Value {char} out of bounds')
            new_value.append(char)
        self.value = new_value
    else:
        self.value = [self.__convert_single_item(value)]
