def _process_send_queue(self):
    if self._send_queue.empty():
        return
    while not self._send_queue.empty():
        self._connection.send_data(bytes([self.ENQ]))
        enq_resonse = self._receive_buffer.wait_for_byte(True)
        if enq_resonse == self.ENQ and self._settings.device_type == secsgem.common.DeviceType.HOST:
            self._process_received_data()
            continue
        enq_resonse = self._receive_buffer.pop_byte()
        self._connection.send_data(self._send_queue.get().data)
        data_response = self._receive_buffer.wait_for_byte()
        self._send_queue.get().resolve(data_response == self.ACK)
