def on_connection_closed(self, _connection):
    self._logger.info('Connection was closed')
    if self._communication_state.current == CommunicationState.COMMUNICATING:
        self._communication_state.communicationfail()
