def unregister_stream_function(self, stream, function):
    name = self._generate_sf_callback_name(stream, function)
    setattr(self._callback_handler, name, None)
