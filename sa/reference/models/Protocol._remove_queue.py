def _remove_queue(self, system_id):
    del self._response_queues[system_id]
