def __setattr__(self, name, value):
    if '_object_intitialized' not in self.__dict__ or name in self.__dict__:
        dict.__setattr__(self, name, value)
        return
    if value is None:
        if name in self._callbacks:
            del self._callbacks[name]
    else:
        self._callbacks[name] = value
