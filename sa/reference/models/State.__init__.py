def __init__(self, state, name, parent=None, initial=False):
    self._state = state
    self._name = name
    self._parent = parent
    self._active = initial
    self._event_producer = EventProducer()
