def _on_s05f05(self, _handler, message):
    function = self.settings.streams_functions.decode(message)
    alids = function.get()
    if len(alids) == 0:
        alids = list(self.alarms.keys())
    result = [{'ALCD': self.alarms[alid].code | (self.settings.data_items.ALCD.ALARM_SET if self.alarms[alid].set else 0), 'ALID': alid, 'ALTX': self.alarms[alid].text} if alid in self.alarms else {'ALCD': b'', 'ALID': alid, 'ALTX': ''} for alid in alids]
    return self.stream_function(5, 6)(result)
