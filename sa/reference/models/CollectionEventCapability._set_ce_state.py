def _set_ce_state(self, ceed, ceids):
    result = True
    if not ceids:
        for collection_event in self._registered_collection_events.values():
            collection_event.enabled = ceed
    else:
        for ceid in ceids:
            if ceid in self._registered_collection_events:
                self._registered_collection_events[ceid].enabled = ceed
            else:
                result = False
    return result
