def _get_alarms_enabled(self):
    enabled_alarms = []
    for alid, alarm in self._alarms.items():
        if alarm.enabled:
            enabled_alarms.append(alid)
    return enabled_alarms
