def _on_state_disconnect(self, _):
    if self._linktest_timer:
        self._linktest_timer.cancel()
    self._linktest_timer = None
