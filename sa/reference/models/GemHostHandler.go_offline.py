def go_offline(self):
    self._logger.info('Go offline')
    return self.settings.streams_functions.decode(self.send_and_waitfor_response(self.stream_function(1, 15)())).get()
