def enable(self):
    self._communication_state.enable()
    self.protocol.enable()
    self._logger.info('Connection enabled')
