def _as_dictionary(self):
    raise NotImplementedError('Header._as_dictionary missing implementation')
