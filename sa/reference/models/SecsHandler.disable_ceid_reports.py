def disable_ceid_reports(self):
    self.logger.info('Disable all collection event reports')
    return self.send_and_waitfor_response(self.stream_function(2, 33)({'DATAID': 0, 'DATA': []}))
