def queue_block(self, source, block):
    self._dispatch_queue.put((source, block))
    self._dispatcher_thread_trigger.set()
