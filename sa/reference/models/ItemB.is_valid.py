def is_valid(cls, value, _length=None):
    if isinstance(value, list):
        return cls._is_valid_list(value)
    if isinstance(value, int):
        return cls._is_value_in_bounds(value)
    if isinstance(value, bytes):
        return True
    if isinstance(value, str):
        return True
    return bool(isinstance(value, ItemB))
