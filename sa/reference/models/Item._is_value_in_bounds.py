def _is_value_in_bounds(cls, value):
    return cls._minimum_value <= value <= cls._maximum_value
