def _on_connection_message_received(self, _, message):
    if message.header.s_type.value > 0:
        'Handle HSMS messages.\n\n        Args:\n            message: received message\n\n        '
        self._communication_logger.info('< %s\n  %s', message, message.header.s_type.text, extra=self._get_log_extra())
        if message.header.s_type == HsmsSType.SELECT_REQ:
            'Handle HSMS Select Request.\n\n        Args:\n            message: received message\n\n        '
            if self._connection.disconnecting:
                self.send_reject_rsp(message.header.system, message.header.s_type, 4)
            else:
                self.send_select_rsp(message.header.system)
                self._connection_state.select()
        elif message.header.s_type == HsmsSType.SELECT_RSP:
            'Handle HSMS Select Response.\n\n        Args:\n            message: received message\n\n        '
            if message.header.system in self._response_queues:
                self._response_queues[message.header.system].put_nowait(message)
            self._connection_state.select()
        elif message.header.s_type == HsmsSType.DESELECT_REQ:
            'Handle HSMS Deselect Request.\n\n        Args:\n            message: received message\n\n        '
            if self._connection.disconnecting:
                self.send_reject_rsp(message.header.system, message.header.s_type, 4)
            else:
                self.send_deselect_rsp(message.header.system)
                self._connection_state.deselect()
        elif message.header.s_type == HsmsSType.DESELECT_RSP:
            'Handle HSMS Deselect Response.\n\n        Args:\n            message: received message\n\n        '
            if message.header.system in self._response_queues:
                self._response_queues[message.header.system].put_nowait(message)
            self._connection_state.deselect()
        elif message.header.s_type == HsmsSType.LINKTEST_REQ:
            'Handle HSMS Linktest Request.\n\n        Args:\n            message: received message\n\n        '
            if self._connection.disconnecting:
                self.send_reject_rsp(message.header.system, message.header.s_type, 4)
            else:
                self.send_linktest_rsp(message.header.system)
        elif message.header.system in self._response_queues:
            self._response_queues[message.header.system].put_nowait(message)
    else:
        try:
            decoded_message = self._settings.streams_functions.decode(message)
        except Exception:
            decoded_message = None
        self._communication_logger.info('< %s\n%s', message, decoded_message, extra=self._get_log_extra())
        if self._connection_state.current != ConnectionState.CONNECTED_SELECTED:
            self._logger.warning('received message when not selected')
            out_message = HsmsMessage(HsmsRejectReqHeader(message.header.system, message.header.s_type, 4), b'')
            self._communication_logger.info('> %s\n  %s', out_message, out_message.header.s_type.text, extra=self._get_log_extra())
            self.send_message(out_message)
            return
        if message.header.system in self._response_queues:
            self._response_queues[message.header.system].put_nowait(message)
        else:
            self.events.fire('message_received', {'connection': self, 'message': message})
