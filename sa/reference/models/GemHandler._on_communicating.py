def _on_communicating(self, _data):
    self._communication_state.select()
