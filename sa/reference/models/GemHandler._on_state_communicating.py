def _on_state_communicating(self, _data):
    self.events.fire('handler_communicating', {'handler': self})
    for event in self._wait_event_list:
        event.set()
