def _supports_value_list(self, value):
    if 0 <= self.count < len(value):
        return False
    return all((self._check_single_item_support(item) for item in value))
