def _process_operator(self, elements, char, current_token, location):
    line = location.line
    column = location.column
    if current_token:
        elements.append(current_token, location.clone())
        current_token = ''
        line = self._line
        column = self._col - 1 if self._col > 1 else self._col
    elements.append(char, _SFDLSourceLocation(line, max(column, 1)))
    location.reset()
    return current_token
