def on_connection_closed(self, connection):
    super().on_connection_closed(connection)
    if self._control_state.current in [ControlState.ONLINE, ControlState.ONLINE_LOCAL, ControlState.ONLINE_REMOTE]:
        self._control_state.switch_offline()
    if self._control_state.current == ControlState.EQUIPMENT_OFFLINE:
        self._control_state.switch_online()
