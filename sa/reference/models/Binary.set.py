def set(self, value):
    if value is None:
        return
    if isinstance(value, bytes):
        value = bytearray(value)
    elif isinstance(value, str):
        value = bytearray(value.encode('ascii'))
    elif isinstance(value, (list, tuple)):
        value = bytearray(value)
    elif isinstance(value, bytearray):
        pass
    elif isinstance(value, int):
        if 0 <= value <= 255:
            value = bytearray([value])
        else:
            raise ValueError(f'Value {value} of type {type(value).__name__} is out of range for {self.__class__.__name__}')
    else:
        raise TypeError(f'Unsupported type {type(value).__name__} for {self.__class__.__name__}')
    if 0 < self.count < len(value):
        raise ValueError(f'Value longer than {self.count} chars ({len(value)} chars)')
    self.value = value
