def _format_value(value):
    return f'{value}'
