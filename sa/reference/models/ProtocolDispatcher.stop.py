def stop(self):
    if not self._receiver_thread.is_alive():
        return
    self._stop_receiver_thread = True
    self._receiver_thread_trigger.set()
    self._receiver_thread.join()
