def parse_all(self):
    current_token = ''
    location = _SMLParserLocation()
    current_delimiter = ''
    while True:
        char = self._get_char()
        location.update_uninitialized_line(self._line)
        location.update_uninitialized_column(self._col)
        if char == '':
            return
        if current_delimiter:
            current_delimiter, current_token = self._parser_handle_post_delimiter(char, current_delimiter, current_token, location)
            continue
        if char in self.whitespaces:
            current_token = self._parser_handle_whitespace(current_token, location)
            continue
        if char in self.operators:
            current_token = self._parser_handle_operator(char, current_token, location)
            continue
        if char in self.literal_delimiter:
            current_delimiter = char
        current_token += char
