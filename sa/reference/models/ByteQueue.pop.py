def pop(self, size=1):
    with self._buffer_lock:
        data = self._buffer[:size]
        del self._buffer[:size]
        return data
