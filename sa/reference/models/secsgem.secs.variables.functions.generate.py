def generate(data_format):
    from .array import Array
    from .list_type import List
    if data_format is None:
        return None
    if isinstance(data_format, str):
        tokenizer = SFDLTokenizer(data_format)
        data_format = _generate_from_sfdl(tokenizer)
    if isinstance(data_format, list):
        if len(data_format) == 1:
            return Array(data_format[0])
        return List(data_format)
    if inspect.isclass(data_format):
        if issubclass(data_format, Base):
            return data_format()
        raise TypeError(f"Can't generate item of class {data_format.__name__}")
    raise TypeError(f"Can't handle item of class {data_format.__class__.__name__}")
