def append(self, data):
    if hasattr(self.data, 'append') and callable(self.data.append):
        self.data.append(data)
    else:
        raise AttributeError(f"class {self.__class__.__name__} has no attribute 'append'")
