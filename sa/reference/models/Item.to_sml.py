def to_sml(self, indent=0):
    if len(self._value) == 0:
        return f'{indent * ' '}< {self._sml_type} >'
    values_string = ' '.join([self._format_value(value) for value in self._value])
    return f'{indent * ' '}< {self._sml_type} {values_string} >'
