def _supports_value_bytearray(self, value):
    if 0 <= self.count < len(value):
        return False
    return all((not (item < self._min or item > self._max) for item in value))
