def __init__(self, data):
    self._data = data
    self._result = BlockSendResult.NOT_SENT
    self._result_trigger = threading.Event()
