def _process_opening_token(self, elements, tokens):
    if not elements.available:
        message = "Opening tag '<' expected"
        if tokens:
            raise tokens[-1].exception(message, end=True)
        raise SFDLParseError(message, _SFDLSourceLocation(1, 1), self)
    opening_value, opening_location = elements.pop()
    if opening_value != '<':
        raise SFDLParseError("Opening tag '<' expected", opening_location, self)
    tokens.append(SFDLToken(SFDLTokenType.OPEN_TAG, opening_value, opening_location, self))
