def decode(self, data, start=0):
    text_pos, _, length = self.decode_item_header(data, start)
    result = ''
    if length > 0:
        result = data[text_pos:text_pos + length].decode(self.coding)
    self.set(result)
    return text_pos + length
