def set(self, value):
    if isinstance(value, Base):
        if isinstance(value, Dynamic):
            if not isinstance(value.value, tuple(self.types)) and self.types:
                raise ValueError(f'Unsupported type {value.value.__class__.__name__} for this instance of Dynamic, allowed {self.types}')
            self.value = value.value
        else:
            if not isinstance(value, tuple(self.types)) and self.types:
                raise ValueError(f'Unsupported type {value.__class__.__name__} for this instance of Dynamic, allowed {self.types}')
            self.value = value
    else:
        matched_type = self._match_type(value)
        if matched_type is None:
            raise ValueError(f'Value "{value}" of type {value.__class__.__name__} not valid for SecsDynamic with {self.types}')
        self.value = matched_type(count=self.count)
        self.value.set(value)
