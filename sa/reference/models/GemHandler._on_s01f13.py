def _on_s01f13(self, _handler, _message):
    if self._is_host:
        return self.stream_function(1, 14)({'COMMACK': self.on_commack_requested(), 'MDLN': []})
    return self.stream_function(1, 14)({'COMMACK': self.on_commack_requested(), 'MDLN': [self._mdln, self._softrev]})
