def get(self):
    return self.value
