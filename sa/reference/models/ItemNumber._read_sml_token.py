def _read_sml_token(cls, parser):
    data = []
    while parser.peek_token().value != '>':
        item = parser.get_token()
        value = cls._type(item.value)
        value = cls._type(cls._verify_value_in_bounds(value, item))
        data.append(value)
    parser.get_token()
    return data
