def peek(self):
    return self._data[0]
