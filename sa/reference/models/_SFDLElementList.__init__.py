def __init__(self):
    self._items = []
