def __init__(self, line=-1, column=-1):
    self._line = line
    self._column = column
