def available(self):
    return len(self._tokens) > self._token_pointer + 1
