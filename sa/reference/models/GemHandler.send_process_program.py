def send_process_program(self, ppid, ppbody):
    self._logger.info('Send process program %s', ppid)
    return self.settings.streams_functions.decode(self.send_and_waitfor_response(self.stream_function(7, 3)({'PPID': ppid, 'PPBODY': ppbody}))).get()
