def get_one(self):
    result = self._data[0]
    self._data = self._data[1:]
    return result
