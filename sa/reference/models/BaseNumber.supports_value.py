def supports_value(self, value):
    if isinstance(value, (list, tuple)):
        if 0 <= self.count < len(value):
            return False
        return all((self._check_single_item_support(item) for item in value))
        return None
    if isinstance(value, bytearray):
        if 0 <= self.count < len(value):
            return False
        return all((not (item < self._min or item > self._max) for item in value))
        return None
    if isinstance(value, float) and self._base_type is int:
        return False
    if isinstance(value, bool):
        return True
    if isinstance(value, (int, float)):
        return not (value < self._min or value > self._max)
    if isinstance(value, (bytes, str)):
        try:
            val = self._base_type(value)
        except ValueError:
            return False
        return not (val < self._min or val > self._max)
        return None
    return False
    return None
