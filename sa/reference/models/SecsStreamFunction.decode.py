def decode(self, data):
    if self.data is not None:
        self.data.decode(data)
