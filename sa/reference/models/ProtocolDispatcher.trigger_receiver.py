def trigger_receiver(self):
    self._receiver_thread_trigger.set()
