def append(self, data):
    from .functions import generate
    new_object = generate(self.item_decriptor)
    new_object.set(data)
    self.data.append(new_object)
