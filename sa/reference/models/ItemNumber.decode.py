def decode(cls, data):
    if isinstance(data, bytes):
        data = PacketData(data)
    _, length = cls._decode_item_header(data)
    result = []
    for _ in range(length // cls._bytes):
        result_text = data.get(cls._bytes)
        if len(result_text) != cls._bytes:
            raise ValueError(f'No enough data found for {cls.__name__} with length {length}')
        result.append(struct.unpack(f'>{cls._struct_code}', result_text)[0])
    return cls(result)
