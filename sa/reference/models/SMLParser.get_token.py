def get_token(self):
    self._token_counter += 1
    return self._tokens[self._token_counter]
