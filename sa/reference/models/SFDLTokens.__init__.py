def __init__(self, tokens):
    self._tokens = tokens
    self._token_pointer = -1
