def are_you_there(self):
    self.logger.info("Requesting 'are you there'")
    return self.send_and_waitfor_response(self.stream_function(1, 1)())
