def update(self, function):
    functions = [func for func in self._functions if func.stream == function.stream and func.function == function.function]
    for func in functions:
        self._functions.remove(func)
    self._functions.append(function)
