def _verify_value_in_bounds(cls, value, item=None):
    if cls._minimum_value <= value <= cls._maximum_value:
        return value
    if item is not None:
        raise item.exception(f"value '{item.value}' out of bounds for {cls._sml_type} ({cls._minimum_value} - {cls._maximum_value})")
    raise ValueError(f"value '{value}' out of bounds for {cls._sml_type} ({cls._minimum_value} - {cls._maximum_value})")
