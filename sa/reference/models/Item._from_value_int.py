def _from_value_int(cls, value):
    types = ['U1', 'U2', 'U4', 'U8'] if value >= 0 else ['I1', 'I2', 'I4', 'I8']
    for f_type in types:
        if cls._subclasses_by_sml[f_type].minimum_value <= value <= cls._subclasses_by_sml[f_type].maximum_value:
            return cls._subclasses_by_sml[f_type](value)
    return cls._subclasses_by_sml['I8'](value)
