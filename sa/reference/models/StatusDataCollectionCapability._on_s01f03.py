def _on_s01f03(self, _handler, message):
    function = self.settings.streams_functions.decode(message)
    responses = []
    if len(function) == 0:
        responses = [self._get_sv_value(status_variable) for status_variable in self._status_variables.values()]
    else:
        for status_variable_id in function:
            if status_variable_id not in self._status_variables:
                responses.append(secsgem.secs.variables.Array(self.settings.data_items.SV, []))
            else:
                status_variable = self._status_variables[status_variable_id]
                responses.append(self._get_sv_value(status_variable))
    return self.stream_function(1, 4)(responses)
