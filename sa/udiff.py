"""Minimal unified-diff applier working on in-memory sources (no subprocess, no scratch copy of the tree).

apply(patch_text, read, reverse=False) -> {relative path: new source}   or None when a hunk does not apply."""

from __future__ import annotations

import re

_HUNK = re.compile(r"^@@ -(\d+)(?:,(\d+))? \+(\d+)(?:,(\d+))? @@")


def parse(patch_text: str):
    files = []
    cur = None
    lines = patch_text.splitlines()
    i = 0
    while i < len(lines):
        l = lines[i]
        if l.startswith("--- ") and i + 1 < len(lines) and lines[i + 1].startswith("+++ "):
            old = l[4:].split("\t")[0].strip()
            new = lines[i + 1][4:].split("\t")[0].strip()
            strip = lambda p: p[2:] if p.startswith(("a/", "b/")) else p  # noqa: E731
            cur = {"old": strip(old), "new": strip(new), "hunks": []}
            files.append(cur)
            i += 2
            continue
        m = _HUNK.match(l)
        if m and cur is not None:
            hunk = {"old_start": int(m.group(1)), "lines": []}
            i += 1
            while i < len(lines) and not lines[i].startswith("@@") and not (lines[i].startswith("--- ") and i + 1 < len(lines) and lines[i + 1].startswith("+++ ")) and not lines[i].startswith("diff "):
                if lines[i].startswith("\\"):
                    i += 1
                    continue
                tag = lines[i][:1]
                if tag in (" ", "+", "-"):
                    hunk["lines"].append((tag, lines[i][1:]))
                elif lines[i] == "":
                    hunk["lines"].append((" ", ""))
                else:
                    break
                i += 1
            cur["hunks"].append(hunk)
            continue
        i += 1
    return files


def _apply_hunks(src_lines, hunks, reverse):
    out = list(src_lines)
    offset = 0
    for h in hunks:
        before = [t for tag, t in h["lines"] if tag in (" ", "+" if reverse else "-")]
        after = [t for tag, t in h["lines"] if tag in (" ", "-" if reverse else "+")]
        guess = h["old_start"] - 1 + offset
        pos = None
        for delta in sorted(range(-80, 81), key=abs):
            p = guess + delta
            if 0 <= p <= len(out) - len(before) and [x.rstrip("\n") for x in out[p:p + len(before)]] == before:
                pos = p
                break
        if pos is None:
            return None
        out[pos:pos + len(before)] = after
        offset += len(after) - len(before) + (pos - guess)
    return out


def apply(patch_text: str, read, reverse=False):
    result = {}
    for f in parse(patch_text):
        path = f["new"] if f["new"] != "/dev/null" else f["old"]
        if not path.endswith((".py", ".yaml", ".md")):
            continue
        try:
            src = read(path)
        except OSError:
            return None
        lines = src.split("\n")
        new = _apply_hunks(lines, f["hunks"], reverse)
        if new is None:
            return None
        result[path] = "\n".join(new)
    return result or None
